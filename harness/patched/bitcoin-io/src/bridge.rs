#[cfg(feature = "alloc")]
use alloc::boxed::Box;

/// A bridging wrapper providing the IO traits for types that already implement `std` IO traits.
#[repr(transparent)]
pub struct FromStd<T>(T);

impl<T> FromStd<T> {
    /// Wraps an IO type.
    #[inline]
    pub const fn new(inner: T) -> Self { Self(inner) }

    /// Returns the wrapped value.
    #[inline]
    pub fn into_inner(self) -> T {
        self.0
    }

    /// Returns a reference to the wrapped value.
    #[inline]
    pub fn inner(&self) -> &T {
        &self.0
    }

    /// Returns a mutable reference to the wrapped value.
    #[inline]
    pub fn inner_mut(&mut self) -> &mut T {
        &mut self.0
    }

    /// Wraps a mutable reference to IO type.
    #[inline]
    pub fn new_mut(inner: &mut T) -> &mut Self {
        // SAFETY: the type is repr(transparent) and the lifetimes match
        unsafe { &mut *(inner as *mut _ as *mut Self) }
    }

    /// Wraps a boxed IO type.
    #[cfg(feature = "alloc")]
    #[inline]
    pub fn new_boxed(inner: Box<T>) -> Box<Self> {
        // SAFETY: the type is repr(transparent) and the pointer is created from Box
        unsafe { Box::from_raw(Box::into_raw(inner) as *mut Self) }
    }
}

impl<T: std::io::Read> super::Read for FromStd<T> {
    #[inline]
    fn read(&mut self, buf: &mut [u8]) -> super::Result<usize> {
        self.0.read(buf).map_err(Into::into)
    }

    #[inline]
    fn read_exact(&mut self, buf: &mut [u8]) -> super::Result<()> {
        self.0.read_exact(buf).map_err(Into::into)
    }
}

impl<T: std::io::BufRead> super::BufRead for FromStd<T> {
    #[inline]
    fn fill_buf(&mut self) -> super::Result<&[u8]> {
        self.0.fill_buf().map_err(Into::into)
    }

    #[inline]
    fn consume(&mut self, amount: usize) {
        self.0.consume(amount)
    }
}

impl<T: std::io::Write> super::Write for FromStd<T> {
    #[inline]
    fn write(&mut self, buf: &[u8]) -> super::Result<usize> {
        self.0.write(buf).map_err(Into::into)
    }

    #[inline]
    fn flush(&mut self) -> super::Result<()> {
        self.0.flush().map_err(Into::into)
    }

    #[inline]
    fn write_all(&mut self, buf: &[u8]) -> super::Result<()> {
        self.0.write_all(buf).map_err(Into::into)
    }
}

// We also impl std traits so that mixing the calls is not annoying.

impl<T: std::io::Read> std::io::Read for FromStd<T> {
    #[inline]
    fn read(&mut self, buf: &mut [u8]) -> std::io::Result<usize> {
        self.0.read(buf)
    }

    #[inline]
    fn read_exact(&mut self, buf: &mut [u8]) -> std::io::Result<()> {
        self.0.read_exact(buf)
    }
}

impl<T: std::io::BufRead> std::io::BufRead for FromStd<T> {
    #[inline]
    fn fill_buf(&mut self) -> std::io::Result<&[u8]> {
        self.0.fill_buf()
    }

    #[inline]
    fn consume(&mut self, amount: usize) {
        self.0.consume(amount)
    }
}

impl<T: std::io::Write> std::io::Write for FromStd<T> {
    #[inline]
    fn write(&mut self, buf: &[u8]) -> std::io::Result<usize> {
        self.0.write(buf)
    }

    #[inline]
    fn flush(&mut self) -> std::io::Result<()> {
        self.0.flush()
    }

    #[inline]
    fn write_all(&mut self, buf: &[u8]) -> std::io::Result<()> {
        self.0.write_all(buf)
    }
}

/// A bridging wrapper providing the std traits for types that already implement our traits.
#[repr(transparent)]
pub struct ToStd<T>(T);

impl<T> ToStd<T> {
    /// Wraps an IO type.
    #[inline]
    pub const fn new(inner: T) -> Self { Self(inner) }

    /// Returns the wrapped value.
    #[inline]
    pub fn into_inner(self) -> T {
        self.0
    }

    /// Returns a reference to the wrapped value.
    #[inline]
    pub fn inner(&self) -> &T {
        &self.0
    }

    /// Returns a mutable reference to the wrapped value.
    #[inline]
    pub fn inner_mut(&mut self) -> &mut T {
        &mut self.0
    }

    /// Wraps a mutable reference to IO type.
    #[inline]
    pub fn new_mut(inner: &mut T) -> &mut Self {
        // SAFETY: the type is repr(transparent) and the lifetimes match
        unsafe { &mut *(inner as *mut _ as *mut Self) }
    }

    /// Wraps a boxed IO type.
    #[cfg(feature = "alloc")]
    #[inline]
    pub fn new_boxed(inner: Box<T>) -> Box<Self> {
        // SAFETY: the type is repr(transparent) and the pointer is created from Box
        unsafe { Box::from_raw(Box::into_raw(inner) as *mut Self) }
    }
}

impl<T: super::Read> std::io::Read for ToStd<T> {
    #[inline]
    fn read(&mut self, buf: &mut [u8]) -> std::io::Result<usize> {
        self.0.read(buf).map_err(Into::into)
    }

    #[inline]
    fn read_exact(&mut self, buf: &mut [u8]) -> std::io::Result<()> {
        self.0.read_exact(buf).map_err(Into::into)
    }
}

impl<T: super::BufRead> std::io::BufRead for ToStd<T> {
    #[inline]
    fn fill_buf(&mut self) -> std::io::Result<&[u8]> {
        self.0.fill_buf().map_err(Into::into)
    }

    #[inline]
    fn consume(&mut self, amount: usize) {
        self.0.consume(amount)
    }
}

impl<T: super::Write> std::io::Write for ToStd<T> {
    #[inline]
    fn write(&mut self, buf: &[u8]) -> std::io::Result<usize> {
        self.0.write(buf).map_err(Into::into)
    }

    #[inline]
    fn flush(&mut self) -> std::io::Result<()> {
        self.0.flush().map_err(Into::into)
    }

    #[inline]
    fn write_all(&mut self, buf: &[u8]) -> std::io::Result<()> {
        self.0.write_all(buf).map_err(Into::into)
    }
}

// We also impl our traits so that mixing the calls is not annoying.

impl<T: super::Read> super::Read for ToStd<T> {
    #[inline]
    fn read(&mut self, buf: &mut [u8]) -> super::Result<usize> {
        self.0.read(buf)
    }

    #[inline]
    fn read_exact(&mut self, buf: &mut [u8]) -> super::Result<()> {
        self.0.read_exact(buf)
    }
}

impl<T: super::BufRead> super::BufRead for ToStd<T> {
    #[inline]
    fn fill_buf(&mut self) -> super::Result<&[u8]> {
        self.0.fill_buf()
    }

    #[inline]
    fn consume(&mut self, amount: usize) {
        self.0.consume(amount)
    }
}

impl<T: super::Write> super::Write for ToStd<T> {
    #[inline]
    fn write(&mut self, buf: &[u8]) -> super::Result<usize> {
        self.0.write(buf)
    }

    #[inline]
    fn flush(&mut self) -> super::Result<()> {
        self.0.flush()
    }

    #[inline]
    fn write_all(&mut self, buf: &[u8]) -> super::Result<()> {
        self.0.write_all(buf)
    }
}

macro_rules! impl_our {
    (impl$(<$($gen:ident $(: $gent:path)?),*>)? Read for $std_type:ty $(where $($where:tt)*)?) => {
        impl$(<$($gen$(: $gent)?),*>)? super::Read for $std_type $(where $($where)*)? {
            #[inline]
            fn read(&mut self, buf: &mut [u8]) -> super::Result<usize> {
                std::io::Read::read(self, buf).map_err(Into::into)
            }

            #[inline]
            fn read_exact(&mut self, buf: &mut [u8]) -> super::Result<()> {
                std::io::Read::read_exact(self, buf).map_err(Into::into)
            }
        }
    };

    (impl$(<$($gen:ident $(: $gent:path)?),*>)? BufRead for $std_type:ty $(where $($where:tt)*)?) => {
        impl$(<$($gen$(: $gent)?),*>)? super::BufRead for $std_type $(where $($where)*)? {
            #[inline]
            fn fill_buf(&mut self) -> super::Result<&[u8]> {
                std::io::BufRead::fill_buf(self).map_err(Into::into)
            }

            #[inline]
            fn consume(&mut self, amount: usize) {
                std::io::BufRead::consume(self, amount)
            }
        }
    };

    (impl$(<$($gen:ident $(: $gent:path)?),*>)? Write for $std_type:ty $(where $($where:tt)*)?) => {
        impl$(<$($gen$(: $gent)?),*>)? super::Write for $std_type $(where $($where)*)? {
            #[inline]
            fn write(&mut self, buf: &[u8]) -> super::Result<usize> {
                std::io::Write::write(self, buf).map_err(Into::into)
            }

            #[inline]
            fn flush(&mut self) -> super::Result<()> {
                std::io::Write::flush(self).map_err(Into::into)
            }

            #[inline]
            fn write_all(&mut self, buf: &[u8]) -> super::Result<()> {
                std::io::Write::write_all(self, buf).map_err(Into::into)
            }
        }
    };
}

#[cfg(rust_v_1_72)]
impl_our! {
    impl<R: std::io::Read> Read for std::io::BufReader<R> where R: ?Sized
}

#[cfg(not(rust_v_1_72))]
impl_our! {
    impl<R: std::io::Read> Read for std::io::BufReader<R>
}

#[cfg(rust_v_1_72)]
impl_our! {
    impl<R: std::io::Read> BufRead for std::io::BufReader<R> where R: ?Sized
}

#[cfg(not(rust_v_1_72))]
impl_our! {
    impl<R: std::io::Read> BufRead for std::io::BufReader<R>
}

impl std::io::Write for super::Sink {
    #[inline]
    fn write(&mut self, buf: &[u8]) -> std::io::Result<usize> { Ok(buf.len()) }

    #[inline]
    fn write_all(&mut self, _: &[u8]) -> std::io::Result<()> { Ok(()) }

    #[inline]
    fn flush(&mut self) -> std::io::Result<()> { Ok(()) }
}

#[cfg(rust_v_1_72)]
impl_our! {
    impl<W: std::io::Write> Write for std::io::BufWriter<W> where W: ?Sized
}

#[cfg(not(rust_v_1_72))]
impl_our! {
    impl<W: std::io::Write> Write for std::io::BufWriter<W>
}

#[cfg(rust_v_1_72)]
impl_our! {
    impl<W: std::io::Write> Write for std::io::LineWriter<W> where W: ?Sized
}

#[cfg(not(rust_v_1_72))]
impl_our! {
    impl<W: std::io::Write> Write for std::io::LineWriter<W>
}

impl_our! {
    impl<R: std::io::Read> Read for std::io::Take<R>
}

impl_our! {
    impl<R: std::io::BufRead> BufRead for std::io::Take<R>
}

impl_our! {
    impl<R1: std::io::Read, R2: std::io::Read> Read for std::io::Chain<R1, R2>
}

impl_our! {
    impl<R1: std::io::BufRead, R2: std::io::BufRead> BufRead for std::io::Chain<R1, R2>
}

impl_our! {
    impl<T: AsRef<[u8]>> Read for std::io::Cursor<T>
}

impl_our! {
    impl<T: AsRef<[u8]>> BufRead for std::io::Cursor<T>
}

impl_our! {
    impl Write for std::io::Cursor<std::vec::Vec<u8>>
}

impl_our! {
    impl Write for std::io::Cursor<&'_ mut std::vec::Vec<u8>>
}

impl_our! {
    impl Write for std::io::Cursor<std::boxed::Box<[u8]>>
}

impl_our! {
    impl Read for std::io::Empty
}

impl_our! {
    impl BufRead for std::io::Empty
}

#[cfg(rust_v_1_73)]
impl_our! {
    impl Write for std::io::Empty
}

// No idea why &Empty impls Write but not Read + BufRead
#[cfg(rust_v_1_73)]
impl_our! {
    impl Write for &'_ std::io::Empty
}

impl_our! {
    impl Read for std::io::Repeat
}

impl_our! {
    impl Read for std::io::Stdin
}

#[cfg(rust_v_1_78)]
impl_our! {
    impl Read for &'_ std::io::Stdin
}

impl_our! {
    impl Write for std::io::Stdout
}

impl_our! {
    impl Write for &'_ std::io::Stdout
}

impl_our! {
    impl Write for std::io::Stderr
}

impl_our! {
    impl Write for &'_ std::io::Stderr
}

impl_our! {
    impl Read for std::io::StdinLock<'_>
}

impl_our! {
    impl BufRead for std::io::StdinLock<'_>
}

impl_our! {
    impl Read for std::fs::File
}

impl_our! {
    impl Write for std::fs::File
}

impl_our! {
    impl Read for &'_ std::fs::File
}

impl_our! {
    impl Write for &'_ std::fs::File
}

#[cfg(rust_v_1_73)]
impl_our! {
    impl Read for std::sync::Arc<std::fs::File>
}

#[cfg(rust_v_1_73)]
impl_our! {
    impl Write for std::sync::Arc<std::fs::File>
}

impl_our! {
    impl Read for std::net::TcpStream
}

impl_our! {
    impl Write for std::net::TcpStream
}

impl_our! {
    impl Read for &'_ std::net::TcpStream
}

impl_our! {
    impl Write for &'_ std::net::TcpStream
}

#[cfg(target_family = "unix")]
impl_our! {
    impl Read for std::os::unix::net::UnixStream
}

#[cfg(target_family = "unix")]
impl_our! {
    impl Write for std::os::unix::net::UnixStream
}

#[cfg(target_family = "unix")]
impl_our! {
    impl Read for &'_ std::os::unix::net::UnixStream
}

#[cfg(target_family = "unix")]
impl_our! {
    impl Write for &'_ std::os::unix::net::UnixStream
}

impl_our! {
    impl Read for std::process::ChildStderr
}

impl_our! {
    impl Read for std::process::ChildStdout
}

impl_our! {
    impl Write for std::process::ChildStdin
}

// No ide why other &ChildStd* are not implemented
impl_our! {
    impl Write for &'_ std::process::ChildStdin
}

#[cfg(rust_v_1_75)]
impl_our! {
    impl Read for std::collections::VecDeque<u8>
}

#[cfg(rust_v_1_75)]
impl_our! {
    impl BufRead for std::collections::VecDeque<u8>
}

#[cfg(rust_v_1_63)]
impl_our! {
    impl Write for std::collections::VecDeque<u8>
}
