//! Rust-Bitcoin IO Library
//!
//! The `std::io` module is not exposed in `no-std` Rust so building `no-std` applications which
//! require reading and writing objects via standard traits is not generally possible. Thus, this
//! library exists to export a minmal version of `std::io`'s traits which we use in `rust-bitcoin`
//! so that we can support `no-std` applications.
//!
//! These traits are not one-for-one drop-ins, but are as close as possible while still implementing
//! `std::io`'s traits without unnecessary complexity.

#![cfg_attr(not(feature = "std"), no_std)]

// Coding conventions.
#![warn(missing_docs)]

// Exclude lints we don't think are valuable.
#![allow(clippy::needless_question_mark)] // https://github.com/rust-bitcoin/rust-bitcoin/pull/2134
#![allow(clippy::manual_range_contains)] // More readable than clippy's format.

#[cfg(feature = "alloc")]
extern crate alloc;

#[cfg(feature = "encoding")]
pub extern crate encoding;

mod error;
mod macros;
#[cfg(feature = "std")]
mod bridge;

#[cfg(feature = "std")]
pub use bridge::{FromStd, ToStd};

#[cfg(all(not(feature = "std"), feature = "alloc"))]
use alloc::vec::Vec;
use core::cmp;

#[cfg(feature = "encoding")]
use encoding::Decoder;

#[rustfmt::skip]                // Keep public re-exports separate.
pub use self::error::{Error, ErrorKind};

/// Result type returned by functions in this crate.
pub type Result<T> = core::result::Result<T, Error>;

/// A generic trait describing an input stream. See [`std::io::Read`] for more info.
pub trait Read {
    /// Reads bytes from source into `buf`.
    fn read(&mut self, buf: &mut [u8]) -> Result<usize>;

    /// Reads bytes from source until `buf` is full.
    #[inline]
    fn read_exact(&mut self, mut buf: &mut [u8]) -> Result<()> {
        while !buf.is_empty() {
            match self.read(buf) {
                Ok(0) => return Err(ErrorKind::UnexpectedEof.into()),
                Ok(len) => buf = &mut buf[len..],
                Err(e) if e.kind() == ErrorKind::Interrupted => {}
                Err(e) => return Err(e),
            }
        }
        Ok(())
    }

    /// Creates an adapter which will read at most `limit` bytes.
    #[inline]
    fn take(&mut self, limit: u64) -> Take<'_, Self> { Take { reader: self, remaining: limit } }

    /// Attempts to read up to limit bytes from the reader, allocating space in `buf` as needed.
    ///
    /// `limit` is used to prevent a denial of service attack vector since an unbounded reader will
    /// exhaust all memory.
    ///
    /// Similar to `std::io::Read::read_to_end` but with the DOS protection.
    #[doc(alias = "read_to_end")]
    #[cfg(feature = "alloc")]
    #[inline]
    fn read_to_limit(&mut self, buf: &mut Vec<u8>, limit: u64) -> Result<usize> {
        self.take(limit).read_to_end(buf)
    }
}

/// A trait describing an input stream that uses an internal buffer when reading.
pub trait BufRead: Read {
    /// Returns data read from this reader, filling the internal buffer if needed.
    fn fill_buf(&mut self) -> Result<&[u8]>;

    /// Marks the buffered data up to amount as consumed.
    ///
    /// # Panics
    ///
    /// May panic if `amount` is greater than amount of data read by `fill_buf`.
    fn consume(&mut self, amount: usize);
}

/// Reader adapter which limits the bytes read from an underlying reader.
///
/// Created by calling `[Read::take]`.
pub struct Take<'a, R: Read + ?Sized> {
    reader: &'a mut R,
    remaining: u64,
}

impl<'a, R: Read + ?Sized> Take<'a, R> {
    /// Reads all bytes until EOF from the underlying reader into `buf`.
    #[cfg(feature = "alloc")]
    #[inline]
    pub fn read_to_end(&mut self, buf: &mut Vec<u8>) -> Result<usize> {
        let mut read: usize = 0;
        let mut chunk = [0u8; 64];
        loop {
            match self.read(&mut chunk) {
                Ok(0) => break,
                Ok(n) => {
                    buf.extend_from_slice(&chunk[0..n]);
                    read += n;
                }
                Err(ref e) if e.kind() == ErrorKind::Interrupted => {}
                Err(e) => return Err(e),
            };
        }
        Ok(read)
    }
}

impl<'a, R: Read + ?Sized> Read for Take<'a, R> {
    #[inline]
    fn read(&mut self, buf: &mut [u8]) -> Result<usize> {
        let len = cmp::min(buf.len(), self.remaining.try_into().unwrap_or(buf.len()));
        let read = self.reader.read(&mut buf[..len])?;
        self.remaining -= read.try_into().unwrap_or(self.remaining);
        Ok(read)
    }
}

// Impl copied from Rust stdlib.
impl<'a, R: BufRead + ?Sized> BufRead for Take<'a, R> {
    #[inline]
    fn fill_buf(&mut self) -> Result<&[u8]> {
        // Don't call into inner reader at all at EOF because it may still block
        if self.remaining == 0 {
            return Ok(&[]);
        }

        let buf = self.reader.fill_buf()?;
        // Cast length to a u64 instead of casting `remaining` to a `usize`
        // (in case `remaining > u32::MAX` and we are on a 32 bit machine).
        let cap = cmp::min(buf.len() as u64, self.remaining) as usize;
        Ok(&buf[..cap])
    }

    #[inline]
    fn consume(&mut self, amount: usize) {
        assert!(amount as u64 <= self.remaining);
        self.remaining -= amount as u64;
        self.reader.consume(amount);
    }
}

impl Read for &[u8] {
    #[inline]
    fn read(&mut self, buf: &mut [u8]) -> Result<usize> {
        let cnt = cmp::min(self.len(), buf.len());
        buf[..cnt].copy_from_slice(&self[..cnt]);
        *self = &self[cnt..];
        Ok(cnt)
    }
}

impl BufRead for &[u8] {
    #[inline]
    fn fill_buf(&mut self) -> Result<&[u8]> { Ok(self) }

    // This panics if amount is out of bounds, same as the std version.
    #[inline]
    fn consume(&mut self, amount: usize) { *self = &self[amount..] }
}

/// Wraps an in memory reader providing the `position` function.
pub struct Cursor<T> {
    inner: T,
    pos: u64,
}

impl<T: AsRef<[u8]>> Cursor<T> {
    /// Creates a `Cursor` by wrapping `inner`.
    #[inline]
    pub fn new(inner: T) -> Self { Cursor { inner, pos: 0 } }

    /// Returns the position read up to thus far.
    #[inline]
    pub fn position(&self) -> u64 { self.pos }

    /// Sets the internal position.
    ///
    /// This method allows seeking within the wrapped memory by setting the position.
    ///
    /// Note that setting a position that is larger than the buffer length will cause reads to
    /// return no bytes (EOF).
    #[inline]
    pub fn set_position(&mut self, position: u64) {
        self.pos = position;
    }

    /// Returns the inner buffer.
    ///
    /// This is the whole wrapped buffer, including the bytes already read.
    #[inline]
    pub fn into_inner(self) -> T { self.inner }

    /// Returns a reference to the inner buffer.
    ///
    /// This is the whole wrapped buffer, including the bytes already read.
    #[inline]
    pub fn inner(&self) -> &T { &self.inner }
}

impl<T: AsRef<[u8]>> Read for Cursor<T> {
    #[inline]
    fn read(&mut self, buf: &mut [u8]) -> Result<usize> {
        let inner: &[u8] = self.inner.as_ref();
        let start_pos = self.pos.try_into().unwrap_or(inner.len());
        let read = core::cmp::min(inner.len().saturating_sub(start_pos), buf.len());
        buf[..read].copy_from_slice(&inner[start_pos..start_pos + read]);
        self.pos =
            self.pos.saturating_add(read.try_into().unwrap_or(u64::MAX /* unreachable */));
        Ok(read)
    }
}

impl<T: AsRef<[u8]>> BufRead for Cursor<T> {
    #[inline]
    fn fill_buf(&mut self) -> Result<&[u8]> {
        let inner: &[u8] = self.inner.as_ref();
        Ok(&inner[self.pos as usize..])
    }

    #[inline]
    fn consume(&mut self, amount: usize) {
        assert!(amount <= self.inner.as_ref().len());
        self.pos += amount as u64;
    }
}

/// A generic trait describing an output stream. See [`std::io::Write`] for more info.
pub trait Write {
    /// Writes `buf` into this writer, returning how many bytes were written.
    fn write(&mut self, buf: &[u8]) -> Result<usize>;

    /// Flushes this output stream, ensuring that all intermediately buffered contents
    /// reach their destination.
    fn flush(&mut self) -> Result<()>;

    /// Attempts to write an entire buffer into this writer.
    #[inline]
    fn write_all(&mut self, mut buf: &[u8]) -> Result<()> {
        while !buf.is_empty() {
            match self.write(buf) {
                Ok(0) => return Err(ErrorKind::UnexpectedEof.into()),
                Ok(len) => buf = &buf[len..],
                Err(e) if e.kind() == ErrorKind::Interrupted => {}
                Err(e) => return Err(e),
            }
        }
        Ok(())
    }
}

#[cfg(feature = "alloc")]
impl Write for alloc::vec::Vec<u8> {
    #[inline]
    fn write(&mut self, buf: &[u8]) -> Result<usize> {
        self.extend_from_slice(buf);
        Ok(buf.len())
    }

    #[inline]
    fn flush(&mut self) -> Result<()> { Ok(()) }
}

impl Write for &'_ mut [u8] {
    #[inline]
    fn write(&mut self, buf: &[u8]) -> Result<usize> {
        let cnt = core::cmp::min(self.len(), buf.len());
        self[..cnt].copy_from_slice(&buf[..cnt]);
        *self = &mut core::mem::take(self)[cnt..];
        Ok(cnt)
    }

    #[inline]
    fn flush(&mut self) -> Result<()> { Ok(()) }
}

/// A sink to which all writes succeed. See [`std::io::Sink`] for more info.
///
/// Created using `io::sink()`.
pub struct Sink;

impl Write for Sink {
    #[inline]
    fn write(&mut self, buf: &[u8]) -> Result<usize> { Ok(buf.len()) }

    #[inline]
    fn write_all(&mut self, _: &[u8]) -> Result<()> { Ok(()) }

    #[inline]
    fn flush(&mut self) -> Result<()> { Ok(()) }
}

/// Returns a sink to which all writes succeed. See [`std::io::sink`] for more info.
#[inline]
pub fn sink() -> Sink { Sink }

/// Wraps a `std` IO type to implement the traits from this crate.
///
/// All methods are passed through converting the errors.
#[cfg(feature = "std")]
#[inline]
pub const fn from_std<T>(std_io: T) -> FromStd<T> {
    FromStd::new(std_io)
}

/// Wraps a mutable reference to `std` IO type to implement the traits from this crate.
///
/// All methods are passed through converting the errors.
#[cfg(feature = "std")]
#[inline]
pub fn from_std_mut<T>(std_io: &mut T) -> &mut FromStd<T> {
    FromStd::new_mut(std_io)
}

/// An error that can occur when reading and decoding from a buffered reader.
#[derive(Debug)]
pub enum ReadError<D> {
    /// An I/O error occurred while reading from the reader.
    Io(Error),
    /// The decoder encountered an error while parsing the data.
    Decode(D),
}

impl<D: core::fmt::Display> core::fmt::Display for ReadError<D> {
    fn fmt(&self, f: &mut core::fmt::Formatter<'_>) -> core::fmt::Result {
        match self {
            Self::Io(e) => write!(f, "I/O error: {}", e),
            Self::Decode(e) => write!(f, "decode error: {}", e),
        }
    }
}

#[cfg(feature = "std")]
impl<D> std::error::Error for ReadError<D>
where
    D: core::fmt::Debug + core::fmt::Display + std::error::Error + 'static,
{
    fn source(&self) -> Option<&(dyn std::error::Error + 'static)> {
        match self {
            Self::Io(e) => Some(e),
            Self::Decode(e) => Some(e),
        }
    }
}

#[cfg(feature = "std")]
impl<D> From<Error> for ReadError<D> {
    fn from(e: Error) -> Self { Self::Io(e) }
}

/// Encodes a `consensus_encoding` object to an I/O writer.
///
/// # Errors
///
/// If an I/O error occurs while writing to the underlying writer.
#[cfg(feature = "encoding")]
pub fn encode_to_writer<T, W>(object: &T, writer: W) -> Result<()>
where
    T: encoding::Encode + ?Sized,
    W: Write,
{
    let mut encoder = object.encoder();
    drain_to_writer(&mut encoder, writer)
}

/// Drains the output of an [`encoding::Encoder`] to an I/O writer.
///
/// See [`encode_to_writer`] for more information.
///
/// # Errors
///
/// Returns any I/O error encountered while writing to the writer.
#[cfg(feature = "encoding")]
pub fn drain_to_writer<T, W>(encoder: &mut T, mut writer: W) -> Result<()>
where
    T: encoding::Encoder + ?Sized,
    W: Write,
{
    loop {
        writer.write_all(encoder.current_chunk())?;
        if encoder.advance().has_finished() {
            break;
        }
    }
    Ok(())
}

/// Decodes an object from a buffered reader.
///
/// # Performance
///
/// For unbuffered readers (like [`std::fs::File`] or [`std::net::TcpStream`]), consider wrapping
/// your reader with [`std::io::BufReader`] in order to use this function. This avoids frequent
/// small reads, which can significantly impact performance.
///
/// # Errors
///
/// Returns [`ReadError::Decode`] if the decoder encounters an error while parsing
/// the data, or [`ReadError::Io`] if an I/O error occurs while reading.
#[cfg(feature = "encoding")]
pub fn decode_from_read<T, R>(
    reader: R,
) -> core::result::Result<T, ReadError<<T::Decoder as Decoder>::Error>>
where
    T: encoding::Decode,
    R: BufRead,
{
    decode_from_read_internal(reader, T::decoder())
}

/// Decodes an object from a buffered reader using a [`Decoder`] type.
///
/// Unlike [`decode_from_read`], this takes a generic [`Decoder`] parameter, allowing use with
/// decoders which don't have a dedicated [`encoding::Decode`] implementer.
///
/// # Performance
///
/// For unbuffered readers (like [`std::fs::File`] or [`std::net::TcpStream`]), consider wrapping
/// your reader with [`std::io::BufReader`] in order to use this function. This avoids frequent
/// small reads, which can significantly impact performance.
///
/// # Errors
///
/// Returns [`ReadError::Decode`] if the decoder encounters an error while parsing
/// the data, or [`ReadError::Io`] if an I/O error occurs while reading.
#[cfg(feature = "encoding")]
pub fn decode_from_read_with<D, R>(
    reader: R,
) -> core::result::Result<D::Output, ReadError<D::Error>>
where
    D: Decoder + Default,
    R: BufRead,
{
    decode_from_read_internal(reader, D::default())
}

#[cfg(feature = "encoding")]
fn decode_from_read_internal<D, R>(
    mut reader: R,
    mut decoder: D,
) -> core::result::Result<D::Output, ReadError<D::Error>>
where
    D: Decoder + Default,
    R: BufRead,
{
    loop {
        let mut buffer = match reader.fill_buf() {
            Ok(buffer) => buffer,
            // Auto retry read for non-fatal error.
            Err(error) if error.kind() == ErrorKind::Interrupted => continue,
            Err(error) => return Err(ReadError::Io(error)),
        };

        if buffer.is_empty() {
            // EOF, but still try to finalize the decoder.
            return decoder.end().map_err(ReadError::Decode);
        }

        let original_len = buffer.len();
        let status = decoder.push_bytes(&mut buffer).map_err(ReadError::Decode)?;
        let consumed = original_len - buffer.len();
        reader.consume(consumed);

        if status.is_ready() {
            return decoder.end().map_err(ReadError::Decode);
        }
    }

}

/// Decodes an object from an unbuffered reader using a fixed-size buffer.
///
/// For most use cases, prefer [`decode_from_read`] with a [`std::io::BufReader`].
/// This function is only needed when you have an unbuffered reader which you
/// cannot wrap. It will probably have worse performance.
///
/// # Buffer
///
/// Uses a fixed 4KB (4096 bytes) stack-allocated buffer that is reused across
/// read operations. This size is a good balance between memory usage and
/// system call efficiency for most use cases.
///
/// For different buffer sizes, use [`decode_from_read_unbuffered_with`].
///
/// # Errors
///
/// Returns [`ReadError::Decode`] if the decoder encounters an error while parsing
/// the data, or [`ReadError::Io`] if an I/O error occurs while reading.
#[cfg(feature = "encoding")]
pub fn decode_from_read_unbuffered<T, R>(
    reader: R,
) -> core::result::Result<T, ReadError<<T::Decoder as Decoder>::Error>>
where
    T: encoding::Decode,
    R: Read,
{
    decode_from_read_unbuffered_with::<T, R, 4096>(reader)
}

/// Decodes an object from an unbuffered reader using a custom-sized buffer.
///
/// For most use cases, prefer [`decode_from_read`] with a [`std::io::BufReader`].
/// This function is only needed when you have an unbuffered reader which you
/// cannot wrap. It will probably have worse performance.
///
/// # Buffer
///
/// The `BUFFER_SIZE` parameter controls the intermediate buffer size used for
/// reading. The buffer is allocated on the stack (not heap) and reused across
/// read operations. Larger buffers reduce the number of system calls, but use
/// more memory.
///
/// # Errors
///
/// Returns [`ReadError::Decode`] if the decoder encounters an error while parsing
/// the data, or [`ReadError::Io`] if an I/O error occurs while reading.
#[cfg(feature = "encoding")]
pub fn decode_from_read_unbuffered_with<T, R, const BUFFER_SIZE: usize>(
    mut reader: R,
) -> core::result::Result<T, ReadError<<T::Decoder as Decoder>::Error>>
where
    T: encoding::Decode,
    R: Read,
{
    let mut decoder = T::decoder();
    let mut buffer = [0u8; BUFFER_SIZE];

    while decoder.read_limit() > 0 {
        // Only read what we need, up to buffer size.
        let clamped_buffer = &mut buffer[..decoder.read_limit().min(BUFFER_SIZE)];
        match reader.read(clamped_buffer) {
            Ok(0) => {
                // EOF, but still try to finalize the decoder.
                return decoder.end().map_err(ReadError::Decode);
            }
            Ok(bytes_read) => {
                let mut to_push = &clamped_buffer[..bytes_read];
                while !to_push.is_empty() {
                    if decoder.push_bytes(&mut to_push).map_err(ReadError::Decode)?.is_ready() {
                        return decoder.end().map_err(ReadError::Decode);
                    }
                }
            }
            Err(ref e) if e.kind() == ErrorKind::Interrupted => {
                // Auto retry read for non-fatal error.
            }
            Err(e) => return Err(ReadError::Io(e)),
        }
    }

    decoder.end().map_err(ReadError::Decode)
}

#[cfg(test)]
mod tests {
    use super::*;

    #[cfg(all(not(feature = "std"), feature = "alloc"))]
    use alloc::{string::ToString, vec};

    #[test]
    fn buf_read_fill_and_consume_slice() {
        let data = [0_u8, 1, 2];

        let mut slice = &data[..];

        let fill = BufRead::fill_buf(&mut slice).unwrap();
        assert_eq!(fill.len(), 3);
        assert_eq!(fill, &[0_u8, 1, 2]);
        slice.consume(2);

        let fill = BufRead::fill_buf(&mut slice).unwrap();
        assert_eq!(fill.len(), 1);
        assert_eq!(fill, &[2_u8]);
        slice.consume(1);

        // checks we can attempt to read from a now-empty reader.
        let fill = BufRead::fill_buf(&mut slice).unwrap();
        assert_eq!(fill.len(), 0);
        assert_eq!(fill, &[]);
    }

    #[test]
    #[cfg(feature = "alloc")]
    fn read_to_limit_greater_than_total_length() {
        let s = "16-byte-string!!".to_string();
        let mut reader = Cursor::new(&s);
        let mut buf = vec![];

        // 32 is greater than the reader length.
        let read = reader.read_to_limit(&mut buf, 32).expect("failed to read to limit");
        assert_eq!(read, s.len());
        assert_eq!(&buf, s.as_bytes())
    }

    #[test]
    #[cfg(feature = "alloc")]
    fn read_to_limit_less_than_total_length() {
        let s = "16-byte-string!!".to_string();
        let mut reader = Cursor::new(&s);
        let mut buf = vec![];

        let read = reader.read_to_limit(&mut buf, 2).expect("failed to read to limit");
        assert_eq!(read, 2);
        assert_eq!(&buf, "16".as_bytes())
    }

    #[cfg(feature = "encoding")]
    mod encoding_tests {
        use super::*;

        struct TestData(u32);

        impl encoding::Encode for TestData {
            type Encoder<'s: 's> = encoding::ArrayEncoder<4>;

            fn encoder(&self) -> Self::Encoder<'_> {
                encoding::ArrayEncoder::without_length_prefix(self.0.to_le_bytes())
            }
        }

        struct TestArray([u8; 4]);

        impl encoding::Decode for TestArray {
            type Decoder = TestArrayDecoder;
        }

        #[derive(Default)]
        struct TestArrayDecoder {
            inner: encoding::ArrayDecoder<4>,
        }

        impl encoding::Decoder for TestArrayDecoder {
            type Output = TestArray;
            type Error = encoding::UnexpectedEofError;

            fn push_bytes(
                &mut self,
                bytes: &mut &[u8],
            ) -> core::result::Result<encoding::DecoderStatus, Self::Error> {
                self.inner.push_bytes(bytes)
            }

            fn end(self) -> core::result::Result<Self::Output, Self::Error> {
                self.inner.end().map(TestArray)
            }

            fn read_limit(&self) -> usize {
                self.inner.read_limit()
            }
        }

        #[test]
        fn encode_to_writer() {
            let data = TestData(0x1234_5678);

            let mut buf = [0_u8; 4];
            super::encode_to_writer(&data, buf.as_mut_slice()).unwrap();

            assert_eq!(buf, [0x78, 0x56, 0x34, 0x12]);
        }

        #[test]
        fn decode_from_read_success() {
            let data = [1, 2, 3, 4];
            let cursor = Cursor::new(&data);
            let result: core::result::Result<TestArray, _> = super::decode_from_read(cursor);
            assert!(result.is_ok());
            let decoded = result.unwrap();
            assert_eq!(decoded.0, [1, 2, 3, 4]);
        }

        #[test]
        fn decode_from_read_unexpected_eof() {
            let data = [1, 2, 3];
            let cursor = Cursor::new(&data);
            let result: core::result::Result<TestArray, _> = super::decode_from_read(cursor);
            assert!(matches!(result, Err(ReadError::Decode(_))));
        }

        #[test]
        fn decode_from_read_unbuffered_success() {
            let data = [1, 2, 3, 4];
            let cursor = Cursor::new(&data);
            let result: core::result::Result<TestArray, _> =
                super::decode_from_read_unbuffered(cursor);
            assert!(result.is_ok());
            let decoded = result.unwrap();
            assert_eq!(decoded.0, [1, 2, 3, 4]);
        }

        #[test]
        fn decode_from_read_unbuffered_unexpected_eof() {
            let data = [1, 2, 3];
            let cursor = Cursor::new(&data);
            let result: core::result::Result<TestArray, _> =
                super::decode_from_read_unbuffered(cursor);
            assert!(matches!(result, Err(ReadError::Decode(_))));
        }

        #[test]
        fn decode_from_read_unbuffered_empty() {
            let data = [];
            let cursor = Cursor::new(&data);
            let result: core::result::Result<TestArray, _> =
                super::decode_from_read_unbuffered(cursor);
            assert!(matches!(result, Err(ReadError::Decode(_))));
        }

        #[test]
        fn decode_from_read_unbuffered_extra_data() {
            let data = [1, 2, 3, 4, 5, 6];
            let cursor = Cursor::new(&data);
            let result: core::result::Result<TestArray, _> =
                super::decode_from_read_unbuffered(cursor);
            assert!(result.is_ok());
            let decoded = result.unwrap();
            assert_eq!(decoded.0, [1, 2, 3, 4]);
        }
    }
}
