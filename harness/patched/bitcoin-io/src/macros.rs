//! Public macros for porvide.d for users to be able implement our `io::Write` trait.

#[macro_export]
/// Because we cannot provide a blanket implementation of [`std::io::Write`] for all implementers
/// of this crate's `io::Write` trait, we provide this macro instead.
///
/// This macro will implement `Write` given a `write` and `flush` fn, either by implementing the
/// crate's native `io::Write` trait directly, or a more generic trait from `std` for users using
/// that feature. In any case, this crate's `io::Write` feature will be implemented for the given
/// type, even if indirectly.
#[cfg(not(feature = "std"))]
macro_rules! impl_write {
    ($ty: ty, $write_fn: expr, $flush_fn: expr $(, $bounded_ty: ident : $bounds: path),*) => {
        impl<$($bounded_ty: $bounds),*> $crate::Write for $ty {
            #[inline]
            fn write(&mut self, buf: &[u8]) -> $crate::Result<usize> {
                $write_fn(self, buf)
            }
            #[inline]
            fn flush(&mut self) -> $crate::Result<()> {
                $flush_fn(self)
            }
        }
    }
}

#[macro_export]
/// Because we cannot provide a blanket implementation of [`std::io::Write`] for all implementers
/// of this crate's `io::Write` trait, we provide this macro instead.
///
/// This macro will implement `Write` given a `write` and `flush` fn, either by implementing the
/// crate's native `io::Write` trait directly, or a more generic trait from `std` for users using
/// that feature. In any case, this crate's `io::Write` feature will be implemented for the given
/// type, even if indirectly.
#[cfg(feature = "std")]
macro_rules! impl_write {
    ($ty: ty, $write_fn: expr, $flush_fn: expr $(, $bounded_ty: ident : $bounds: path),*) => {
        impl<$($bounded_ty: $bounds),*> std::io::Write for $ty {
            #[inline]
            fn write(&mut self, buf: &[u8]) -> std::io::Result<usize> {
                $write_fn(self, buf)
            }
            #[inline]
            fn flush(&mut self) -> std::io::Result<()> {
                $flush_fn(self)
            }
        }

        impl<$($bounded_ty: $bounds),*> $crate::Write for $ty {
            #[inline]
            fn write(&mut self, buf: &[u8]) -> $crate::Result<usize> {
                $write_fn(self, buf)
            }
            #[inline]
            fn flush(&mut self) -> $crate::Result<()> {
                $flush_fn(self)
            }
        }
    }
}
