#[cfg(all(not(feature = "std"), feature = "alloc"))]
use alloc::boxed::Box;
use core::fmt::{Debug, Display, Formatter};

/// The `io` crate error type.
#[derive(Debug)]
pub struct Error {
    kind: ErrorKind,

    #[cfg(feature = "std")]
    error: Option<Box<dyn std::error::Error + Send + Sync + 'static>>,
    #[cfg(all(feature = "alloc", not(feature = "std"), not(kani)))]
    error: Option<Box<dyn Debug + Send + Sync + 'static>>,
    // VERIFICATION MODEL (cfg(kani) only): the boxed payload is abstracted away (always `None`);
    // its `dyn` drop glue is what makes CBMC explode. Only `kind()` is observable to callers.
    #[cfg(all(feature = "alloc", not(feature = "std"), kani))]
    error: Option<()>,
}

impl Error {
    /// Creates a new I/O error.
    #[cfg(feature = "std")]
    pub fn new<E>(kind: ErrorKind, error: E) -> Error
    where
        E: Into<Box<dyn std::error::Error + Send + Sync + 'static>>,
    {
        Self { kind, error: Some(error.into()) }
    }

    /// Creates a new I/O error.
    #[cfg(all(feature = "alloc", not(feature = "std"), not(kani)))]
    pub fn new<E: sealed::IntoBoxDynDebug>(kind: ErrorKind, error: E) -> Error {
        Self { kind, error: Some(error.into()) }
    }

    /// Creates a new I/O error (Kani model: payload dropped).
    #[cfg(all(feature = "alloc", not(feature = "std"), kani))]
    pub fn new<E: sealed::IntoBoxDynDebug>(kind: ErrorKind, error: E) -> Error {
        core::mem::forget(error);
        Self { kind, error: None }
    }

    /// Returns the error kind for this error.
    pub fn kind(&self) -> ErrorKind { self.kind }

    /// Returns a reference to this error.
    #[cfg(feature = "std")]
    pub fn get_ref(&self) -> Option<&(dyn std::error::Error + Send + Sync + 'static)> {
        self.error.as_deref()
    }

    /// Returns a reference to this error.
    #[cfg(all(feature = "alloc", not(feature = "std"), not(kani)))]
    pub fn get_ref(&self) -> Option<&(dyn Debug + Send + Sync + 'static)> { self.error.as_deref() }

    /// Returns a reference to this error (Kani model: always `None`).
    #[cfg(all(feature = "alloc", not(feature = "std"), kani))]
    pub fn get_ref(&self) -> Option<&(dyn Debug + Send + Sync + 'static)> { None }
}

impl From<ErrorKind> for Error {
    fn from(kind: ErrorKind) -> Error {
        Self {
            kind,
            #[cfg(any(feature = "std", feature = "alloc"))]
            error: None,
        }
    }
}

impl Display for Error {
    fn fmt(&self, fmt: &mut Formatter) -> core::result::Result<(), core::fmt::Error> {
        fmt.write_fmt(format_args!("I/O Error: {}", self.kind.description()))?;
        #[cfg(any(feature = "alloc", feature = "std"))]
        if let Some(e) = &self.error {
            fmt.write_fmt(format_args!(". {:?}", e))?;
        }
        Ok(())
    }
}

#[cfg(feature = "std")]
impl std::error::Error for Error {
    fn source(&self) -> Option<&(dyn std::error::Error + 'static)> {
        self.error.as_ref().and_then(|e| e.as_ref().source())
    }

    #[allow(deprecated)]
    fn description(&self) -> &str {
        match self.error.as_ref() {
            Some(e) => e.description(),
            None => self.kind.description(),
        }
    }

    #[allow(deprecated)]
    fn cause(&self) -> Option<&dyn std::error::Error> {
        self.error.as_ref().and_then(|e| e.as_ref().cause())
    }
}

#[cfg(feature = "std")]
impl From<std::io::Error> for Error {
    fn from(o: std::io::Error) -> Error {
        Self { kind: ErrorKind::from_std(o.kind()), error: o.into_inner() }
    }
}

#[cfg(feature = "std")]
impl From<Error> for std::io::Error {
    fn from(o: Error) -> std::io::Error {
        if let Some(err) = o.error {
            std::io::Error::new(o.kind.to_std(), err)
        } else {
            o.kind.to_std().into()
        }
    }
}

macro_rules! define_errorkind {
    ($($(#[$($attr:tt)*])* $kind:ident),*) => {
        #[derive(Clone, Copy, Debug, Hash, PartialEq, Eq)]
        /// A minimal subset of [`std::io::ErrorKind`] which is used for [`Error`].
        ///
        /// Note that, as with [`std::io`], only [`Self::Interrupted`] has defined semantics in this
        /// crate, all other variants are provided here only to provide higher-fidelity conversions
        /// to and from [`std::io::Error`].
        pub enum ErrorKind {
            $(
                $(#[$($attr)*])*
                $kind
            ),*
        }

        impl From<core::convert::Infallible> for ErrorKind {
            fn from(never: core::convert::Infallible) -> Self { match never {} }
        }

        impl ErrorKind {
            fn description(&self) -> &'static str {
                match self {
                    $(Self::$kind => stringify!($kind)),*
                }
            }

            #[cfg(feature = "std")]
            fn to_std(self) -> std::io::ErrorKind {
                match self {
                    $(Self::$kind => std::io::ErrorKind::$kind),*
                }
            }

            #[cfg(feature = "std")]
            fn from_std(o: std::io::ErrorKind) -> ErrorKind {
                match o {
                    $(std::io::ErrorKind::$kind => ErrorKind::$kind),*,
                    _ => ErrorKind::Other
                }
            }
        }
    }
}

define_errorkind!(
    /// An entity was not found, often a file.
    NotFound,
    /// The operation lacked the necessary privileges to complete.
    PermissionDenied,
    /// The connection was refused by the remote server.
    ConnectionRefused,
    /// The connection was reset by the remote server.
    ConnectionReset,
    /// The connection was aborted (terminated) by the remote server.
    ConnectionAborted,
    /// The network operation failed because it was not connected yet.
    NotConnected,
    /// A socket address could not be bound because the address is already in use elsewhere.
    AddrInUse,
    /// A nonexistent interface was requested or the requested address was not local.
    AddrNotAvailable,
    /// The operation failed because a pipe was closed.
    BrokenPipe,
    /// An entity already exists, often a file.
    AlreadyExists,
    /// The operation needs to block to complete, but the blocking operation was requested to not occur.
    WouldBlock,
    /// A parameter was incorrect.
    InvalidInput,
    /// Data not valid for the operation were encountered.
    InvalidData,
    /// The I/O operation’s timeout expired, causing it to be canceled.
    TimedOut,
    /// An error returned when an operation could not be completed because a call to `write` returned `Ok(0)`.
    WriteZero,
    /// This operation was interrupted.
    Interrupted,
    /// An error returned when an operation could not be completed because an “end of file” was reached prematurely.
    UnexpectedEof,
    // Note: Any time we bump the MSRV any new error kinds should be added here!
    /// A custom error that does not fall under any other I/O error kind
    Other
);

#[cfg(all(feature = "alloc", not(feature = "std")))]
mod sealed {
    use alloc::boxed::Box;
    use alloc::string::String;
    use core::fmt::Debug;

    pub trait IntoBoxDynDebug {
        fn into(self) -> Box<dyn Debug + Send + Sync + 'static>;
    }

    impl IntoBoxDynDebug for &str {
        fn into(self) -> Box<dyn Debug + Send + Sync + 'static> { Box::new(String::from(self)) }
    }

    impl IntoBoxDynDebug for String {
        fn into(self) -> Box<dyn Debug + Send + Sync + 'static> { Box::new(self) }
    }
}
