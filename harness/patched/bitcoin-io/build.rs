fn main() {
    let rustc = std::env::var_os("RUSTC");
    let rustc = rustc.as_ref().map(std::path::Path::new).unwrap_or_else(|| "rustc".as_ref());
    let output = std::process::Command::new(rustc)
        .arg("--version")
        .output()
        .unwrap_or_else(|error| panic!("failed to run `{:?} --version`: {:?}", rustc, error));
    assert!(output.status.success(), "{:?} -- version returned non-zero exit code", rustc);
    let stdout = String::from_utf8(output.stdout).expect("rustc produced non-UTF-8 output");
    let version_prefix = "rustc ";
    if !stdout.starts_with(version_prefix) {
        panic!("unexpected rustc output: {}", stdout);
    }

    let version = &stdout[version_prefix.len()..];
    let end = version.find(&[' ', '-'] as &[_]).unwrap_or(version.len());
    let version = &version[..end];
    let mut version_components = version.split('.');
    let major = version_components.next().unwrap();
    assert_eq!(major, "1", "unexpected Rust major version");
    let minor = version_components
        .next()
        .unwrap_or("0")
        .parse::<u64>()
        .expect("invalid Rust minor version");

    // We can't use CARGO_PKG_RUST_VERSION in such old version.
    let msrv_minor = 56;

    // print cfg for all interesting versions less than or equal to minor
    for version in msrv_minor..=minor {
        println!("cargo:rustc-cfg=rust_v_1_{}", version);
    }
}
