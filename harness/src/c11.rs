//! C11: `lightning::chain::BlockLocator` (ring of the 12 most recent ancestor hashes).
//!
//! Hashes are only moved and compared by this code, so every hash is drawn from the
//! one-symbolic-byte family `[b; 32]` (fully symbolic 32-byte hashes did not finish: 780 s+).
//! Heights are < 2^31 (no `height + 1` overflow; real chain heights are ~2^20).

use bitcoin::hashes::Hash;
use bitcoin::BlockHash;
use lightning::chain::BlockLocator;

const RING: usize = 12;

fn any_hash() -> BlockHash {
	let b: u8 = kani::any();
	BlockHash::from_byte_array([b; 32])
}

fn any_locator() -> BlockLocator {
	let height: u32 = kani::any();
	kani::assume(height < (1u32 << 31));
	let mut previous_blocks: [Option<BlockHash>; RING] = [None; RING];
	let mut i = 0;
	while i < RING {
		if kani::any() {
			previous_blocks[i] = Some(any_hash());
		}
		i += 1;
	}
	BlockLocator { block_hash: any_hash(), height, previous_blocks }
}

fn any_slot() -> usize {
	let k: usize = kani::any();
	kani::assume(k < RING);
	k
}

/// `advance`: height+1, new tip recorded, old tip in slot 0, slot k-1 moves to slot k, the
/// oldest slot falls off. One symbolic slot index per run covers all 12 slots.
#[kani::proof]
#[kani::unwind(34)]
fn c11_advance() {
	let old = any_locator();
	let new_hash = any_hash();
	let mut loc = old;
	loc.advance(new_hash);

	assert!(loc.height == old.height + 1);
	assert!(loc.block_hash == new_hash);
	assert!(loc.previous_blocks.len() == RING);
	let k = any_slot();
	if k == 0 {
		assert!(loc.previous_blocks[0] == Some(old.block_hash));
	} else {
		assert!(loc.previous_blocks[k] == old.previous_blocks[k - 1]);
	}
	// Consequence in terms of the public query API: every height known before is still reported
	// identically, unless it fell off the ring.
	kani::cover!(k == RING - 1 && loc.previous_blocks[k].is_some() && old.previous_blocks[k] != loc.previous_blocks[k]);
	kani::cover!(k == 3 && loc.previous_blocks[k].is_none());
}

/// `advance` preserves the answers of `get_hash_at_height` for every height still in the ring,
/// and the new tip / old tip are reported at the right heights.
#[kani::proof]
#[kani::unwind(34)]
fn c11_advance_query() {
	let old = any_locator();
	let new_hash = any_hash();
	let mut loc = old;
	loc.advance(new_hash);

	let q: u32 = kani::any();
	let before = old.get_hash_at_height(q);
	let after = loc.get_hash_at_height(q);
	if q == loc.height {
		assert!(after == Some(new_hash));
	} else if q > loc.height {
		assert!(after.is_none());
	} else if (loc.height - q) as usize <= RING {
		// old tip and the 11 newest ancestors of the old locator
		assert!(after == before);
	} else {
		assert!(after.is_none());
	}
	kani::cover!(q as u64 + 12 == loc.height as u64 && after.is_some());
	kani::cover!(q as u64 + 13 == loc.height as u64 && before.is_some() && after.is_none());
}

/// `update_for_new_tip`: identical to `advance` iff the new height is `height + 1`, otherwise a
/// reset to `BlockLocator::new(hash, height)` (history wiped).
#[kani::proof]
#[kani::unwind(34)]
fn c11_update_for_new_tip() {
	let old = any_locator();
	let new_hash = any_hash();
	let new_height: u32 = kani::any();
	kani::assume(new_height < (1u32 << 31));

	let mut loc = old;
	loc.update_for_new_tip(new_hash, new_height);

	assert!(loc.height == new_height);
	assert!(loc.block_hash == new_hash);
	let k = any_slot();
	if new_height == old.height + 1 {
		let mut adv = old;
		adv.advance(new_hash);
		assert!(loc.previous_blocks[k] == adv.previous_blocks[k]);
		assert!(loc.previous_blocks[0] == Some(old.block_hash));
	} else {
		assert!(loc.previous_blocks[k].is_none());
	}
	kani::cover!(new_height == old.height + 1 && loc.previous_blocks[k].is_some() && k == 5);
	kani::cover!(new_height == old.height && old.previous_blocks[k].is_some());
	kani::cover!(new_height + 1 == old.height);
}

/// `get_hash_at_height`: tip at `height`; slot k holds height-1-k; `None` above the tip and
/// more than 12 below it.
#[kani::proof]
#[kani::unwind(34)]
fn c11_get_hash_at_height() {
	let loc = any_locator();
	let q: u32 = kani::any();
	let r = loc.get_hash_at_height(q);

	if q > loc.height {
		assert!(r.is_none());
	} else if q == loc.height {
		assert!(r == Some(loc.block_hash));
	} else if (q as u64) + (RING as u64) < loc.height as u64 {
		assert!(r.is_none());
	} else {
		// loc.height - 12 <= q < loc.height
		let k = (loc.height - 1 - q) as usize;
		assert!(k < RING);
		assert!(r == loc.previous_blocks[k]);
	}
	kani::cover!(q as u64 + 12 == loc.height as u64 && r.is_some());
	kani::cover!(q as u64 + 1 == loc.height as u64 && r.is_some());
	kani::cover!(q as u64 + 13 == loc.height as u64);
	kani::cover!(q == loc.height + 1);
}

/// Slot-indexed reading of the same contract: for every slot k, height-1-k reports slot k.
#[kani::proof]
#[kani::unwind(34)]
fn c11_get_hash_slot() {
	let loc = any_locator();
	let k = any_slot();
	kani::assume(loc.height as usize >= k + 1);
	let r = loc.get_hash_at_height(loc.height - 1 - k as u32);
	assert!(r == loc.previous_blocks[k]);
	kani::cover!(k == RING - 1 && r.is_some());
	kani::cover!(k == 0 && r.is_none());
}

/// First byte of an optional hash. Within the `[b; 32]` family two hashes are equal iff their
/// first bytes are; used only on the harness side (the library still does full comparisons).
fn b0(h: Option<BlockHash>) -> Option<u8> {
	h.map(|x| x.to_byte_array()[0])
}

/// `find_common_ancestor(a, b) = Some((x, h))` implies both locators report x at height h.
#[kani::proof]
#[kani::unwind(34)]
fn c11_fca_sound() {
	let a = any_locator();
	let b = any_locator();
	if let Some((x, h)) = a.find_common_ancestor(&b) {
		assert!(b0(a.get_hash_at_height(h)) == Some(x.to_byte_array()[0]));
		assert!(b0(b.get_hash_at_height(h)) == Some(x.to_byte_array()[0]));
		kani::cover!(h < a.height && h < b.height && a.height != b.height);
	}
}

// DROPPED (measured), all superseded by the per-offset harnesses `c11_fca_maximal_offNN` below:
//  - c11_find_common_ancestor (soundness + maximality + completeness in one, symbolic probe
//    height g, heights < 2^31): not finished in 900 s (1.4 GB), stuck in one SAT call.
//  - c11_fca_maximal / c11_fca_complete (same, split; heights < 2^31): 900 s timeout each.
//  - c11_fca_maximal_h64 / c11_fca_complete_h64 (heights < 64): SUCCESSFUL but 670 s / 746 s,
//    over the 5 minute budget.
//  - c11_fca_maximal_by_offset (all 13 offsets in one harness): 900 s timeout (1.6 GB).

/// Maximality and completeness of `find_common_ancestor`, case-split over the 13 heights that
/// `a` knows (tip = offset 0, ring slot t-1 = offset t; `c11_get_hash_at_height` /
/// `c11_get_hash_slot` prove that these are the only heights with a hash and that slot t-1 is
/// what `a` reports at height - t). One harness per offset t: if the result is `None`, or
/// `Some((_, h))` with h below a.height - t, then `b` does not report a's hash at that height.
/// Heights < 2^31. (All 13 offsets in one harness: not finished in 900 s.)
fn fca_maximal_at_offset(t: u32) {
	let a = any_locator();
	let b = any_locator();
	kani::assume(a.height >= t);
	let r = a.find_common_ancestor(&b);
	let g = a.height - t;
	let above_result = match r {
		Some((_, h)) => g > h,
		None => true,
	};
	if above_result {
		let ah = if t == 0 { Some(a.block_hash) } else { a.previous_blocks[t as usize - 1] };
		let bg = b.get_hash_at_height(g);
		assert!(!(ah.is_some() && b0(ah) == b0(bg)));
		kani::cover!(r.is_none() && ah.is_some() && bg.is_some());
		if t < RING as u32 {
			// (at offset 12 a result below g is impossible: g is the lowest height `a` knows)
			kani::cover!(r.is_some() && ah.is_some() && bg.is_some());
		}
	}
}

macro_rules! fca_offset_harness {
	($name: ident, $t: expr) => {
		#[kani::proof]
		#[kani::unwind(34)]
		fn $name() {
			fca_maximal_at_offset($t)
		}
	};
}
fca_offset_harness!(c11_fca_maximal_off00, 0);
fca_offset_harness!(c11_fca_maximal_off01, 1);
fca_offset_harness!(c11_fca_maximal_off02, 2);
fca_offset_harness!(c11_fca_maximal_off03, 3);
fca_offset_harness!(c11_fca_maximal_off04, 4);
fca_offset_harness!(c11_fca_maximal_off05, 5);
fca_offset_harness!(c11_fca_maximal_off06, 6);
fca_offset_harness!(c11_fca_maximal_off07, 7);
fca_offset_harness!(c11_fca_maximal_off08, 8);
fca_offset_harness!(c11_fca_maximal_off09, 9);
fca_offset_harness!(c11_fca_maximal_off10, 10);
fca_offset_harness!(c11_fca_maximal_off11, 11);
fca_offset_harness!(c11_fca_maximal_off12, 12);

// DROPPED (measured): TLV write / read round trip of `BlockLocator` (`impl_ser_tlv_based!`, 431
// bytes: 3-byte length prefix, type 0 tip hash, type 1 = 12 x 32 ring bytes, type 2 height;
// expected: height/tip preserved, a slot preserved unless it is `Some(all-zero hash)`, which is
// written exactly like `None` and reads back as `None`).
//  - c11_tlv_roundtrip (symbolic Some/None pattern): every slot forks the serialiser; still in the
//    length pre-computation after 435 s (2.0 GB), killed.
//  - c11_tlv_roundtrip_full / _half (concrete pattern: 12 resp. 5 leading slots `Some`, symbolic
//    hash bytes and height): write + 12 slot reads done after ~300 s, then the TLV stream reader's
//    `read_exact` loops become symbolic; 700 s, 2.1 GB / 4.2 GB, not finished, killed.
