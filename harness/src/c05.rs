//! C05: `CounterpartyCommitmentSecrets` (lightning/src/ln/chan_utils.rs), BOLT-3 compact storage
//! of per-commitment secrets in 49 slots. Only the hash-free parts: slot selection
//! (`place_secret`), `get_min_seen_secret`, the hash-free paths of `provide_secret` / `get_secret`
//! (odd indices live in slot 0 and need no derivation), and the 49-slot (de)serialisation.
//! `derive_secret` (SHA-256) is out of scope.

use lightning::ln::chan_utils::verif_hooks as h;
use lightning::ln::chan_utils::CounterpartyCommitmentSecrets;
use lightning::util::ser::{Readable, Writeable};

const SLOTS: usize = 49;
const EMPTY_IDX: u64 = 1 << 48;

/// `place_secret(idx)` = number of trailing zero bits of idx, capped at 48; for every u64 (the
/// protocol only uses idx < 2^48, where "48" means idx == 0).
#[kani::proof]
#[kani::unwind(50)]
fn c05_place_secret() {
	let idx: u64 = kani::any();
	let p = h::place_secret(idx);
	assert!(p <= 48);
	// all bits below p are clear
	assert!(idx & ((1u64 << p) - 1) == 0);
	if p < 48 {
		assert!((idx >> p) & 1 == 1);
		assert!(p as u32 == idx.trailing_zeros());
	} else {
		assert!(idx.trailing_zeros() >= 48);
		assert!(idx & 0xffff_ffff_ffff == 0);
	}
	// the slot is always a valid index into the 49-slot array
	assert!((p as usize) < SLOTS);
	kani::cover!(p == 47);
	kani::cover!(p == 48 && idx != 0);
	kani::cover!(p == 0 && idx < (1 << 48));
}

/// Slot / mask arithmetic used by `get_secret`: a secret stored by `provide_secret(idx)` in slot
/// p = place_secret(idx) is the one `get_secret` selects for exactly the indices that share idx's
/// bits above p, and idx itself matches its own slot.
#[kani::proof]
#[kani::unwind(50)]
fn c05_slot_mask_arithmetic() {
	let idx: u64 = kani::any();
	kani::assume(idx < (1 << 48));
	let p = h::place_secret(idx) as u32;
	// mask used by get_secret for slot i is !((1 << i) - 1); no shift overflow for i <= 48
	let mask = !((1u64 << p) - 1);
	assert!(idx & mask == idx);
	// any later index q derived from idx (same prefix, arbitrary low p bits) selects this slot
	let q: u64 = kani::any();
	kani::assume(q < (1 << 48));
	if q & mask == idx {
		assert!(q >= idx && q - idx < (1u64 << p));
		// and q can not be stored in a higher slot than idx's
		assert!(h::place_secret(q) as u32 <= p);
	}
	kani::cover!(p == 20 && q != idx && q & mask == idx);
	kani::cover!(p == 48);
}

fn any_secrets_indices() -> [([u8; 32], u64); SLOTS] {
	let mut raw = [([0u8; 32], EMPTY_IDX); SLOTS];
	let mut i = 0;
	while i < SLOTS {
		let b: u8 = kani::any();
		raw[i] = ([b; 32], kani::any());
		i += 1;
	}
	raw
}

/// Stored indices for the `get_min_seen_secret` harnesses. With 49 unconstrained 64-bit indices
/// the proof is a 49-step transitivity chain over 64-bit comparators and CaDiCaL did not finish
/// (single harness: 348 s+, lower bound alone: 450 s+, both killed; a 24-bit family
/// `(hi: u16) << 33 | lo: u8` also exceeded 400 s). The indices are therefore
/// drawn from the 7-symbolic-bit family  (hi << 44) | lo,  hi < 32, lo < 4:  values below, equal to
/// and above the "empty" marker 2^48 (= hi 16, lo 0), with ties and near-ties.
fn any_indices_only() -> [([u8; 32], u64); SLOTS] {
	let mut raw = [([0u8; 32], EMPTY_IDX); SLOTS];
	let mut i = 0;
	while i < SLOTS {
		let hi: u8 = kani::any();
		let lo: u8 = kani::any();
		kani::assume(hi < 32 && lo < 4);
		raw[i].1 = ((hi as u64) << 44) | lo as u64;
		i += 1;
	}
	raw
}

/// `get_min_seen_secret` is a lower bound: <= 2^48 and <= every stored index (all 49 slots
/// symbolic, index family above).
#[kani::proof]
#[kani::unwind(51)]
fn c05_min_seen_lower_bound() {
	let raw = any_indices_only();
	let s = h::secrets_from_raw(raw);
	let m = s.get_min_seen_secret();
	assert!(m <= EMPTY_IDX);
	let k: usize = kani::any();
	kani::assume(k < SLOTS);
	assert!(m <= raw[k].1);
	kani::cover!(k == 48 && m == raw[48].1 && m < raw[0].1 && m < EMPTY_IDX);
	kani::cover!(m == EMPTY_IDX && raw[3].1 > EMPTY_IDX);
}

/// ... and it is attained: either 2^48 (nothing smaller stored) or the index of some slot.
#[kani::proof]
#[kani::unwind(51)]
fn c05_min_seen_attained() {
	let raw = any_indices_only();
	let s = h::secrets_from_raw(raw);
	let m = s.get_min_seen_secret();
	let mut attained = m == EMPTY_IDX;
	let mut i = 0;
	while i < SLOTS {
		if raw[i].1 == m {
			attained = true;
		}
		i += 1;
	}
	assert!(attained);
	kani::cover!(m == raw[17].1 && m < EMPTY_IDX);
}

/// A fresh structure reports 2^48 and has every slot empty.
#[kani::proof]
#[kani::unwind(51)]
fn c05_new_is_empty() {
	let s = CounterpartyCommitmentSecrets::new();
	assert!(s.get_min_seen_secret() == EMPTY_IDX);
	let k: usize = kani::any();
	kani::assume(k < SLOTS);
	assert!(h::secrets_raw(&s)[k].1 == EMPTY_IDX);
	assert!(h::secrets_raw(&s)[k].0[31] == 0);
	kani::cover!(k == 48);
}

// DROPPED (measured): `c05_provide_secret_odd` (odd idx => slot 0, no derivation needed) and
// `c05_get_secret_slot0`. Although no SHA-256 is *executed* on those paths, the loop bounds
// (`0..place_secret(idx)`, `0..bits`) are symbolic for CBMC (it does not fold `(x | 1) & 1`), so
// symbolic execution unrolls up to 48 x 49 `derive_secret` bodies with SHA-256 inside:
// 8.5 GB after 408 s resp. 8.0 GB after 224 s, not finished. Needs a hash abstraction (engine M).

// Only the write half of the (de)serialisation is proved (a single write-then-read harness over
// the 1961-byte buffer did not get through symbolic execution in 520 s / 2.3 GB; see the note on
// the read half at the end of this file).

/// `write`: exactly 1961 bytes; slot k occupies bytes [40k, 40k+40): the 32 secret bytes followed
/// by the index big-endian; then one zero byte (empty TLV stream). Secrets from the `[b; 32]`
/// family with an independent symbolic probe of every byte position.
#[kani::proof]
#[kani::unwind(51)]
fn c05_write_layout() {
	let raw = any_secrets_indices();
	let s = h::secrets_from_raw(raw);
	let mut w = crate::ArrWriter::<1961>::new();
	s.write(&mut w).unwrap();
	assert!(w.len == 1961);
	let k: usize = kani::any();
	kani::assume(k < SLOTS);
	let j: usize = kani::any();
	kani::assume(j < 32);
	assert!(w.buf[40 * k + j] == raw[k].0[j]);
	let t: usize = kani::any();
	kani::assume(t < 8);
	assert!(w.buf[40 * k + 32 + t] == (raw[k].1 >> (8 * (7 - t))) as u8);
	assert!(w.buf[1960] == 0);
	kani::cover!(k == 48 && t == 7 && raw[k].1 == 0x0102_0304_0506_0708 && w.buf[1959] == 8);
}

// DROPPED (measured): `c05_read_layout` (read of a fully symbolic 1961-byte buffer: slot k holds
// bytes [40k, 40k+32) and the big-endian u64 at [40k+32, 40k+40), all input consumed). Symbolic
// execution slows down with every slot: 29 of 49 slots after 900 s (2.8 GB) with a `&[u8]`
// reader, 16 slots after 360 s with the byte-indexed `ArrReader`; `--cbmc-args
// --max-field-sensitivity-array-size 2048` made it slower (15 slots after 330 s).
