//! C18: lightning-invoice integer <-> 5-bit-group codec, timestamp bound, BOLT-11 amount scaling.

use bech32::Fe32;
use lightning_invoice::verif_hooks as h;
use lightning_invoice::{
	Currency, PositiveTimestamp, RawBolt11Invoice, RawDataPart, RawHrp, SiPrefix,
	MAX_TIMESTAMP,
};

fn any_fe32() -> Fe32 {
	let x: u8 = kani::any();
	kani::assume(x < 32);
	Fe32::try_from(x).unwrap()
}

/// Collect an encoder output into a fixed array (no Vec).
fn collect13(it: impl Iterator<Item = Fe32>) -> ([Fe32; 13], usize) {
	let mut out = [Fe32::Q; 13];
	let mut n = 0;
	for fe in it {
		out[n] = fe; // > 13 items would be a failed bounds check
		n += 1;
	}
	(out, n)
}

/// `encode_int_be_base32` for every u64: produces exactly `encoded_int_be_base32_size` groups
/// (= ceil(bit_len / 5), 0 for 0, at most 13), no leading zero group, group i is bits
/// [5(n-1-i), 5(n-i)) of the integer, and `parse_u64_be` inverts it.
#[kani::proof]
#[kani::unwind(15)]
fn c18_encode_int_be_base32() {
	let v: u64 = kani::any();
	let it = h::encode_int_be_base32(v);
	let announced = it.len();
	let (digits, n) = collect13(it);

	assert!(n == announced);
	assert!(n == h::encoded_int_be_base32_size(v));
	assert!(n <= 13);
	assert!((n == 0) == (v == 0));
	if n > 0 {
		assert!(digits[0].to_u8() != 0);
		// minimal length: v needs more than 5(n-1) bits, and fits in 5n bits
		assert!((v >> (5 * (n - 1))) != 0);
		assert!(n == 13 || (v >> (5 * n)) == 0);
		let i: usize = kani::any();
		kani::assume(i < n);
		assert!(digits[i].to_u8() as u64 == (v >> (5 * (n - 1 - i))) & 31);
	}
	assert!(h::parse_u64_be(&digits[..n]) == Some(v));
	kani::cover!(n == 13);
	kani::cover!(n == 7 && digits[6].to_u8() == 17);
	kani::cover!(n == 0);
}

/// `encoded_int_be_base32_size` alone, against a shift-only specification.
#[kani::proof]
fn c18_encoded_size() {
	let v: u64 = kani::any();
	let n = h::encoded_int_be_base32_size(v);
	assert!(n <= 13);
	if v == 0 {
		assert!(n == 0);
	} else {
		assert!((v >> (5 * (n - 1))) != 0);
		assert!(n == 13 || (v >> (5 * n)) == 0);
	}
	kani::cover!(n == 13);
	kani::cover!(n == 1);
}

/// `parse_u64_be` on any string of up to 14 groups: `Some(v)` iff the big-endian base-32 value
/// fits in 64 bits, and v is that value (never a wrapped one); re-encoding gives the input back
/// minus its leading zero groups.
#[kani::proof]
#[kani::unwind(16)]
fn c18_parse_u64_be() {
	let mut digits = [Fe32::Q; 14];
	let mut i = 0;
	while i < 14 {
		digits[i] = any_fe32();
		i += 1;
	}
	let n: usize = kani::any();
	kani::assume(n <= 14);

	// exact value in 128 bits (14 * 5 = 70 bits), shifts and ors only
	let mut exact: u128 = 0;
	let mut i = 0;
	while i < 14 {
		if i < n {
			exact = (exact << 5) | digits[i].to_u8() as u128;
		}
		i += 1;
	}

	let r = h::parse_u64_be(&digits[..n]);
	if exact <= u64::MAX as u128 {
		assert!(r == Some(exact as u64));
	} else {
		assert!(r.is_none());
	}
	kani::cover!(r.is_none() && n == 13);
	kani::cover!(r.is_some() && n == 14 && exact > 5);
	kani::cover!(r == Some(u64::MAX));
}

/// `parse_u64_be` o `encode`: canonical strings (no leading zero group) are fixed points.
#[kani::proof]
#[kani::unwind(16)]
fn c18_parse_then_encode() {
	let mut digits = [Fe32::Q; 13];
	let mut i = 0;
	while i < 13 {
		digits[i] = any_fe32();
		i += 1;
	}
	let n: usize = kani::any();
	kani::assume(n <= 13);
	kani::assume(n == 0 || digits[0].to_u8() != 0);
	if let Some(v) = h::parse_u64_be(&digits[..n]) {
		let (back, m) = collect13(h::encode_int_be_base32(v));
		assert!(m == n);
		let j: usize = kani::any();
		kani::assume(j < n);
		assert!(back[j].to_u8() == digits[j].to_u8());
		kani::cover!(n == 13 && j == 12);
	}
}

/// `parse_u16_be` (tagged-field length prefix etc.): `Some(v)` iff the value is < 2^16, exact.
/// In particular two groups can never overflow (the `expect("can't overflow")` in
/// `parse_tagged_parts`).
#[kani::proof]
#[kani::unwind(8)]
fn c18_parse_u16_be() {
	let mut digits = [Fe32::Q; 5];
	let mut i = 0;
	while i < 5 {
		digits[i] = any_fe32();
		i += 1;
	}
	let n: usize = kani::any();
	kani::assume(n <= 5);
	let mut exact: u32 = 0;
	let mut i = 0;
	while i < 5 {
		if i < n {
			exact = (exact << 5) | digits[i].to_u8() as u32;
		}
		i += 1;
	}
	let r = h::parse_u16_be(&digits[..n]);
	if exact <= u16::MAX as u32 {
		assert!(r == Some(exact as u16));
	} else {
		assert!(r.is_none());
	}
	if n <= 3 {
		assert!(r.is_some());
	}
	if n == 2 {
		assert!(r.unwrap() <= 1023);
	}
	kani::cover!(r.is_none() && n == 4);
	kani::cover!(r == Some(u16::MAX));
}

/// `PositiveTimestamp` accepts exactly 0..=MAX_TIMESTAMP (= 2^35 - 1), stores the value
/// unchanged, and serialises to exactly 7 groups that parse back to it.
#[kani::proof]
#[kani::unwind(15)]
fn c18_positive_timestamp() {
	assert!(MAX_TIMESTAMP == (1u64 << 35) - 1);
	let t: u64 = kani::any();
	let r = PositiveTimestamp::from_unix_timestamp(t);
	assert!(r.is_ok() == (t <= MAX_TIMESTAMP));
	let ns: u32 = kani::any();
	kani::assume(ns < 1_000_000_000);
	let r2 = PositiveTimestamp::from_duration_since_epoch(core::time::Duration::new(t, ns));
	assert!(r2.is_ok() == (t <= MAX_TIMESTAMP));
	if let Ok(ts) = r {
		assert!(ts.as_unix_timestamp() == t);
		assert!(r2.unwrap().as_unix_timestamp() == t);
		let (digits, n) = collect13(h::timestamp_fe_iter(&ts));
		assert!(n == 7);
		assert!(h::parse_u64_be(&digits[..7]) == Some(t));
		kani::cover!(t == MAX_TIMESTAMP);
		kani::cover!(t == 0);
	} else {
		kani::cover!(t == MAX_TIMESTAMP + 1);
	}
}

fn any_si() -> Option<SiPrefix> {
	let c: u8 = kani::any();
	match c {
		0 => None,
		1 => Some(SiPrefix::Milli),
		2 => Some(SiPrefix::Micro),
		3 => Some(SiPrefix::Nano),
		_ => Some(SiPrefix::Pico),
	}
}

/// 10^12 * prefix, written out independently of `SiPrefix::multiplier`.
fn spec_multiplier(si: Option<SiPrefix>) -> u64 {
	match si {
		None => 1_000_000_000_000,
		Some(SiPrefix::Milli) => 1_000_000_000,
		Some(SiPrefix::Micro) => 1_000_000,
		Some(SiPrefix::Nano) => 1_000,
		Some(SiPrefix::Pico) => 1,
	}
}

fn raw_invoice(raw_amount: Option<u64>, si: Option<SiPrefix>) -> RawBolt11Invoice {
	RawBolt11Invoice {
		hrp: RawHrp { currency: Currency::Bitcoin, raw_amount, si_prefix: si },
		data: RawDataPart {
			timestamp: PositiveTimestamp::from_unix_timestamp(0).unwrap(),
			tagged_fields: Vec::new(),
		},
	}
}

/// `RawBolt11Invoice::amount_pico_btc` for one (concrete) SI prefix and every u64 raw amount:
/// `Some` iff raw_amount <= u64::MAX / M (M = 10^12 * prefix, written as a literal), and then the
/// value is raw_amount * M (which cannot wrap below that threshold); `None` otherwise -- never a
/// wrapped amount. One harness per prefix keeps every multiplication by a literal constant
/// (the all-prefixes-symbolic variant did not finish: > 200 s in the SAT solver).
macro_rules! amount_pico_btc_harness {
	($name: ident, $si: expr, $m: expr) => {
		#[kani::proof]
		fn $name() {
			const M: u64 = $m;
			let a: u64 = kani::any();
			let inv = raw_invoice(Some(a), $si);
			let r = inv.amount_pico_btc();
			core::mem::forget(inv);
			if a <= u64::MAX / M {
				assert!(r == Some(a.wrapping_mul(M)));
				// redundant sanity: the product is at least a (no wrap below the threshold)
				assert!(r.unwrap() >= a);
			} else {
				assert!(r.is_none());
			}
			kani::cover!(r.is_none());
			kani::cover!(r.is_some() && a == u64::MAX / M);
			kani::cover!(r.is_some() && a == 21);
		}
	};
}
amount_pico_btc_harness!(c18_amount_pico_btc_none, None, 1_000_000_000_000);
amount_pico_btc_harness!(c18_amount_pico_btc_milli, Some(SiPrefix::Milli), 1_000_000_000);
amount_pico_btc_harness!(c18_amount_pico_btc_micro, Some(SiPrefix::Micro), 1_000_000);
amount_pico_btc_harness!(c18_amount_pico_btc_nano, Some(SiPrefix::Nano), 1_000);

/// Pico prefix (multiplier 1: always `Some(raw)`), no amount (always `None`), and
/// `SiPrefix::multiplier` against literals.
#[kani::proof]
fn c18_amount_pico_btc_pico_and_absent() {
	let a: u64 = kani::any();
	let inv = raw_invoice(Some(a), Some(SiPrefix::Pico));
	assert!(inv.amount_pico_btc() == Some(a));
	core::mem::forget(inv);
	let si = any_si();
	let inv = raw_invoice(None, si);
	assert!(inv.amount_pico_btc().is_none());
	core::mem::forget(inv);
	if let Some(p) = si {
		assert!(p.multiplier() == spec_multiplier(si));
		kani::cover!(p.multiplier() == 1_000_000);
	}
}

// DROPPED (measured): `c18_builder_amount_msat` (InvoiceBuilder::amount_milli_satoshis: error iff
// 10*m overflows, amount * multiplier == 10*m, prefix maximal). The library performs `%` by four
// constants and one `/` by a symbolic multiplier on 64 bits: not finished after 900 s (110 MB).
// The hook `lightning_invoice::verif_hooks::builder_amount_milli_satoshis` is left in place.
