//! C14: `AttributionData` (lightning/src/ln/onion_utils.rs): 20 hold times (4 bytes each) and
//! 210 truncated HMACs (4 bytes each) laid out in 20 blocks of 20, 19, ..., 1 HMACs.
//!
//! Block k (k = 0..=19) belongs to the hop k steps downstream of the current node and starts at
//! HMAC slot start(k) = 20k - k(k-1)/2. Entry j of block k is the HMAC that hop computed under the
//! assumption that the *current* node is at position 19 - j (positions count from the final node).
//! A node at position p therefore reads, for its downstream hop k (1 <= k <= p), slot
//! start(k) + 19 - p  (`write_downstream_hmacs`).
//!
//! All contents are fully symbolic (80 + 840 bytes); all loop bounds are the concrete constants of
//! the code (MAX_HOPS = 20). No HMAC / ChaCha is evaluated on symbolic data.

use lightning::ln::onion_utils::verif_hooks as h;
use lightning::ln::onion_utils::AttributionData;

const MAX_HOPS: usize = 20;
const HMAC_COUNT: usize = 210;
const HT_BYTES: usize = 80;
const HMAC_BYTES: usize = 840;

/// First HMAC slot of block k (independent closed form, not the running sums of the code).
fn start(k: usize) -> usize {
	20 * k - (k * k - k) / 2
}

/// Is HMAC slot `s` the first entry of a block k >= 1?
fn is_block_start_ge1(s: usize) -> bool {
	let mut k = 1;
	while k < MAX_HOPS {
		if s == start(k) {
			return true;
		}
		k += 1;
	}
	false
}

fn any_data() -> ([u8; HT_BYTES], [u8; HMAC_BYTES], AttributionData) {
	let ht: [u8; HT_BYTES] = kani::any();
	let hm: [u8; HMAC_BYTES] = kani::any();
	(ht, hm, h::attribution_from_parts(ht, hm))
}

fn any_below(n: usize) -> usize {
	let x: usize = kani::any();
	kani::assume(x < n);
	x
}

/// The constants the harness relies on are the library's.
#[kani::proof]
fn c14_layout_constants() {
	assert!(h::MAX_HOPS == MAX_HOPS && h::HOLD_TIME_LEN == 4 && h::HMAC_LEN == 4);
	assert!(h::HMAC_COUNT == HMAC_COUNT);
	assert!(start(0) == 0 && start(1) == 20 && start(19) == 209 && start(20) == HMAC_COUNT);
	let k = any_below(MAX_HOPS);
	// block k has 20 - k entries
	assert!(start(k + 1) - start(k) == MAX_HOPS - k);
	kani::cover!(k == 19);
}

/// `shift_right` on hold times: slot i moves to slot i+1 (i = 0..=18), slot 19 is dropped,
/// slot 0 keeps its (stale) old value until `update` overwrites it.
#[kani::proof]
#[kani::unwind(22)]
fn c14_shift_right_hold_times() {
	let (ht, _hm, mut a) = any_data();
	h::attribution_shift_right(&mut a);
	let out = h::attribution_hold_times(&a);

	let i = any_below(MAX_HOPS - 1);
	let b = any_below(4);
	assert!(out[(i + 1) * 4 + b] == ht[i * 4 + b]);
	assert!(out[b] == ht[b]);
	// same through the accessor the verifier uses
	let got = h::attribution_get_hold_time_bytes(&a, i + 1);
	assert!(got.len() == 4 && got[b] == ht[i * 4 + b]);
	kani::cover!(i == 18 && b == 3 && out[79] != ht[79]);
}

/// `shift_right` on HMACs: the HMAC that a node at position p reads for downstream hop k
/// (slot start(k) + 19 - p; k = 0 is the node's own block) is, after the shift, exactly what the
/// next upstream node (position p + 1) reads for downstream hop k + 1
/// (slot start(k+1) + 19 - (p+1)). The first 20 slots are left for the new node's own HMACs.
#[kani::proof]
#[kani::unwind(22)]
fn c14_shift_right_hmacs() {
	let (ht, hm, mut a) = any_data();
	let before = h::attribution_from_parts(ht, hm);
	h::attribution_shift_right(&mut a);

	let p = any_below(MAX_HOPS - 1); // upstream node at p + 1 <= 19
	let k = any_below(MAX_HOPS);
	kani::assume(k <= p);
	let b = any_below(4);
	let src = start(k) + 19 - p;
	let dst = start(k + 1) + 19 - (p + 1);
	assert!(src < start(k + 1)); // inside block k
	assert!(dst >= start(k + 1) && dst < start(k + 2)); // inside block k + 1
	assert!(h::attribution_get_hmac(&a, dst)[b] == h::attribution_get_hmac(&before, src)[b]);
	assert!(h::attribution_hmacs(&a)[dst * 4 + b] == hm[src * 4 + b]);

	// Block 0 (20 slots = 80 bytes) is untouched.
	let n = any_below(MAX_HOPS * 4);
	assert!(h::attribution_hmacs(&a)[n] == hm[n]);

	kani::cover!(p == 18 && k == 18 && dst == 209);
	kani::cover!(p == 0 && k == 0 && dst == 38);
	kani::cover!(p == 7 && k == 3 && hm[src * 4 + b] != hm[dst * 4 + b]);
}

/// Every byte of the HMAC area after `shift_right` is accounted for: slot s of block k+1, entry j
/// comes from block k, entry j + 1 (byte-for-byte); i.e. exactly entry 0 of every block is dropped.
#[kani::proof]
#[kani::unwind(22)]
fn c14_shift_right_hmacs_total() {
	let (_ht, hm, mut a) = any_data();
	h::attribution_shift_right(&mut a);
	let out = h::attribution_hmacs(&a);

	let k = any_below(MAX_HOPS - 1); // source block 0..=18
	let j = any_below(MAX_HOPS);
	kani::assume(j < MAX_HOPS - k - 1); // entries of block k + 1
	let b = any_below(4);
	assert!(out[(start(k + 1) + j) * 4 + b] == hm[(start(k) + j + 1) * 4 + b]);
	kani::cover!(k == 0 && j == 18);
	kani::cover!(k == 18 && j == 0);
}

/// `shift_left(shift_right(x))`: restores hold times 0..=18 and every HMAC except entry 0 of
/// blocks 1..=19. The dropped tail is characterised exactly: hold time 19 now duplicates old
/// hold time 18, and entry 0 of block k >= 1 holds old entry 1 of block k - 1.
#[kani::proof]
#[kani::unwind(22)]
fn c14_shift_left_after_right() {
	let (ht, hm, mut a) = any_data();
	h::attribution_shift_right(&mut a);
	h::attribution_shift_left(&mut a);
	let oht = h::attribution_hold_times(&a);
	let ohm = h::attribution_hmacs(&a);

	let n = any_below(HT_BYTES);
	if n < (MAX_HOPS - 1) * 4 {
		assert!(oht[n] == ht[n]);
	} else {
		assert!(oht[n] == ht[n - 4]);
	}

	let m = any_below(HMAC_BYTES);
	let slot = m / 4;
	if is_block_start_ge1(slot) {
		let k = any_below(MAX_HOPS);
		kani::assume(k >= 1 && start(k) == slot);
		assert!(ohm[m] == hm[(start(k - 1) + 1) * 4 + (m % 4)]);
		kani::cover!(k == 19);
		kani::cover!(k == 1 && ohm[m] != hm[m]);
	} else {
		assert!(ohm[m] == hm[m]);
		kani::cover!(slot == 0);
		kani::cover!(slot == 208);
	}
	kani::cover!(n == 79 && oht[n] != ht[n]);
}

/// `shift_right(shift_left(y))`: restores hold times 1..=19 and every HMAC of blocks 1..=19
/// (only block 0 and hold time 0, the current node's own area, are not restored).
#[kani::proof]
#[kani::unwind(22)]
fn c14_shift_right_after_left() {
	let (ht, hm, mut a) = any_data();
	h::attribution_shift_left(&mut a);
	h::attribution_shift_right(&mut a);
	let oht = h::attribution_hold_times(&a);
	let ohm = h::attribution_hmacs(&a);

	let n = any_below(HT_BYTES);
	if n >= 4 {
		assert!(oht[n] == ht[n]);
	}
	// block k >= 1, every entry j < 20 - k: restored
	let k = any_below(MAX_HOPS);
	kani::assume(k >= 1);
	let j = any_below(MAX_HOPS);
	kani::assume(j < MAX_HOPS - k);
	let b = any_below(4);
	let m = (start(k) + j) * 4 + b;
	assert!(ohm[m] == hm[m]);
	kani::cover!(k == 1 && j == 18);
	kani::cover!(k == 18 && j == 0);
}

// DROPPED (measured): direct harnesses on `write_downstream_hmacs`. The function can only be
// observed through the `HmacEngine<Sha256>` it feeds, so even with *concrete*, pairwise distinct
// slot contents (nothing symbolic reaches SHA-256) CBMC has to execute bitcoin_hashes' SHA-256 /
// HMAC symbolically and does not constant-fold it:
//  - c14_downstream_hmac_indices (all 20 positions, compare against an engine fed with slots
//    start(k)+19-p, k = 1..=p): 14.9 GB after 900 s, not finished.
//  - c14_downstream_hmac_indices_p19 / _p03 (one concrete position each): 5.2 GB / 4.4 GB after
//    210 s and growing, killed.
//  - c14_downstream_in_range (symbolic position and contents, bounds checks only, engine output
//    never inspected): 6.9 GB after 210 s and growing, killed.
// The slot formula start(k) + 19 - p that `write_downstream_hmacs` implements is what
// `c14_shift_right_hmacs` uses as "the slot the verifier reads"; that the function really
// computes this formula is NOT machine-checked here (hook `attribution_write_downstream_hmacs`
// is left in place for an engine with a hash abstraction).
