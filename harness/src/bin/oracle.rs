//! Native oracle: calls the real (hook-wrapped) functions on concrete inputs.
//! Line protocol on stdin:  `<fname> <arg> <arg> ...`  (integers; bools as 0/1)
//! Output per line:         `ok <tok> <tok> ...`  |  `panic`  |  `error <why>`
use std::io::{BufRead, Write};
use std::panic::{catch_unwind, AssertUnwindSafe};

use lightning::routing::gossip::{EffectiveCapacity, RoutingFees};

struct Args<'a> {
	it: std::str::SplitWhitespace<'a>,
}
impl<'a> Args<'a> {
	fn u64(&mut self) -> u64 {
		self.it.next().expect("missing arg").parse::<u64>().expect("bad u64")
	}
	fn u32(&mut self) -> u32 {
		self.u64() as u32
	}
	fn u16(&mut self) -> u16 {
		self.u64() as u16
	}
	fn u8(&mut self) -> u8 {
		self.u64() as u8
	}
	fn usize(&mut self) -> usize {
		self.u64() as usize
	}
	fn bool(&mut self) -> bool {
		self.u64() != 0
	}
	fn htlcs(&mut self) -> Vec<(bool, u64)> {
		let n = self.usize();
		(0..n).map(|_| (self.bool(), self.u64())).collect()
	}
	fn inputs(&mut self) -> Vec<(u8, u32, bool, u64)> {
		let n = self.usize();
		(0..n).map(|_| (self.u8(), self.u32(), self.bool(), self.u64())).collect()
	}
	fn opt_u16(&mut self) -> Option<u16> {
		let d = self.u64();
		let v = self.u16();
		if d != 0 {
			Some(v)
		} else {
			None
		}
	}
	fn opt_u64(&mut self) -> Option<u64> {
		let d = self.u64();
		let v = self.u64();
		if d != 0 {
			Some(v)
		} else {
			None
		}
	}
	fn opt_u32(&mut self) -> Option<u32> {
		let d = self.u64();
		let v = self.u32();
		if d != 0 {
			Some(v)
		} else {
			None
		}
	}
}

fn res_reason<T: core::fmt::Debug>(r: Result<(), T>) -> String {
	match r {
		Ok(()) => "Ok".to_string(),
		Err(e) => format!("Err {:?}", e).split('(').next().unwrap().split('{').next().unwrap().trim().to_string(),
	}
}

fn opt_u64(o: Option<u64>) -> String {
	match o {
		Some(v) => format!("1 {}", v),
		None => "0 0".to_string(),
	}
}

struct NoLog;
impl lightning::util::logger::Logger for NoLog {
	fn log(&self, _r: lightning::util::logger::Record) {}
}

/// Drives the real public NetworkGraph API: one announced channel (scid 42), optional existing
/// updates per direction, then the probed channel_update.  Timestamps are offsets from
/// base = now - 1 day so that the wall-clock staleness window of the std build admits them.
fn update_channel_probe(a: &mut Args) -> String {
	use lightning::ln::msgs::UnsignedChannelUpdate;
	use lightning::routing::gossip::{NetworkGraph, NodeId};
	use bitcoin::constants::ChainHash;
	use bitcoin::Network;
	let (capd, capv, existing_mask, off0, off1) = (a.u64(), a.u64(), a.u8(), a.u32(), a.u32());
	let (flags, ts_off, htlc_max, wrong_chain) = (a.u8(), a.u32(), a.u64(), a.bool());
	let now = std::time::SystemTime::now().duration_since(std::time::UNIX_EPOCH).unwrap().as_secs();
	let base = (now - 86400) as u32;
	let g = NetworkGraph::new(Network::Testnet, NoLog);
	let n1 = NodeId::from_slice(&[2u8; 33]).unwrap();
	let n2 = NodeId::from_slice(&[3u8; 33]).unwrap();
	g.add_channel_from_partial_announcement(
		42,
		if capd != 0 { Some(capv) } else { None },
		now,
		lightning::types::features::ChannelFeatures::empty(),
		n1,
		n2,
	)
	.unwrap();
	let mk = |flags: u8, ts: u32, htlc_max: u64, chain: ChainHash| UnsignedChannelUpdate {
		chain_hash: chain,
		short_channel_id: 42,
		timestamp: ts,
		message_flags: 1,
		channel_flags: flags,
		cltv_expiry_delta: 40,
		htlc_minimum_msat: 0,
		htlc_maximum_msat: htlc_max,
		fee_base_msat: 1,
		fee_proportional_millionths: 1,
		excess_data: Vec::new(),
	};
	let good = ChainHash::using_genesis_block(Network::Testnet);
	if existing_mask & 1 != 0 {
		g.update_channel_unsigned(&mk(0, base + off0, 1, good)).unwrap();
	}
	if existing_mask & 2 != 0 {
		g.update_channel_unsigned(&mk(1, base + off1, 1, good)).unwrap();
	}
	let chain = if wrong_chain { ChainHash::using_genesis_block(Network::Bitcoin) } else { good };
	let res = g.update_channel_unsigned(&mk(flags, base + ts_off, htlc_max, chain));
	let ro = g.read_only();
	let ch = ro.channel(42).unwrap();
	let rd = |d: &Option<lightning::routing::gossip::ChannelUpdateInfo>| match d {
		Some(i) => format!("1 {} {} {}", i.last_update.wrapping_sub(base), i.enabled as u8, i.htlc_maximum_msat),
		None => "0 0 0 0".to_string(),
	};
	format!("{} {} {}", matches!(res, Ok(Some(_))) as u8, rd(&ch.one_to_two), rd(&ch.two_to_one))
}

/// route_overpay_probe <final_value_msat> <last_hop_htlc_min_msat> <mid_base> <mid_prop> <last_base> <last_prop>
/// Public router API on a line graph  us -(1)- A -(2)- B -(3)- payee  (all channels 1 BTC, both directions
/// announced through the unsigned-update API): channel 2 (A -> B) charges <mid_base, mid_prop>, channel 3
/// (B -> payee) charges <last_base, last_prop> and has htlc_minimum <last_hop_htlc_min>. Output: number of
/// paths, then for the first path each hop's fee_msat (the last one is the amount delivered).
fn route_overpay_probe(a: &mut Args) -> String {
	use bitcoin::secp256k1::{PublicKey, Secp256k1, SecretKey};
	use bitcoin::Network;
	use lightning::ln::msgs::UnsignedChannelUpdate;
	use lightning::routing::gossip::{NetworkGraph, NodeId};
	use lightning::routing::router::{find_route, PaymentParameters, RouteParameters};
	use lightning::routing::scoring::{ProbabilisticScorer, ProbabilisticScoringDecayParameters, ProbabilisticScoringFeeParameters};
	use lightning::types::features::ChannelFeatures;
	let (value, last_min) = (a.u64(), a.u64());
	let (mid_base, mid_prop, last_base, last_prop) = (a.u32(), a.u32(), a.u32(), a.u32());
	let secp = Secp256k1::new();
	let key = |i: u8| PublicKey::from_secret_key(&secp, &SecretKey::from_slice(&[i; 32]).unwrap());
	let pks = [key(1), key(2), key(3), key(4)];
	let g = NetworkGraph::new(Network::Testnet, NoLog);
	let now = std::time::SystemTime::now().duration_since(std::time::UNIX_EPOCH).unwrap().as_secs();
	let chain = bitcoin::constants::ChainHash::using_genesis_block(Network::Testnet);
	for scid in 1u64..=3 {
		let (x, y) = (NodeId::from_pubkey(&pks[scid as usize - 1]), NodeId::from_pubkey(&pks[scid as usize]));
		let (n1, n2) = if x < y { (x, y) } else { (y, x) };
		g.add_channel_from_partial_announcement(scid, Some(100_000_000), now, ChannelFeatures::empty(), n1, n2).unwrap();
		for dir in 0u8..2 {
			// x -> y is the direction towards the payee; the direction bit is 0 for updates from node_one
			let forward = dir == 0;
			let src = if forward { x } else { y };
			let flags = if src == n1 { 0 } else { 1 };
			let (base, prop, min) = match (scid, forward) {
				(2, true) => (mid_base, mid_prop, 0),
				(3, true) => (last_base, last_prop, last_min),
				_ => (0, 0, 0),
			};
			g.update_channel_unsigned(&UnsignedChannelUpdate {
				chain_hash: chain,
				short_channel_id: scid,
				timestamp: now as u32,
				message_flags: 1,
				channel_flags: flags,
				cltv_expiry_delta: 40,
				htlc_minimum_msat: min,
				htlc_maximum_msat: 100_000_000_000,
				fee_base_msat: base,
				fee_proportional_millionths: prop,
				excess_data: Vec::new(),
			}).unwrap();
		}
	}
	let params = PaymentParameters::from_node_id(pks[3], 40);
	let rp = RouteParameters::from_payment_params_and_value(params, value);
	let scorer = ProbabilisticScorer::new(ProbabilisticScoringDecayParameters::default(), &g, NoLog);
	match find_route(&pks[0], &rp, &g, None, NoLog, &scorer, &ProbabilisticScoringFeeParameters::default(), &[9; 32]) {
		Ok(route) => {
			let p = &route.paths[0];
			format!("{} {}", route.paths.len(), p.hops.iter().map(|h| h.fee_msat.to_string()).collect::<Vec<_>>().join(" "))
		},
		Err(e) => format!("0 {}", e.replace(' ', "_")),
	}
}

/// route_mpp_overpay_probe <final_value> <p1_last_min_max> <p1_mid_prop> <p2_last_min_max> <p2_mid_prop>
/// Public router API, MPP enabled, on two disjoint 3-hop lines  us - A_k - B_k - payee  (k = 1, 2). On line k
/// the channel A_k -> B_k charges <pk_mid_prop> ppm and the last channel B_k -> payee accepts exactly
/// <pk_last_min_max> msat (htlc_minimum = htlc_maximum). Output per path: `| scid of the first channel,
/// fee_msat of each hop`. A forwarding node is underpaid when hop[0].fee_msat < mid_prop * (hop[1].fee + hop[2].fee) / 10^6.
fn route_mpp_overpay_probe(a: &mut Args) -> String {
	use bitcoin::secp256k1::{PublicKey, Secp256k1, SecretKey};
	use bitcoin::Network;
	use lightning::ln::msgs::UnsignedChannelUpdate;
	use lightning::routing::gossip::{NetworkGraph, NodeId};
	use lightning::routing::router::{find_route, PaymentParameters, RouteParameters};
	use lightning::routing::scoring::{ProbabilisticScorer, ProbabilisticScoringDecayParameters, ProbabilisticScoringFeeParameters};
	use lightning::types::features::{Bolt11InvoiceFeatures, ChannelFeatures};
	let value = a.u64();
	let lines = [(a.u64(), a.u32()), (a.u64(), a.u32())];
	let secp = Secp256k1::new();
	let key = |i: u8| PublicKey::from_secret_key(&secp, &SecretKey::from_slice(&[i; 32]).unwrap());
	let (us, payee) = (key(1), key(2));
	let g = NetworkGraph::new(Network::Testnet, NoLog);
	let now = std::time::SystemTime::now().duration_since(std::time::UNIX_EPOCH).unwrap().as_secs();
	let chain = bitcoin::constants::ChainHash::using_genesis_block(Network::Testnet);
	for (k, (last_amt, mid_prop)) in lines.iter().enumerate() {
		let nodes = [us, key(10 + k as u8), key(20 + k as u8), payee];
		for c in 0..3usize {
			let scid = (k as u64 + 1) * 10 + c as u64;
			let (x, y) = (NodeId::from_pubkey(&nodes[c]), NodeId::from_pubkey(&nodes[c + 1]));
			let (n1, n2) = if x < y { (x, y) } else { (y, x) };
			g.add_channel_from_partial_announcement(scid, Some(100_000_000), now, ChannelFeatures::empty(), n1, n2).unwrap();
			for forward in [true, false] {
				let src = if forward { x } else { y };
				let (prop, min, max) = match (c, forward) {
					(1, true) => (*mid_prop, 0, 100_000_000_000),
					(2, true) => (0, *last_amt, *last_amt),
					_ => (0, 0, 100_000_000_000),
				};
				g.update_channel_unsigned(&UnsignedChannelUpdate {
					chain_hash: chain,
					short_channel_id: scid,
					timestamp: now as u32,
					message_flags: 1,
					channel_flags: if src == n1 { 0 } else { 1 },
					cltv_expiry_delta: 40,
					htlc_minimum_msat: min,
					htlc_maximum_msat: max,
					fee_base_msat: 0,
					fee_proportional_millionths: prop,
					excess_data: Vec::new(),
				}).unwrap();
			}
		}
	}
	let mut feats = Bolt11InvoiceFeatures::empty();
	feats.set_variable_length_onion_required();
	feats.set_payment_secret_required();
	feats.set_basic_mpp_optional();
	let params = PaymentParameters::from_node_id(payee, 40).with_bolt11_features(feats).unwrap();
	let mut rp = RouteParameters::from_payment_params_and_value(params, value);
	rp.max_total_routing_fee_msat = None;
	let scorer = ProbabilisticScorer::new(ProbabilisticScoringDecayParameters::default(), &g, NoLog);
	match find_route(&us, &rp, &g, None, NoLog, &scorer, &ProbabilisticScoringFeeParameters::default(), &[9; 32]) {
		Ok(route) => {
			let mut out = format!("{}", route.paths.len());
			for p in route.paths.iter() {
				out += &format!(" | {} {}", p.hops[0].short_channel_id, p.hops.iter().map(|h| h.fee_msat.to_string()).collect::<Vec<_>>().join(" "));
			}
			out
		},
		Err(e) => format!("0 {}", e.replace(' ', "_")),
	}
}

/// route_validity_probe <amount> <max_paths> <max_fee (u64::MAX = none)> <max_cltv + 65536 * final_cltv_delta> <mpp 0/1> <nfailed> <failed scid>* <nchan> (<kind> <scid> <src> <dst> <base> <prop> <min> <max> <cltv> <cap_msat>)*
/// Public router API (`find_route`) on a graph described channel by channel; node 0 pays node 1.
///   kind 0: announced channel, policy given for the direction src -> dst (the reverse direction gets a zero-fee
///           policy); <cap_msat>/1000 is the announced capacity;
///   kind 1: a channel of ours (ChannelDetails, src = 0) with <cap_msat> spendable;
///   kind 2: an unannounced channel src -> payee supplied as a one-hop BOLT 11 route hint.
/// max_channel_saturation_power_of_half is 0, so a channel may be filled up to its limits.
/// The returned route is validated against the graph as the property states it. Output: `<#paths> <mask>` (`0 0` when
/// the router reports failure); mask bits: 1 more paths than allowed, 2 a hop carries less than the channel's
/// htlc_minimum, 4 a channel carries (jointly over the paths) more than htlc_maximum / its capacity / our spendable
/// balance, 8 a forwarding node is paid less than its policy requires, 16 an excluded (previously failed) channel
/// is used, 32 total fees above the limit, 64 total CLTV delta above the limit, 128 a path is not a connected chain
/// of the described channels from payer to payee, 256 less than the requested amount is delivered, 1024 (with 4) the
/// router's own debug assertion `used_liquidity_msat <= hop_max_msat` fired inside find_route (dev profile),
/// 2048 find_route panicked in some other way (dev profile: e.g. the debug assertions of max_final_value_msat).
fn route_validity_probe(a: &mut Args) -> String {
	use bitcoin::hashes::Hash;
	use bitcoin::secp256k1::{PublicKey, Secp256k1, SecretKey};
	use bitcoin::Network;
	use lightning::ln::channel_state::{ChannelCounterparty, ChannelDetails, ChannelShutdownState};
	use lightning::ln::msgs::UnsignedChannelUpdate;
	use lightning::ln::types::ChannelId;
	use lightning::routing::gossip::{NetworkGraph, NodeId};
	use lightning::routing::router::{find_route, PaymentParameters, RouteHint, RouteHintHop, RouteParameters};
	use lightning::routing::scoring::{ProbabilisticScorer, ProbabilisticScoringDecayParameters, ProbabilisticScoringFeeParameters};
	use lightning::types::features::{Bolt11InvoiceFeatures, ChannelFeatures, InitFeatures};
	let (amount, max_paths, max_fee, max_cltv, mpp) = (a.u64(), a.u8(), a.u64(), a.u32(), a.bool());
	// the final hop's CLTV delta rides in the upper half of the <max_cltv> argument (0 in most scenarios)
	let (final_cltv, max_cltv) = (max_cltv >> 16, max_cltv & 0xffff);
	let nfailed = a.usize();
	let failed: Vec<u64> = (0..nfailed).map(|_| a.u64()).collect();
	let nchan = a.usize();
	struct Chan { kind: u8, scid: u64, src: usize, dst: usize, base: u32, prop: u32, min: u64, max: u64, cltv: u16, cap: u64 }
	let chans: Vec<Chan> = (0..nchan).map(|_| Chan { kind: a.u8(), scid: a.u64(), src: a.usize(), dst: a.usize(), base: a.u32(), prop: a.u32(),
		min: a.u64(), max: a.u64(), cltv: a.u16(), cap: a.u64() }).collect();
	let secp = Secp256k1::new();
	let key = |i: usize| PublicKey::from_secret_key(&secp, &SecretKey::from_slice(&[i as u8 + 1; 32]).unwrap());
	let g = NetworkGraph::new(Network::Testnet, NoLog);
	let now = std::time::SystemTime::now().duration_since(std::time::UNIX_EPOCH).unwrap().as_secs();
	let chain = bitcoin::constants::ChainHash::using_genesis_block(Network::Testnet);
	let mut first_hops: Vec<ChannelDetails> = Vec::new();
	let mut hints: Vec<RouteHint> = Vec::new();
	for c in chans.iter() {
		match c.kind {
			0 => {
				let (x, y) = (NodeId::from_pubkey(&key(c.src)), NodeId::from_pubkey(&key(c.dst)));
				let (n1, n2) = if x < y { (x, y) } else { (y, x) };
				g.add_channel_from_partial_announcement(c.scid, Some(c.cap / 1000), now, ChannelFeatures::empty(), n1, n2).unwrap();
				for forward in [true, false] {
					let src = if forward { x } else { y };
					g.update_channel_unsigned(&UnsignedChannelUpdate {
						chain_hash: chain,
						short_channel_id: c.scid,
						timestamp: now as u32,
						message_flags: 1,
						channel_flags: if src == n1 { 0 } else { 1 },
						cltv_expiry_delta: if forward { c.cltv } else { 40 },
						htlc_minimum_msat: if forward { c.min } else { 0 },
						htlc_maximum_msat: if forward { c.max } else { c.cap },
						fee_base_msat: if forward { c.base } else { 0 },
						fee_proportional_millionths: if forward { c.prop } else { 0 },
						excess_data: Vec::new(),
					}).unwrap();
				}
			},
			1 => {
				#[allow(deprecated)]
				first_hops.push(ChannelDetails {
					channel_id: ChannelId::new_zero(),
					counterparty: ChannelCounterparty {
						features: InitFeatures::empty(),
						node_id: key(c.dst),
						unspendable_punishment_reserve: 0,
						forwarding_info: None,
						outbound_htlc_minimum_msat: None,
						outbound_htlc_maximum_msat: None,
					},
					funding_txo: Some(lightning::chain::transaction::OutPoint { txid: bitcoin::Txid::from_slice(&[0; 32]).unwrap(), index: 0 }),
					funding_redeem_script: None,
					channel_type: None,
					short_channel_id: Some(c.scid),
					outbound_scid_alias: None,
					inbound_scid_alias: None,
					channel_value_satoshis: 0,
					user_channel_id: 0,
					outbound_capacity_msat: c.cap,
					next_outbound_htlc_limit_msat: c.cap,
					next_outbound_htlc_minimum_msat: c.min,
					next_splice_out_maximum_sat: c.cap / 1000,
					inbound_capacity_msat: 42,
					unspendable_punishment_reserve: None,
					confirmations_required: None,
					confirmations: None,
					force_close_spend_delay: None,
					is_outbound: true,
					is_channel_ready: true,
					is_usable: true,
					is_announced: true,
					inbound_htlc_minimum_msat: None,
					inbound_htlc_maximum_msat: None,
					config: None,
					feerate_sat_per_1000_weight: None,
					channel_shutdown_state: Some(ChannelShutdownState::NotShuttingDown),
					pending_inbound_htlcs: Vec::new(),
					pending_outbound_htlcs: Vec::new(),
					current_dust_exposure_msat: None,
					splice_details: None,
				});
			},
			_ => {
				hints.push(RouteHint(vec![RouteHintHop {
					src_node_id: key(c.src),
					short_channel_id: c.scid,
					fees: RoutingFees { base_msat: c.base, proportional_millionths: c.prop },
					cltv_expiry_delta: c.cltv,
					htlc_minimum_msat: Some(c.min),
					htlc_maximum_msat: Some(c.max),
				}]));
			},
		}
	}
	let mut feats = Bolt11InvoiceFeatures::empty();
	feats.set_variable_length_onion_required();
	feats.set_payment_secret_required();
	if mpp {
		feats.set_basic_mpp_optional();
	}
	let mut params = PaymentParameters::from_node_id(key(1), final_cltv).with_bolt11_features(feats).unwrap()
		.with_max_path_count(max_paths).with_max_total_cltv_expiry_delta(max_cltv).with_max_channel_saturation_power_of_half(0);
	if !hints.is_empty() {
		params = params.with_route_hints(hints).unwrap();
	}
	params.previously_failed_channels = failed.clone();
	let mut rp = RouteParameters::from_payment_params_and_value(params, amount);
	rp.max_total_routing_fee_msat = if max_fee == u64::MAX { None } else { Some(max_fee) };
	let scorer = ProbabilisticScorer::new(ProbabilisticScoringDecayParameters::default(), &g, NoLog);
	let fh: Vec<&ChannelDetails> = first_hops.iter().collect();
	let found = catch_unwind(AssertUnwindSafe(|| find_route(&key(0), &rp, &g, if fh.is_empty() { None } else { Some(&fh[..]) }, NoLog, &scorer,
		&ProbabilisticScoringFeeParameters::default(), &[9; 32])));
	let route = match found {
		Ok(Ok(r)) => r,
		Ok(Err(_)) => return "0 0".to_string(),
		Err(payload) => {
			// dev profile: the router's own debug assertion that a selected path does not take more from a channel than
			// the channel's usable maximum (in a release build the over-subscribed route is returned instead)
			let msg = payload.downcast_ref::<String>().cloned().or_else(|| payload.downcast_ref::<&str>().map(|s| s.to_string())).unwrap_or_default();
			if msg.contains("used_liquidity_msat <= hop_max_msat") {
				return format!("0 {}", 4 | 1024);
			}
			// any other panic inside find_route on this (legitimate) input
			return format!("0 {}", 2048);
		},
	};
	let mut mask = 0u32;
	if route.paths.len() > max_paths as usize {
		mask |= 1;
	}
	// (per described channel, not per short channel id: ids of unannounced channels / aliases need not be unique)
	let mut joint: std::collections::HashMap<usize, u64> = std::collections::HashMap::new();
	let (mut delivered, mut fees_total) = (0u64, 0u64);
	for p in route.paths.iter() {
		let n = p.hops.len();
		let carried: Vec<u64> = (0..n).map(|i| p.hops[i..].iter().map(|h| h.fee_msat).sum()).collect();
		delivered += p.hops[n - 1].fee_msat;
		fees_total += carried[0] - p.hops[n - 1].fee_msat;
		let mut at = 0usize;
		let mut cltv_total = 0u32;
		for (i, h) in p.hops.iter().enumerate() {
			let (ci, c) = match chans.iter().enumerate().find(|(_, c)| c.scid == h.short_channel_id && c.src == at && key(c.dst) == h.pubkey) {
				Some(x) => x,
				None => { mask |= 128; break; },
			};
			at = c.dst;
			if carried[i] < c.min {
				mask |= 2;
			}
			*joint.entry(ci).or_insert(0) += carried[i];
			if carried[i] > c.max {
				mask |= 4;
			}
			if failed.contains(&c.scid) {
				mask |= 16;
			}
			if i > 0 {
				let due = c.base as u64 + (carried[i] as u128 * c.prop as u128 / 1_000_000) as u64;
				if p.hops[i - 1].fee_msat < due {
					mask |= 8;
				}
			}
			if i + 1 < n {
				cltv_total += h.cltv_expiry_delta;
			}
			if i + 1 == n && at != 1 {
				mask |= 128;
			}
		}
		if cltv_total + final_cltv > max_cltv {
			mask |= 64;
		}
	}
	for (ci, c) in chans.iter().enumerate() {
		if let Some(j) = joint.get(&ci) {
			if *j > c.cap || *j > c.max {
				mask |= 4;
			}
		}
	}
	if max_fee != u64::MAX && fees_total > max_fee {
		mask |= 32;
	}
	if delivered < amount {
		mask |= 256;
	}
	format!("{} {}", route.paths.len(), mask)
}

/// noise_probe <n_messages> <msg_len> <tamper_at> <tamper_where>
/// (hook lightning::ln::noise_verif_hooks::noise_probe) Two real PeerChannelEncryptors complete the BOLT-8 handshake (fixed keys); the initiator then encrypts <n_messages>
/// messages of <msg_len> bytes (>= 2: type + payload, byte value = message index) and the responder decrypts each one:
/// length header first, then the body. Message number <tamper_at> (1-based, 0 = none) has one bit flipped on the wire:
/// <tamper_where> 0 = in the encrypted length, 1 = in the length MAC, 2 = in the encrypted body, 3 = in the body MAC.
/// Output: `<messages delivered intact before the first failure> <kind of the first failure> <its index>`; kinds: 0 none,
/// 1 the length header was rejected, 2 a wrong length was accepted, 3 the body was rejected, 4 a wrong body was accepted.
/// The same is then done in the other direction with the roles swapped; both directions must agree (else `error`).
fn noise_probe(a: &mut Args) -> String {
	let (n, len, tamper_at, tamper_where) = (a.usize(), a.usize(), a.usize(), a.u8());
	let [fwd, back] = lightning::ln::noise_verif_hooks::noise_probe(n, len, tamper_at, tamper_where);
	if fwd != back {
		return format!("error directions differ {:?} {:?}", fwd, back);
	}
	format!("{} {} {}", fwd.0, fwd.1, fwd.2)
}

/// fulfill_attribution_battery <max_hops>: for every path length 1..=max_hops: every hop, last first, processes the
/// fulfil attribution data under its real shared secret, reporting its own hold time; the sender then decodes it with
/// decode_fulfill_attribution_data and must read the hold times of the first min(n, 20) hops, in order.
/// Output: `<path lengths that decoded wrongly> <lengths tried>`.
fn fulfill_attribution_battery(a: &mut Args) -> String {
	use bitcoin::secp256k1::{PublicKey, Secp256k1, SecretKey};
	use lightning::ln::onion_utils::verif_hooks as h;
	use lightning::routing::router::{Path, RouteHop};
	use lightning::types::features::{ChannelFeatures, NodeFeatures};
	struct NoLog;
	impl lightning::util::logger::Logger for NoLog {
		fn log(&self, _record: lightning::util::logger::Record) {}
	}
	let max = a.usize();
	let secp = Secp256k1::new();
	let (mut bad, mut total) = (0u32, 0u32);
	for n in 1..=max {
		total += 1;
		let r = catch_unwind(AssertUnwindSafe(|| {
			let hops: Vec<RouteHop> = (0..n)
				.map(|i| {
					let mut sk = [0u8; 32];
					sk[0] = (i + 1) as u8;
					RouteHop {
						pubkey: PublicKey::from_secret_key(&secp, &SecretKey::from_slice(&sk).unwrap()),
						node_features: NodeFeatures::empty(),
						short_channel_id: i as u64,
						channel_features: ChannelFeatures::empty(),
						fee_msat: 0,
						cltv_expiry_delta: 0,
						maybe_announced_channel: true,
					}
				})
				.collect();
			let path = Path { hops, blinded_tail: None };
			let session = SecretKey::from_slice(&[3u8; 32]).unwrap();
			let secrets = h::hop_shared_secrets(&path, &session);
			let hold = |i: usize| 1000 + 7 * i as u32;
			let mut data = None;
			for i in (0..n).rev() {
				data = Some(h::process_fulfill(data, &secrets[i], hold(i)));
			}
			let got = h::decode_fulfill(&NoLog, &path, &session, data.unwrap());
			let want: Vec<u32> = (0..core::cmp::min(n, h::MAX_HOPS)).map(hold).collect();
			got == want
		}));
		if !matches!(r, Ok(true)) {
			bad += 1;
		}
	}
	format!("{} {}", bad, total)
}

/// peer_framing_probe <nfrag> <frag>* <nmsgs> <len>*
/// For every fragment size given: two real PeerManagers (public API only) connected through in-memory sockets. Every byte either side writes -
/// handshake acts, Init, and then <nmsgs> custom messages (type 32769, payload of the given lengths, byte value =
/// message index) queued by the initiator - is handed to the other side's `read_event` in fragments of <frag> bytes
/// (0 = whole writes). Output: `<fragment sizes for which the responder's handler received exactly the messages sent, in
/// order, and nobody disconnected> <fragment sizes tried>`.
fn peer_framing_probe(a: &mut Args) -> String {
	let nf = a.usize();
	let frags: Vec<usize> = (0..nf).map(|_| a.usize()).collect();
	// optional `w<k>`: every socket accepts at most k bytes per send_data call (back-pressure); the driver then reports
	// free space (write_buffer_space_avail) until the queue has drained
	let mut it2 = a.it.clone();
	let wlimit = match it2.next() {
		Some(t) if t.starts_with('w') => { a.it.next(); t[1..].parse::<usize>().expect("write limit") },
		_ => 0,
	};
	WRITE_LIMIT.with(|w| w.set(wlimit));
	let n = a.usize();
	let lens: Vec<usize> = (0..n).map(|_| a.usize()).collect();
	// (a panic inside either PeerManager counts as a failed delivery for that fragment size)
	let good = frags.iter().filter(|f| {
		match catch_unwind(AssertUnwindSafe(|| framing_run(**f, &lens, None))) {
			Ok((got, same, closed)) => got == lens.len() && same && !closed,
			Err(_) => false,
		}
	}).count();
	format!("{} {}", good, frags.len())
}

/// init_first_probe <mode>: a real PeerManager (responder) and a bare initiator (hook RawInitiator) complete the
/// handshake; the initiator then sends, mode 0: a custom message without having sent Init; 1: Init, then the custom
/// message; 2: Init twice. Output: `<custom messages the responder's handler received> <1 if the responder dropped the
/// connection>`.
fn init_first_probe(a: &mut Args) -> String {
	let mode = a.u8();
	let (got, _, closed) = framing_run(0, &[], Some(mode));
	format!("{} {}", got, closed as u8)
}

thread_local! { static WRITE_LIMIT: std::cell::Cell<usize> = std::cell::Cell::new(0); }

fn framing_run(frag: usize, lens: &[usize], raw_mode: Option<u8>) -> (usize, bool, bool) {
	use bitcoin::secp256k1::PublicKey;
	use lightning::ln::msgs::{DecodeError, Init, LightningError};
	use lightning::ln::peer_handler::{CustomMessageHandler, ErroringMessageHandler, IgnoringMessageHandler, MessageHandler, PeerManager, SocketDescriptor};
	use lightning::ln::wire::{CustomMessageReader, Type};
	use lightning::sign::{KeysManager, NodeSigner, Recipient};
	use lightning::types::features::{InitFeatures, NodeFeatures};
	use lightning::util::ser::{LengthLimitedRead, Writeable, Writer};
	use std::sync::atomic::{AtomicBool, Ordering};
	use std::sync::{Arc, Mutex};

	#[derive(Debug, Clone, PartialEq)]
	struct Blob(Vec<u8>);
	impl Type for Blob {
		fn type_id(&self) -> u16 {
			32769
		}
	}
	impl Writeable for Blob {
		fn write<W: Writer>(&self, w: &mut W) -> Result<(), lightning::io::Error> {
			w.write_all(&self.0)
		}
	}
	struct Handler {
		to_send: Mutex<Vec<(PublicKey, Blob)>>,
		received: Mutex<Vec<Blob>>,
	}
	impl CustomMessageReader for Handler {
		type CustomMessage = Blob;
		fn read<R: LengthLimitedRead>(&self, ty: u16, r: &mut R) -> Result<Option<Blob>, DecodeError> {
			if ty != 32769 {
				return Ok(None);
			}
			let mut v = Vec::new();
			let mut buf = [0u8; 256];
			loop {
				match r.read(&mut buf) {
					Ok(0) => break,
					Ok(n) => v.extend_from_slice(&buf[..n]),
					Err(_) => return Err(DecodeError::ShortRead),
				}
			}
			Ok(Some(Blob(v)))
		}
	}
	impl CustomMessageHandler for Handler {
		fn handle_custom_message(&self, msg: Blob, _from: PublicKey) -> Result<(), LightningError> {
			self.received.lock().unwrap().push(msg);
			Ok(())
		}
		fn get_and_clear_pending_msg(&self) -> Vec<(PublicKey, Blob)> {
			core::mem::take(&mut *self.to_send.lock().unwrap())
		}
		fn peer_disconnected(&self, _: PublicKey) {}
		fn peer_connected(&self, _: PublicKey, _: &Init, _: bool) -> Result<(), ()> {
			Ok(())
		}
		fn provided_node_features(&self) -> NodeFeatures {
			NodeFeatures::empty()
		}
		fn provided_init_features(&self, _: PublicKey) -> InitFeatures {
			InitFeatures::empty()
		}
	}
	#[derive(Clone)]
	struct Sock {
		id: u8,
		out: Arc<Mutex<Vec<u8>>>,
		closed: Arc<AtomicBool>,
	}
	impl PartialEq for Sock {
		fn eq(&self, o: &Self) -> bool {
			self.id == o.id
		}
	}
	impl Eq for Sock {}
	impl std::hash::Hash for Sock {
		fn hash<H: std::hash::Hasher>(&self, h: &mut H) {
			self.id.hash(h)
		}
	}
	impl SocketDescriptor for Sock {
		fn send_data(&mut self, data: &[u8], _continue_read: bool) -> usize {
			let lim = WRITE_LIMIT.with(|w| w.get());
			let n = if lim == 0 { data.len() } else { data.len().min(lim) };
			self.out.lock().unwrap().extend_from_slice(&data[..n]);
			n
		}
		fn disconnect_socket(&mut self) {
			self.closed.store(true, Ordering::SeqCst);
		}
	}
	let keys = [Arc::new(KeysManager::new(&[11; 32], 42, 42, true)), Arc::new(KeysManager::new(&[12; 32], 42, 42, true))];
	let ids: Vec<PublicKey> = keys.iter().map(|k| k.get_node_id(Recipient::Node).unwrap()).collect();
	let handlers = [
		Arc::new(Handler { to_send: Mutex::new(Vec::new()), received: Mutex::new(Vec::new()) }),
		Arc::new(Handler { to_send: Mutex::new(Vec::new()), received: Mutex::new(Vec::new()) }),
	];
	let chan = [Arc::new(ErroringMessageHandler::new()), Arc::new(ErroringMessageHandler::new())];
	let ign = Arc::new(IgnoringMessageHandler {});
	let mk = |i: usize| {
		PeerManager::new(
			MessageHandler {
				chan_handler: chan[i].clone(),
				route_handler: ign.clone(),
				onion_message_handler: ign.clone(),
				custom_message_handler: handlers[i].clone(),
				send_only_message_handler: ign.clone(),
			},
			42,
			&[40 + i as u8; 32],
			Arc::new(NoLog),
			keys[i].clone(),
		)
	};
	let pm = [mk(0), mk(1)];
	let socks = [
		Sock { id: 0, out: Arc::new(Mutex::new(Vec::new())), closed: Arc::new(AtomicBool::new(false)) },
		Sock { id: 1, out: Arc::new(Mutex::new(Vec::new())), closed: Arc::new(AtomicBool::new(false)) },
	];
	let mut failed = false;
	if let Some(mode) = raw_mode {
		use lightning::ln::noise_verif_hooks::RawInitiator;
		use lightning::util::ser::Writeable as _;
		pm[1].new_inbound_connection(socks[1].clone(), None).expect("inbound");
		let (mut raw, act1) = RawInitiator::new(ids[1]);
		let mut d = socks[1].clone();
		failed |= pm[1].read_event(&mut d, &act1).is_err();
		pm[1].process_events();
		let act2 = core::mem::take(&mut *socks[1].out.lock().unwrap());
		let act3 = raw.act_three(&act2[..50], &keys[0]);
		failed |= pm[1].read_event(&mut d, &act3).is_err();
		pm[1].process_events();
		let mut init = 16u16.to_be_bytes().to_vec();
		init.extend_from_slice(&lightning::ln::msgs::Init { features: InitFeatures::empty(), networks: None, remote_network_address: None }.encode());
		let custom = vec![0x80u8, 0x01, 7, 7, 7];
		let seq: Vec<Vec<u8>> = match mode {
			0 => vec![custom],
			1 => vec![init, custom],
			_ => vec![init.clone(), init],
		};
		for m in seq {
			if failed || socks[1].closed.load(Ordering::SeqCst) {
				break;
			}
			let wire = raw.encrypt(&m);
			failed |= pm[1].read_event(&mut d, &wire).is_err();
			pm[1].process_events();
		}
		let got = handlers[1].received.lock().unwrap().len();
		return (got, true, failed || socks[1].closed.load(Ordering::SeqCst));
	}
	let act1 = pm[0].new_outbound_connection(ids[1], socks[0].clone(), None).expect("outbound");
	pm[1].new_inbound_connection(socks[1].clone(), None).expect("inbound");
	socks[0].out.lock().unwrap().extend_from_slice(&act1);
	let sent: Vec<Blob> = lens.iter().enumerate().map(|(i, l)| Blob(vec![i as u8 + 1; *l])).collect();
	for round in 0..40 {
		if round == 6 {
			*handlers[0].to_send.lock().unwrap() = sent.iter().map(|b| (ids[1], b.clone())).collect();
		}
		let mut moved = false;
		for from in 0..2usize {
			let to = 1 - from;
			let bytes = core::mem::take(&mut *socks[from].out.lock().unwrap());
			if bytes.is_empty() {
				continue;
			}
			moved = true;
			let step = if frag == 0 { bytes.len() } else { frag };
			for piece in bytes.chunks(step) {
				if socks[to].closed.load(Ordering::SeqCst) || failed {
					break;
				}
				let mut d = socks[to].clone();
				if pm[to].read_event(&mut d, piece).is_err() {
					failed = true;
				}
			}
			pm[to].process_events();
		}
		pm[0].process_events();
		pm[1].process_events();
		if WRITE_LIMIT.with(|w| w.get()) != 0 {
			// the sockets took only part of what was offered: report free space until both queues have drained
			for _ in 0..20000 {
				let before = socks[0].out.lock().unwrap().len() + socks[1].out.lock().unwrap().len();
				for i in 0..2 {
					let mut d = socks[i].clone();
					let _ = pm[i].write_buffer_space_avail(&mut d);
				}
				if socks[0].out.lock().unwrap().len() + socks[1].out.lock().unwrap().len() == before {
					break;
				}
				moved = true;
			}
		}
		if !moved && round > 6 {
			break;
		}
	}
	let got = handlers[1].received.lock().unwrap().clone();
	let closed = failed || socks[0].closed.load(Ordering::SeqCst) || socks[1].closed.load(Ordering::SeqCst);
	(got.len(), got == sent, closed)
}

/// spv_probe <a> <b> <lie_kind> <lie_at> <fail_at> <header_only> [<flip>]
/// The real SpvClient (lightning-block-sync, public API: SpvClient::new / poll_best_tip over a ChainPoller) against a
/// synthetic regtest-difficulty block tree: a trunk of 4 blocks (heights 0..3), an old branch of <a> blocks on top of
/// it that the listener is on, and a new branch of <b> blocks on top of the trunk that the block source reports as best.
/// The source can misbehave: <lie_kind> 1 serves the header of block <lie_at> of the new branch (0 = its tip) with its
/// height raised by one, 2 with its chain work raised, 3 with height u32::MAX, 4 serves another block's header in its
/// place, 5 serves its parent's block data when the block itself is requested; <fail_at> n makes the n-th request to the
/// source fail (0: none). <header_only> 1: blocks are served as headers. <flip> 1: after the first poll the source reports
/// the OLD branch, grown by <b>+1 blocks, as best. Three polls are made. The listener's notifications are replayed on the chain it started from. Output:
/// `<first poll ok> <listener's final height> <mask>`; mask bits: 1 the notifications do not describe one valid chain
/// (a disconnection to a block the listener is not on, a connected block that does not extend the listener's tip, a wrong
/// height), 2 with a source that does not misreport anything the listener ended on a tip with less accumulated work than it started from, 4 a block of the new branch
/// at or above a misreported header was connected, 8 with an honest, reliable source and a heavier new branch the
/// listener did not end at the new tip, 16 with a lighter or equal new branch the listener was moved.
fn spv_probe(a: &mut Args) -> String {
	let (na, nb, lie_kind, lie_at, fail_at, header_only) = (a.usize(), a.usize(), a.u8(), a.usize(), a.usize(), a.bool());
	let flip = a.it.next().map(|x| x != "0").unwrap_or(false);
	let (ok, height, mask) = spv_run(na, nb, lie_kind, lie_at, fail_at, header_only, flip);
	format!("{} {} {}", ok as u8, height, mask)
}

/// spv_battery <max_a> <max_b>: spv_probe for every old branch of 0..=max_a blocks, new branch of 0..=max_b blocks, full and
/// header-only blocks, and every behaviour of the source: honest; each kind of misreported header (1-4) at each block of
/// the new branch; a failure injected at each of the first 14 requests. Output: `<scenarios whose mask is non-zero or
/// that panicked> <scenarios run> <the first bad one as a b lie_kind lie_at fail_at header_only, or zeros>`.
fn spv_battery(a: &mut Args) -> String {
	let (max_a, max_b) = (a.usize(), a.usize());
	let (mut bad, mut total) = (0usize, 0usize);
	let mut first = String::from("0 0 0 0 0 0");
	for na in 0..=max_a {
		for nb in 0..=max_b {
			for header_only in [false, true] {
				let mut behaviours = vec![(0u8, 0usize, 0usize)];
				for k in 1..=5u8 {
					for at in 0..nb {
						behaviours.push((k, at, 0));
					}
				}
				for f in 1..=14usize {
					behaviours.push((0, 0, f));
				}
				for (k, at, f) in behaviours {
					for flip in [false, true] {
						total += 1;
						let r = catch_unwind(AssertUnwindSafe(|| spv_run(na, nb, k, at, f, header_only, flip)));
						let is_bad = match r {
							Ok((_, _, mask)) => mask != 0,
							Err(_) => true,
						};
						if is_bad {
							if bad == 0 {
								first = format!("{} {} {} {} {} {} {}", na, nb, k, at, f, header_only as u8, flip as u8);
							}
							bad += 1;
						}
					}
				}
			}
		}
	}
	format!("{} {} {}", bad, total, first)
}

fn spv_run(na: usize, nb: usize, lie_kind: u8, lie_at: usize, fail_at: usize, header_only: bool, flip: bool) -> (bool, u32, u32) {
	use bitcoin::block::{Block, Header, Version};
	use bitcoin::hash_types::{BlockHash, TxMerkleNode};
	use bitcoin::{Network, Transaction};
	use lightning::chain::{BlockLocator, Listen};
	use lightning_block_sync::poll::{ChainPoller, Validate};
	use lightning_block_sync::{BlockData, BlockHeaderData, BlockSource, BlockSourceError, BlockSourceResult, HeaderCache, SpvClient};
	use std::future::Future;
	use std::sync::Mutex;
	fn mine(prev: &Block, tweak: u32) -> Block {
		let coinbase = Transaction { version: bitcoin::transaction::Version(0), lock_time: bitcoin::absolute::LockTime::ZERO, input: vec![], output: vec![] };
		let merkle_root = TxMerkleNode::from_raw_hash(coinbase.compute_txid().to_raw_hash());
		Block {
			header: Header {
				version: Version::NO_SOFT_FORK_SIGNALLING,
				prev_blockhash: prev.block_hash(),
				merkle_root,
				time: prev.header.time + 1,
				bits: bitcoin::Target::from_be_bytes([0xff; 32]).to_compact_lossy(),
				nonce: tweak,
			},
			txdata: vec![coinbase],
		}
	}
	// (block, height, parent index)
	let mut tree: Vec<(Block, u32, usize)> = vec![(bitcoin::constants::genesis_block(Network::Regtest), 0, 0)];
	for h in 1..4u32 {
		let b = mine(&tree[h as usize - 1].0, 0);
		tree.push((b, h, h as usize - 1));
	}
	let mut tip_a = 3usize;
	for i in 0..na {
		let b = mine(&tree[tip_a].0, 1);
		tree.push((b, 4 + i as u32, tip_a));
		tip_a = tree.len() - 1;
	}
	let mut tip_b = 3usize;
	let mut branch_b = Vec::new();
	for i in 0..nb {
		let b = mine(&tree[tip_b].0, 2);
		tree.push((b, 4 + i as u32, tip_b));
		tip_b = tree.len() - 1;
		branch_b.push(tip_b);
	}
	// the old branch grown past the new one: what the source reports as best from the second poll on when <flip> is set
	let mut tip_ext = tip_a;
	for i in 0..(nb + 1) {
		let b = mine(&tree[tip_ext].0, 3);
		let h = tree[tip_ext].1 + 1;
		tree.push((b, h, tip_ext));
		tip_ext = tree.len() - 1;
		let _ = i;
	}
	let work_of = |idx: usize| {
		let mut path = vec![idx];
		while *path.last().unwrap() != 0 {
			let p = tree[*path.last().unwrap()].2;
			path.push(p);
		}
		let mut w = tree[0].0.header.work();
		for i in path.iter().rev().skip(1) {
			w = w + tree[*i].0.header.work();
		}
		w
	};
	let lying = if lie_kind != 0 && nb > 0 { Some(branch_b[nb - 1 - lie_at.min(nb - 1)]) } else { None };
	struct Source<'t> {
		tree: &'t Vec<(Block, u32, usize)>,
		works: Vec<bitcoin::Work>,
		best: Mutex<usize>,
		lying: Option<usize>,
		lie_kind: u8,
		fail_at: usize,
		header_only: bool,
		requests: Mutex<usize>,
	}
	impl<'t> Source<'t> {
		fn tick(&self) -> BlockSourceResult<()> {
			let mut n = self.requests.lock().unwrap();
			*n += 1;
			if *n == self.fail_at {
				Err(BlockSourceError::transient("injected failure"))
			} else {
				Ok(())
			}
		}
		fn find(&self, h: &BlockHash) -> Option<usize> {
			self.tree.iter().position(|(b, _, _)| b.block_hash() == *h)
		}
	}
	impl<'t> BlockSource for Source<'t> {
		fn get_header<'a>(&'a self, hash: &'a BlockHash, _hint: Option<u32>) -> impl Future<Output = BlockSourceResult<BlockHeaderData>> + Send + 'a {
			async move {
				self.tick()?;
				let i = self.find(hash).ok_or_else(|| BlockSourceError::persistent("unknown block"))?;
				let mut d = BlockHeaderData { header: self.tree[i].0.header, height: self.tree[i].1, chainwork: self.works[i] };
				if self.lying == Some(i) {
					match self.lie_kind {
						1 => d.height += 1,
						2 => d.chainwork = d.chainwork + self.tree[0].0.header.work(),
						3 => d.height = u32::MAX,
						4 => d.header = self.tree[(i + 1) % self.tree.len()].0.header,
						_ => {},
					}
				}
				Ok(d)
			}
		}
		fn get_block<'a>(&'a self, hash: &'a BlockHash) -> impl Future<Output = BlockSourceResult<BlockData>> + Send + 'a {
			async move {
				self.tick()?;
				let i = self.find(hash).ok_or_else(|| BlockSourceError::persistent("unknown block"))?;
				// kind 5: the data of another block is served in place of the misreported one
				let i = if self.lying == Some(i) && self.lie_kind == 5 { self.tree[i].2 } else { i };
				Ok(if self.header_only { BlockData::HeaderOnly(self.tree[i].0.header) } else { BlockData::FullBlock(self.tree[i].0.clone()) })
			}
		}
		fn get_best_block<'a>(&'a self) -> impl Future<Output = BlockSourceResult<(BlockHash, Option<u32>)>> + Send + 'a {
			async move {
				self.tick()?;
				let best = *self.best.lock().unwrap();
				Ok((self.tree[best].0.block_hash(), Some(self.tree[best].1)))
			}
		}
	}
	enum Note {
		Connected(Header, u32),
		Disconnected(BlockHash, u32),
	}
	struct Recorder(Mutex<Vec<Note>>);
	impl Listen for Recorder {
		fn filtered_block_connected(&self, header: &Header, _txdata: &lightning::chain::transaction::TransactionData, height: u32) {
			self.0.lock().unwrap().push(Note::Connected(*header, height));
		}
		fn blocks_disconnected(&self, fork_point: BlockLocator) {
			self.0.lock().unwrap().push(Note::Disconnected(fork_point.block_hash, fork_point.height));
		}
	}
	fn block_on<F: Future>(f: F) -> F::Output {
		use std::task::{Context, Poll, RawWaker, RawWakerVTable, Waker};
		fn clone(_: *const ()) -> RawWaker {
			RawWaker::new(core::ptr::null(), &VTABLE)
		}
		fn noop(_: *const ()) {}
		static VTABLE: RawWakerVTable = RawWakerVTable::new(clone, noop, noop, noop);
		let waker = unsafe { Waker::from_raw(RawWaker::new(core::ptr::null(), &VTABLE)) };
		let mut cx = Context::from_waker(&waker);
		let mut f = Box::pin(f);
		loop {
			if let Poll::Ready(v) = f.as_mut().poll(&mut cx) {
				return v;
			}
		}
	}
	let works: Vec<bitcoin::Work> = (0..tree.len()).map(|i| work_of(i)).collect();
	let source = Source { tree: &tree, works: works.clone(), best: Mutex::new(tip_b), lying, lie_kind, fail_at, header_only, requests: Mutex::new(0) };
	let start = BlockHeaderData { header: tree[tip_a].0.header, height: tree[tip_a].1, chainwork: works[tip_a] }.validate(tree[tip_a].0.block_hash()).expect("valid start");
	let recorder = Recorder(Mutex::new(Vec::new()));
	let poller = ChainPoller::new(&source, Network::Regtest);
	let mut client = SpvClient::new(start, poller, HeaderCache::new(), &recorder);
	let first = block_on(client.poll_best_tip());
	if flip {
		*source.best.lock().unwrap() = tip_ext;
	}
	let _second = block_on(client.poll_best_tip());
	let _third = block_on(client.poll_best_tip());
	// replay the notifications on the chain the listener started from
	let mut chain: Vec<usize> = Vec::new();
	let mut i = tip_a;
	loop {
		chain.push(i);
		if i == 0 {
			break;
		}
		i = tree[i].2;
	}
	chain.reverse();
	let mut mask = 0u32;
	for note in recorder.0.lock().unwrap().iter() {
		match note {
			Note::Disconnected(hash, height) => {
				match chain.iter().position(|i| tree[*i].0.block_hash() == *hash) {
					Some(p) if tree[chain[p]].1 == *height => chain.truncate(p + 1),
					_ => mask |= 1,
				}
			},
			Note::Connected(header, height) => {
				let tip = *chain.last().unwrap();
				let idx = tree.iter().position(|(b, _, _)| b.header == *header);
				match idx {
					Some(idx) if header.prev_blockhash == tree[tip].0.block_hash() && *height == tree[tip].1 + 1 && tree[idx].1 == *height => {
						if let Some(l) = lying {
							// idx is the misreported block or a descendant of it on the new branch
							if branch_b.contains(&idx) && tree[idx].1 >= tree[l].1 {
								mask |= 4;
							}
						}
						chain.push(idx);
					},
					_ => mask |= 1,
				}
			},
		}
	}
	let end = *chain.last().unwrap();
	// (a source that keeps misreporting a block of the new branch can leave the listeners at the fork point: the old
	//  branch is disconnected before the new one is fetched; with an honest source the later polls must make up for it)
	if works[end] < works[tip_a] && lie_kind == 0 {
		mask |= 2;
	}
	let last_best = if flip { tip_ext } else { tip_b };
	let heavier = works[last_best] > works[tip_a];
	if heavier && (lie_kind == 0 || flip) && fail_at == 0 && end != last_best {
		mask |= 8;
	}
	if !heavier && end != tip_a {
		mask |= 16;
	}
	(first.is_ok(), tree[end].1, mask)
}

/// node_announcement_addr_probe <addr_len> <avail> (<kind> <hostname_len>)*: decodes (real
/// `UnsignedNodeAnnouncement::read_from_fixed_length_buffer`) the byte string
///   flen=0 | timestamp | node_id | rgb | alias | addr_len | descriptors... zero padding
/// truncated to 76 + avail bytes. Descriptor kinds: 0 IPv4, 1 IPv6, 2 onion v2, 3 onion v3,
/// 4 hostname of `hostname_len` valid bytes, 5 unknown descriptor type (one byte 0x09),
/// 6 hostname of `hostname_len` bytes containing an invalid character.
/// Output: `1 <#addresses> <excess_address_data len> <addr_len field of the re-encoding>` if
/// accepted, `0 <error code> 0 0` if rejected (1 ShortRead, 2 BadLengthDescriptor, 3 InvalidValue, 9 other).
fn node_announcement_addr_probe(a: &mut Args) -> String {
	use lightning::ln::msgs::{DecodeError, UnsignedNodeAnnouncement};
	use lightning::util::ser::{LengthReadable, Writeable};
	let (addr_len, avail) = (a.u16(), a.usize());
	let mut bytes = vec![0u8; 74];
	bytes.extend_from_slice(&addr_len.to_be_bytes());
	while let Some(k) = a.it.next() {
		let k: u8 = k.parse().expect("kind");
		let hl = a.u8();
		match k {
			0 => { bytes.push(1); bytes.extend_from_slice(&[7u8; 6]); },
			1 => { bytes.push(2); bytes.extend_from_slice(&[7u8; 18]); },
			2 => { bytes.push(3); bytes.extend_from_slice(&[7u8; 12]); },
			3 => { bytes.push(4); bytes.extend_from_slice(&[7u8; 37]); },
			4 => { bytes.push(5); bytes.push(hl); bytes.extend(core::iter::repeat(b'a').take(hl as usize)); bytes.extend_from_slice(&[1, 2]); },
			5 => { bytes.push(9); },
			_ => { bytes.push(5); bytes.push(hl); bytes.extend(core::iter::repeat(b'!').take(hl as usize)); bytes.extend_from_slice(&[1, 2]); },
		}
	}
	bytes.resize(core::cmp::max(bytes.len(), 76 + avail), 0);
	bytes.truncate(76 + avail);
	let mut r = &bytes[..];
	match UnsignedNodeAnnouncement::read_from_fixed_length_buffer(&mut r) {
		Ok(m) => {
			let enc = m.encode();
			let re = u16::from_be_bytes([enc[74], enc[75]]);
			format!("1 {} {} {}", m.addresses.len(), m.excess_address_data.len(), re)
		},
		Err(e) => {
			let c = match e {
				DecodeError::ShortRead => 1,
				DecodeError::BadLengthDescriptor => 2,
				DecodeError::InvalidValue => 3,
				_ => 9,
			};
			format!("0 {} 0 0", c)
		},
	}
}

/// node_announcement_probe <node_known 0/1> <has_prev 0/1> <prev_ts> <ts>: real public API on a graph
/// with one channel between node ids [2;33] and [3;33]; the announcement is for [2;33] (known) or an
/// unrelated id (unknown). Returns (accepted, stored last_update or 0).
fn node_announcement_probe(a: &mut Args) -> String {
	use lightning::ln::msgs::UnsignedNodeAnnouncement;
	use lightning::routing::gossip::{NetworkGraph, NodeId};
	use lightning::types::features::{ChannelFeatures, NodeFeatures};
	use bitcoin::Network;
	let (known, has_prev, prev_ts, ts) = (a.bool(), a.bool(), a.u32(), a.u32());
	let g = NetworkGraph::new(Network::Testnet, NoLog);
	let n1 = NodeId::from_slice(&[2u8; 33]).unwrap();
	let n2 = NodeId::from_slice(&[3u8; 33]).unwrap();
	g.add_channel_from_partial_announcement(42, None, 0, ChannelFeatures::empty(), n1, n2).unwrap();
	let target = if known { n1 } else { NodeId::from_slice(&[4u8; 33]).unwrap() };
	let mk = |ts: u32| UnsignedNodeAnnouncement {
		features: NodeFeatures::empty(),
		timestamp: ts,
		node_id: target,
		rgb: [0; 3],
		alias: lightning::routing::gossip::NodeAlias([0; 32]),
		addresses: Vec::new(),
		excess_address_data: Vec::new(),
		excess_data: Vec::new(),
	};
	if has_prev && known {
		g.update_node_from_unsigned_announcement(&mk(prev_ts)).unwrap();
	}
	let r = g.update_node_from_unsigned_announcement(&mk(ts));
	let ro = g.read_only();
	let stored = ro.node(&n1).and_then(|n| n.announcement_info.as_ref().map(|i| i.last_update())).unwrap_or(0);
	format!("{} {}", r.is_ok() as u8, stored)
}

fn dispatch(name: &str, a: &mut Args) -> String {
	match name {
		"check_incoming_htlc_cltv" => {
			let (h, out, cltv, d) = (a.u32(), a.u32(), a.u32(), a.u16());
			res_reason(lightning::ln::onion_payment::verif_hooks::check_incoming_htlc_cltv(h, out, cltv, d))
		},
		"htlc_satisfies_config" => {
			let (amt, cltv, fwd, out, base, prop, delta) =
				(a.u64(), a.u32(), a.u64(), a.u32(), a.u32(), a.u32(), a.u16());
			res_reason(lightning::verif::channel::htlc_satisfies_config_arith(amt, cltv, fwd, out, base, prop, delta))
		},
		"compute_fees" => {
			let (amt, base, prop) = (a.u64(), a.u32(), a.u32());
			opt_u64(lightning::routing::router::verif_hooks::compute_fees(
				amt,
				RoutingFees { base_msat: base, proportional_millionths: prop },
			))
		},
		"compute_fees_saturating" => {
			let (amt, base, prop) = (a.u64(), a.u32(), a.u32());
			format!(
				"{}",
				lightning::routing::router::verif_hooks::compute_fees_saturating(
					amt,
					RoutingFees { base_msat: base, proportional_millionths: prop },
				)
			)
		},
		"max_htlc_from_capacity" => {
			let (kind, x, y, pow) = (a.u64(), a.u64(), a.u64(), a.u8());
			let cap = match kind {
				0 => EffectiveCapacity::ExactLiquidity { liquidity_msat: x },
				1 => EffectiveCapacity::AdvertisedMaxHTLC { amount_msat: x },
				2 => EffectiveCapacity::Total { capacity_msat: x, htlc_maximum_msat: y },
				3 => EffectiveCapacity::Infinite,
				4 => EffectiveCapacity::HintMaxHTLC { amount_msat: x },
				_ => EffectiveCapacity::Unknown,
			};
			format!("{}", lightning::routing::router::verif_hooks::max_htlc_from_capacity(cap, pow))
		},
		"mpp_check_onchain_timeout" => {
			let (exp, h) = (a.u32(), a.u32());
			format!("{}", lightning::ln::channelmanager::verif_hooks::mpp_check_onchain_timeout(exp, h) as u8)
		},
		"commit_tx_fee_sat" => {
			let (f, n, tag) = (a.u32(), a.usize(), a.u8());
			format!("{}", lightning::ln::chan_utils::verif_hooks::commit_tx_fee_sat(f, n, tag))
		},
		"second_stage_tx_fees_sat" => {
			let (tag, f) = (a.u8(), a.u32());
			let (s, t) = lightning::ln::chan_utils::verif_hooks::second_stage_tx_fees_sat(tag, f);
			format!("{} {}", s, t)
		},
		"htlc_tx_fees_sat" => {
			let (f, acc, off, tag) = (a.u32(), a.usize(), a.usize(), a.u8());
			format!("{}", lightning::ln::chan_utils::verif_hooks::htlc_tx_fees_sat(f, acc, off, tag))
		},
		"channel_type_supports" => {
			let (x, y) = lightning::ln::chan_utils::verif_hooks::supports(a.u8());
			format!("{} {}", x as u8, y as u8)
		},
		"is_dust" => {
			let (outb, amt, local, f, dust, tag) = (a.bool(), a.u64(), a.bool(), a.u32(), a.u64(), a.u8());
			format!("{}", lightning::sign::tx_builder::verif_hooks::is_dust(outb, amt, local, f, dust, tag) as u8)
		},
		"get_dust_buffer_feerate" => {
			format!("{}", lightning::sign::tx_builder::verif_hooks::get_dust_buffer_feerate(a.u32()))
		},
		"get_next_commitment_stats" => {
			let (local, funder, value, to_holder) = (a.bool(), a.bool(), a.u64(), a.u64());
			let htlcs = a.htlcs();
			let (addl, f, spike, lim, dust, tag) = (a.usize(), a.u32(), a.bool(), a.opt_u32(), a.u64(), a.u8());
			match lightning::sign::tx_builder::verif_hooks::get_next_commitment_stats(
				local, funder, value, to_holder, &htlcs, addl, f, spike, lim, dust, tag,
			) {
				Ok((h, c, d)) => format!("0 {} {} {}", h, c, d),
				Err(()) => "1 0 0 0".to_string(),
			}
		},
		"get_available_balances" => {
			let (funder, value, to_holder) = (a.bool(), a.u64(), a.u64());
			let htlcs = a.htlcs();
			let (f, lim, maxdust) = (a.u32(), a.opt_u32(), a.u64());
			let mut c = [0u64; 7];
			for i in 0..7 {
				c[i] = a.u64();
			}
			let tag = a.u8();
			let r = lightning::sign::tx_builder::verif_hooks::get_available_balances(
				funder, value, to_holder, &htlcs, f, lim, maxdust, c, tag,
			);
			r.iter().map(|v| v.to_string()).collect::<Vec<_>>().join(" ")
		},
		"build_commitment" => {
			let (local, funder, value, to_self) = (a.bool(), a.bool(), a.u64(), a.u64());
			let htlcs = a.htlcs();
			let (f, dust, tag) = (a.u32(), a.u64(), a.u8());
			let r = lightning::sign::tx_builder::verif_hooks::build_commitment_arith(
				local, funder, value, to_self, &htlcs, f, dust, tag,
			);
			r.iter().map(|v| v.to_string()).collect::<Vec<_>>().join(" ")
		},
		"inbound_state_table" => {
			let (tag, reason, gbl) = (a.u8(), a.u8(), a.bool());
			let r = lightning::verif::channel::inbound_state_table(tag, reason, gbl);
			format!("{} {}", r[0] as u8, r[1] as u8)
		},
		"outbound_state_table" => {
			let (tag, succ, gbl) = (a.u8(), a.bool(), a.bool());
			let r = lightning::verif::channel::outbound_state_table(tag, succ, gbl);
			format!("{} {}", r[0] as u8, r[1] as u8)
		},
		"next_commitment_probe" => {
			let (inbound, tag, ros, local, unk) = (a.bool(), a.u8(), a.u8(), a.bool(), a.bool());
			let r = lightning::verif::channel::next_commitment_probe(inbound, tag, ros, local, unk);
			format!("{} {} {}", r[0], r[1], r[2])
		},
		"compute_fee_from_spent_amounts" => {
			let (inp, w, est) = (a.u64(), a.u64(), a.u32());
			match lightning::verif::package::compute_fee_from_spent_amounts(inp, w, est) {
				Some((f, r)) => format!("1 {} {}", f, r),
				None => "0 0 0".to_string(),
			}
		},
		"feerate_bump" => {
			let (w, inp, dust, prev, strat, est) = (a.u64(), a.u64(), a.u64(), a.u64(), a.u8(), a.u32());
			match lightning::verif::package::feerate_bump(w, inp, dust, prev, strat, est) {
				Some((f, r)) => format!("1 {} {}", f, r),
				None => "0 0 0".to_string(),
			}
		},
		"compute_package_feerate" => {
			let (prev, strat, est) = (a.u64(), a.u8(), a.u32());
			format!("{}", lightning::verif::package::compute_package_feerate(prev, strat, est))
		},
		"monitor_event_threshold" => {
			let (kind, h, csv, best) = (a.u8(), a.u32(), a.opt_u16(), a.u32());
			let (t, r) = lightning::chain::channelmonitor::verif_hooks::onchain_event_threshold(kind, h, csv, best);
			format!("{} {}", t, r as u8)
		},
		"onchaintx_event_threshold" => {
			let (h, best) = (a.u32(), a.u32());
			let (t, r) = lightning::verif::onchaintx::onchain_event_threshold(h, best);
			format!("{} {}", t, r as u8)
		},
		"get_height_timer" => {
			let inputs = a.inputs();
			let (csh, h) = (a.u32(), a.u32());
			format!("{}", lightning::verif::package::get_height_timer(&inputs, csh, h))
		},
		"package_locktime" => {
			let inputs = a.inputs();
			let h = a.u32();
			format!("{}", lightning::verif::package::package_locktime(&inputs, h))
		},
		"compute_package_output" => {
			let inputs = a.inputs();
			let (w, dust, strat, est, prev) = (a.u64(), a.u64(), a.u8(), a.u32(), a.u64());
			match lightning::verif::package::compute_package_output(&inputs, w, dust, strat, est, prev) {
				Some((v, r)) => format!("1 {} {}", v, r),
				None => "0 0 0".to_string(),
			}
		},
		"update_channel_probe" => update_channel_probe(a),
		"socket_address_len" => {
			let (k, n) = (a.u8(), a.u8());
			format!("{}", lightning::ln::msgs::verif_hooks::socket_address_len(k, n))
		},
		"wire_dispatch_battery" => {
			// key-free peer messages as raw frames (2-byte type + an all-zero payload of the message's minimal valid shape)
			// through wire::read as the peer handler calls it: the decoded message must report the type number of the frame
			// and re-encode to the same frame. Output: "<bad> <total>"
			let z = |n: usize| vec![0u8; n];
			let cat = |a: Vec<u8>, b: &[u8]| { let mut v = a; v.extend_from_slice(b); v };
			let frames: Vec<(u16, Vec<u8>)> = vec![
				(16, z(4)), (17, z(34)), (1, z(34)), (18, z(4)), (19, z(2)), (7, z(2)), (9, z(2)), (2, z(33)), (2, cat(z(32), &[1])),
				(66 + 1, z(32 + 8 + 8 + 2)), (68, cat(z(32), &[0, 0, 0, 0, 0, 0, 0, 9])), (69, cat(z(32), &[0, 0, 0, 0, 0, 0, 0, 9])), (70, z(32)),
				(72, z(32 + 4 + 4)), (73, z(32)), (74, z(34)), (38, z(34)), (134, z(36)), (131, z(32 + 8 + 2)), (135, z(32 + 8 + 32 + 2)),
				(130, z(32 + 8 + 32)), (265, z(40)), (263, z(40)), (262, z(33)), (261, cat(z(32), &[0, 1, 0])), (264, cat(z(32 + 9), &[0, 1, 0])),
				(127, z(34)),
			];
			let (mut bad, mut total) = (0u32, 0u32);
			for (t, payload) in frames {
				total += 1;
				let mut frame = t.to_be_bytes().to_vec();
				frame.extend_from_slice(&payload);
				let r = std::panic::catch_unwind(|| lightning::ln::wire::verif_hooks::read_framed(&frame));
				match r {
					Ok(Ok((tid, re))) if tid == t && re == frame => {},
					other => {
						bad += 1;
						if std::env::var("ORACLE_DEBUG").is_ok() {
							eprintln!("wire_dispatch_battery: type {}: {:?}", t, other.map(|x| x.map(|(a, b)| (a, b.len()))));
						}
					},
				}
			}
			format!("{} {}", bad, total)
		},
		"final_onion_payload_order" => {
			// <blinded> <keysend> <invreq> <n> <type>*3 -> "1" iff the written payload is a TLV stream with strictly
			// increasing types that carries every requested record (the first <n> of the three types are used)
			let (blinded, keysend, invreq, n) = (a.bool(), a.bool(), a.bool(), a.usize());
			let ts = [a.u64(), a.u64(), a.u64()];
			let custom: Vec<(u64, Vec<u8>)> = ts[..n.min(3)].iter().map(|t| (*t, vec![0xab, 0xcd])).collect();
			let bytes = lightning::ln::msgs::verif_hooks::final_onion_payload_bytes(blinded, &custom, keysend, invreq);
			fn bigsize(b: &[u8], p: &mut usize) -> Option<u64> {
				let f = *b.get(*p)?;
				let (len, v) = match f {
					0xff => (9, u64::from_be_bytes(b.get(*p + 1..*p + 9)?.try_into().ok()?)),
					0xfe => (5, u32::from_be_bytes(b.get(*p + 1..*p + 5)?.try_into().ok()?) as u64),
					0xfd => (3, u16::from_be_bytes(b.get(*p + 1..*p + 3)?.try_into().ok()?) as u64),
					_ => (1, f as u64),
				};
				*p += len;
				Some(v)
			}
			let mut p = 0usize;
			let total = bigsize(&bytes, &mut p).expect("length prefix");
			assert_eq!(p + total as usize, bytes.len(), "length prefix does not cover the stream");
			let mut types = Vec::new();
			let mut ok = true;
			while p < bytes.len() {
				let t = bigsize(&bytes, &mut p).expect("type");
				let l = bigsize(&bytes, &mut p).expect("length") as usize;
				p += l;
				if let Some(prev) = types.last() {
					if *prev >= t {
						ok = false;
					}
				}
				types.push(t);
			}
			ok &= p == bytes.len();
			for (t, _) in custom.iter() {
				ok &= types.contains(t);
			}
			ok &= !keysend || types.contains(&5482373484);
			ok &= !(blinded && invreq) || types.contains(&77_777);
			format!("{}", ok as u8)
		},
		"revoked_htlc_claim_amount" => {
			let (amt, offered) = (a.u64(), a.bool());
			let (s, v) = lightning::verif::package::revoked_htlc_claim_amount(amt, offered);
			format!("{} {}", s, v)
		},
		"node_announcement_probe" => node_announcement_probe(a),
		"node_announcement_addr_probe" => node_announcement_addr_probe(a),
		"recompute_fees_probe" => {
			// <value_msat> <N> then per hop (payer -> payee): <fee_base_msat> <fee_prop> <htlc_minimum_msat> <hop_use_fee_msat>
			let value = a.u64();
			let n = a.usize();
			let hops: Vec<(u32, u32, u64, u64)> = (0..n).map(|_| (a.u32(), a.u32(), a.u64(), a.u64())).collect();
			let (v, fees) = lightning::routing::router::verif_hooks::recompute_fees_probe(&hops, value);
			format!("{} {}", v, fees.iter().map(|f| f.to_string()).collect::<Vec<_>>().join(" "))
		},
		"channel_announcement_sig_probe" => {
			// <sig1 good> <sig2 good> <sig3 good> <sig4 good>: a channel_announcement whose k-th signature is made by its
			// own key (1) or by an unrelated key (0), through the public verify_channel_announcement
			use bitcoin::hashes::{sha256d, Hash};
			use bitcoin::secp256k1::{Message, PublicKey, Secp256k1, SecretKey};
			use lightning::ln::msgs::{ChannelAnnouncement, UnsignedChannelAnnouncement};
			use lightning::routing::gossip::NodeId;
			use lightning::util::ser::Writeable;
			let good = [a.bool(), a.bool(), a.bool(), a.bool()];
			let secp = Secp256k1::new();
			let sk = |i: u8| SecretKey::from_slice(&[i; 32]).unwrap();
			let keys = [sk(1), sk(2), sk(3), sk(4)];
			let pk = |k: &SecretKey| PublicKey::from_secret_key(&secp, k);
			let contents = UnsignedChannelAnnouncement {
				features: lightning::types::features::ChannelFeatures::empty(),
				chain_hash: bitcoin::constants::ChainHash::using_genesis_block(bitcoin::Network::Testnet),
				short_channel_id: 42,
				node_id_1: NodeId::from_pubkey(&pk(&keys[0])),
				node_id_2: NodeId::from_pubkey(&pk(&keys[1])),
				bitcoin_key_1: NodeId::from_pubkey(&pk(&keys[2])),
				bitcoin_key_2: NodeId::from_pubkey(&pk(&keys[3])),
				excess_data: Vec::new(),
			};
			let h = Message::from_digest(sha256d::Hash::hash(&contents.encode()[..]).to_byte_array());
			let foreign = sk(9);
			let sign = |k: usize| secp.sign_ecdsa(&h, if good[k] { &keys[k] } else { &foreign });
			let msg = ChannelAnnouncement {
				node_signature_1: sign(0),
				node_signature_2: sign(1),
				bitcoin_signature_1: sign(2),
				bitcoin_signature_2: sign(3),
				contents,
			};
			format!("{}", lightning::routing::gossip::verify_channel_announcement(&msg, &secp).is_ok() as u8)
		},
		"route_overpay_probe" => route_overpay_probe(a),
		"route_mpp_overpay_probe" => route_mpp_overpay_probe(a),
		"route_validity_probe" => route_validity_probe(a),
		"noise_probe" => noise_probe(a),
		"fulfill_attribution_battery" => fulfill_attribution_battery(a),
		"peer_framing_probe" => peer_framing_probe(a),
		"init_first_probe" => init_first_probe(a),
		"spv_probe" => spv_probe(a),
		"spv_battery" => spv_battery(a),
		"channel_config_roundtrip" => {
			// <prop> <base> <cltv delta> <force close fee> <accept underpaying> <dust kind 0 fixed / 1 multiplier> <dust value>
			use lightning::util::config::{ChannelConfig, MaxDustHTLCExposure};
			use lightning::util::ser::{Readable, Writeable};
			let cfg = ChannelConfig {
				forwarding_fee_proportional_millionths: a.u32(),
				forwarding_fee_base_msat: a.u32(),
				cltv_expiry_delta: a.u16(),
				force_close_avoidance_max_fee_satoshis: a.u64(),
				accept_underpaying_htlcs: a.bool(),
				max_dust_htlc_exposure: if a.u8() == 0 { MaxDustHTLCExposure::FixedLimitMsat(a.u64()) } else { MaxDustHTLCExposure::FeeRateMultiplier(a.u64()) },
			};
			match <ChannelConfig as Readable>::read(&mut &cfg.encode()[..]) {
				Ok(b) => {
					let (k, v) = match b.max_dust_htlc_exposure { MaxDustHTLCExposure::FixedLimitMsat(v) => (0, v), MaxDustHTLCExposure::FeeRateMultiplier(v) => (1, v) };
					format!("1 {} {} {} {} {} {} {}", b.forwarding_fee_proportional_millionths, b.forwarding_fee_base_msat, b.cltv_expiry_delta,
						b.force_close_avoidance_max_fee_satoshis, b.accept_underpaying_htlcs as u8, k, v)
				},
				Err(_) => "0 0 0 0 0 0 0 0".to_string(),
			}
		},
		"channel_update_info_roundtrip" => {
			// <last_update> <cltv delta> <htlc min> <htlc max> <enabled>
			use lightning::routing::gossip::{ChannelUpdateInfo, RoutingFees};
			use lightning::util::ser::{Readable, Writeable};
			let info = ChannelUpdateInfo {
				last_update: a.u32(),
				cltv_expiry_delta: a.u16(),
				htlc_minimum_msat: a.u64(),
				htlc_maximum_msat: a.u64(),
				enabled: a.bool(),
				fees: RoutingFees { base_msat: 3, proportional_millionths: 4 },
				last_update_message: None,
			};
			match <ChannelUpdateInfo as Readable>::read(&mut &info.encode()[..]) {
				Ok(b) => format!("1 {} {} {} {} {}", b.last_update, b.cltv_expiry_delta, b.htlc_minimum_msat, b.htlc_maximum_msat, b.enabled as u8),
				Err(_) => "0 0 0 0 0 0".to_string(),
			}
		},
		"claimable_htlc_roundtrip" => {
			// <value> <sender_intended> <total> <trv?> <trv> <cltv> <skimmed?> <skimmed> <keysend> <payment_data>
			let (v, siv, total) = (a.u64(), a.u64(), a.u64());
			let trv = a.opt_u64();
			let cltv = a.u32();
			let sk = a.opt_u64();
			let (keysend, data) = (a.bool(), a.bool());
			match lightning::ln::channelmanager::verif_hooks::claimable_htlc_roundtrip(v, siv, total, trv, cltv, sk, keysend, data) {
				Some((v2, siv2, total2, trv2, cltv2, sk2, key2, data2)) => format!(
					"1 {} {} {} {} {} {} {} {}", v2, siv2, total2, opt_u64(trv2), cltv2, opt_u64(sk2), key2 as u8, data2 as u8),
				None => "0 0 0 0 0 0 0 0 0 0 0".to_string(),
			}
		},
		"invoice_signing_pubkey_probe" => {
			// <signing id> <has issuer> <issuer id> <has paths> <#paths> then per path: <#hops> <hop ids...>
			let signing = a.u8();
			let issuer = if a.bool() { Some(a.u8()) } else { let _ = a.u8(); None };
			let has_paths = a.bool();
			let np = a.usize();
			let mut paths = Vec::new();
			for _ in 0..np {
				let nh = a.usize();
				paths.push((0..nh).map(|_| a.u8()).collect::<Vec<u8>>());
			}
			let r = lightning::offers::invoice::verif_hooks::check_invoice_signing_pubkey_probe(
				signing, issuer, if has_paths { Some(paths) } else { None });
			format!("{}", r as u8)
		},
		"secret_store_honest" => {
			// provide the seed-derived secrets for the top m indices, then read every one back
			use lightning::ln::chan_utils::{build_commitment_secret, CounterpartyCommitmentSecrets};
			let m = a.u64();
			let seed = [7u8; 32];
			let mut store = CounterpartyCommitmentSecrets::new();
			let top = (1u64 << 48) - 1;
			let mut all_ok = true;
			for j in 0..m {
				all_ok &= store.provide_secret(top - j, build_commitment_secret(&seed, top - j)).is_ok();
			}
			let mut all_back = true;
			for j in 0..m {
				all_back &= store.get_secret(top - j) == Some(build_commitment_secret(&seed, top - j));
			}
			let below_none = store.get_secret(top - m).is_none();
			format!("{} {} {} {}", all_ok as u8, all_back as u8, (store.get_min_seen_secret() == top - m + 1) as u8, below_none as u8)
		},
		"secret_store_reject" => {
			// honest secrets for the top m-1 indices, then an unrelated secret at the next index
			use lightning::ln::chan_utils::{build_commitment_secret, CounterpartyCommitmentSecrets};
			let m = a.u64();
			let seed = [7u8; 32];
			let mut store = CounterpartyCommitmentSecrets::new();
			let top = (1u64 << 48) - 1;
			for j in 0..m - 1 {
				store.provide_secret(top - j, build_commitment_secret(&seed, top - j)).unwrap();
			}
			let before_min = store.get_min_seen_secret();
			let r = store.provide_secret(top - (m - 1), [0x55; 32]);
			format!("{} {}", r.is_err() as u8, (store.get_min_seen_secret() == before_min) as u8)
		},
		"check_mpp_timeout" => {
			let n = a.usize();
			let parts: Vec<(u64, u64, u8)> = (0..n).map(|_| (a.u64(), a.u64(), a.u8())).collect();
			let total = a.u64();
			let (r, ticks) = lightning::ln::channelmanager::verif_hooks::check_mpp_timeout_probe(&parts, total);
			format!("{} {}", r as u8, ticks.iter().map(|t| t.to_string()).collect::<Vec<_>>().join(" "))
		},
		"merge_probe" => {
			let ai = a.inputs();
			let av = (a.u32(), a.u64(), a.u32());
			let bi = a.inputs();
			let bv = (a.u32(), a.u64(), a.u32());
			let h = a.u32();
			let r = lightning::verif::package::merge_probe(&ai, av, &bi, bv, h);
			format!("{} {} {} {} {}", r.0 as u8, r.1, r.2, r.3, r.4)
		},
		"create_recv_probe" => {
			let (oamt, ocltv, total, amt, cltv, under, skim, h) =
				(a.u64(), a.u32(), a.u64(), a.u64(), a.u32(), a.bool(), a.opt_u64(), a.u32());
			match lightning::ln::onion_payment::verif_hooks::create_recv_probe(oamt, ocltv, total, amt, cltv, under, skim, h) {
				Ok((c, o)) => format!("Ok {} {}", c, o),
				Err(e) => format!("Err {:?}", e).split('(').next().unwrap().split('{').next().unwrap().trim().to_string(),
			}
		},
		"construct_info_bytes" => {
			let (min, method, delta, time, cltv) = (a.opt_u64(), a.u8(), a.u32(), a.u64(), a.opt_u16());
			match lightning::ln::inbound_payment::verif_hooks::construct_info_bytes(min, method, delta, time, cltv) {
				Ok(b) => format!("0 {}", b.iter().map(|x| x.to_string()).collect::<Vec<_>>().join(" ")),
				Err(()) => format!("1{}", " 0".repeat(16)),
			}
		},
		"inbound_roundtrip" => {
			// real create_from_hash (user payment hash methods) followed by the real verify
			use lightning::ln::inbound_payment::{create_from_hash, ExpandedKey};
			use lightning::types::payment::PaymentHash;
			let (min, delta, time, cltv, total, seen) = (a.opt_u64(), a.u32(), a.u64(), a.opt_u16(), a.u64(), a.u64());
			let keys = ExpandedKey::new([1; 32]);
			let hash = PaymentHash([2; 32]);
			struct Ent;
			impl lightning::sign::EntropySource for Ent {
				fn get_secure_random_bytes(&self) -> [u8; 32] {
					[9; 32]
				}
			}
			match create_from_hash(&keys, min, hash, delta, &Ent, time, cltv, None) {
				Err(()) => "1 0 0 0".to_string(),
				Ok((secret, _)) => match lightning::ln::inbound_payment::verif_hooks::verify(hash, secret, total, seen, &keys) {
					Ok((_, c)) => format!("0 1 {} {}", c.is_some() as u8, c.unwrap_or(0)),
					Err(()) => "0 0 0 0".to_string(),
				},
			}
		},
		_ => return format!("error unknown function {}", name),
	}
}

fn main() {
	if std::env::var("ORACLE_DEBUG").is_err() { std::panic::set_hook(Box::new(|_| {})); }
	let stdin = std::io::stdin();
	let stdout = std::io::stdout();
	let mut out = stdout.lock();
	for line in stdin.lock().lines() {
		let line = line.unwrap();
		let line = line.trim();
		if line.is_empty() {
			continue;
		}
		let mut it = line.split_whitespace();
		let name = it.next().unwrap().to_string();
		let mut args = Args { it };
		let r = catch_unwind(AssertUnwindSafe(|| dispatch(&name, &mut args)));
		match r {
			Ok(s) if s.starts_with("error") => writeln!(out, "{}", s).unwrap(),
			Ok(s) => writeln!(out, "ok {}", s).unwrap(),
			Err(_) => writeln!(out, "panic").unwrap(),
		}
	}
	out.flush().unwrap();
}
