//! Native oracle: calls the real (hook-wrapped) functions on concrete inputs.
//! Line protocol on stdin:  `<fname> <arg> <arg> ...`  (integers; bools as 0/1)
//! Output per line:         `ok <tok> <tok> ...`  |  `panic`  |  `error <why>`
use std::io::{BufRead, Write};
use std::panic::{catch_unwind, AssertUnwindSafe};

use lightning::routing::gossip::{EffectiveCapacity, RoutingFees};

struct Args<'a> {
	it: std::str::SplitWhitespace<'a>,
}
impl<'a> Args<'a> {
	fn u64(&mut self) -> u64 {
		self.it.next().expect("missing arg").parse::<u64>().expect("bad u64")
	}
	fn u32(&mut self) -> u32 {
		self.u64() as u32
	}
	fn u16(&mut self) -> u16 {
		self.u64() as u16
	}
	fn u8(&mut self) -> u8 {
		self.u64() as u8
	}
	fn usize(&mut self) -> usize {
		self.u64() as usize
	}
	fn bool(&mut self) -> bool {
		self.u64() != 0
	}
	fn opt_u32(&mut self) -> Option<u32> {
		let d = self.u64();
		let v = self.u32();
		if d != 0 {
			Some(v)
		} else {
			None
		}
	}
}

fn res_reason<T: core::fmt::Debug>(r: Result<(), T>) -> String {
	match r {
		Ok(()) => "Ok".to_string(),
		Err(e) => format!("Err {:?}", e).split('(').next().unwrap().split('{').next().unwrap().trim().to_string(),
	}
}

fn opt_u64(o: Option<u64>) -> String {
	match o {
		Some(v) => format!("1 {}", v),
		None => "0 0".to_string(),
	}
}

fn dispatch(name: &str, a: &mut Args) -> String {
	match name {
		"check_incoming_htlc_cltv" => {
			let (h, out, cltv, d) = (a.u32(), a.u32(), a.u32(), a.u16());
			res_reason(lightning::ln::onion_payment::verif_hooks::check_incoming_htlc_cltv(h, out, cltv, d))
		},
		"htlc_satisfies_config" => {
			let (amt, cltv, fwd, out, base, prop, delta) =
				(a.u64(), a.u32(), a.u64(), a.u32(), a.u32(), a.u32(), a.u16());
			res_reason(lightning::verif::channel::htlc_satisfies_config_arith(amt, cltv, fwd, out, base, prop, delta))
		},
		"compute_fees" => {
			let (amt, base, prop) = (a.u64(), a.u32(), a.u32());
			opt_u64(lightning::routing::router::verif_hooks::compute_fees(
				amt,
				RoutingFees { base_msat: base, proportional_millionths: prop },
			))
		},
		"compute_fees_saturating" => {
			let (amt, base, prop) = (a.u64(), a.u32(), a.u32());
			format!(
				"{}",
				lightning::routing::router::verif_hooks::compute_fees_saturating(
					amt,
					RoutingFees { base_msat: base, proportional_millionths: prop },
				)
			)
		},
		"max_htlc_from_capacity" => {
			let (kind, x, y, pow) = (a.u64(), a.u64(), a.u64(), a.u8());
			let cap = match kind {
				0 => EffectiveCapacity::ExactLiquidity { liquidity_msat: x },
				1 => EffectiveCapacity::AdvertisedMaxHTLC { amount_msat: x },
				2 => EffectiveCapacity::Total { capacity_msat: x, htlc_maximum_msat: y },
				3 => EffectiveCapacity::Infinite,
				4 => EffectiveCapacity::HintMaxHTLC { amount_msat: x },
				_ => EffectiveCapacity::Unknown,
			};
			format!("{}", lightning::routing::router::verif_hooks::max_htlc_from_capacity(cap, pow))
		},
		_ => return format!("error unknown function {}", name),
	}
}

fn main() {
	std::panic::set_hook(Box::new(|_| {}));
	let stdin = std::io::stdin();
	let stdout = std::io::stdout();
	let mut out = stdout.lock();
	for line in stdin.lock().lines() {
		let line = line.unwrap();
		let line = line.trim();
		if line.is_empty() {
			continue;
		}
		let mut it = line.split_whitespace();
		let name = it.next().unwrap().to_string();
		let mut args = Args { it };
		let r = catch_unwind(AssertUnwindSafe(|| dispatch(&name, &mut args)));
		match r {
			Ok(s) if s.starts_with("error") => writeln!(out, "{}", s).unwrap(),
			Ok(s) => writeln!(out, "ok {}", s).unwrap(),
			Err(_) => writeln!(out, "panic").unwrap(),
		}
	}
	out.flush().unwrap();
}
