#![allow(dependency_on_unit_never_type_fallback)]
#![allow(unused)]
//! Out-of-tree verification harness for rust-lightning: Kani proofs (cfg(kani)) and the native
//! oracle binary used for counterexample replay and translator validation.
