#![allow(dependency_on_unit_never_type_fallback)]
#![allow(unused)]
//! Out-of-tree verification harness for rust-lightning: Kani proofs (cfg(kani)) and the native
//! oracle binary used for counterexample replay and translator validation.

/// Fixed-capacity writer: avoids `Vec<u8>` growth (symbolic-length Vec writers blow up CBMC).
#[cfg(kani)]
pub(crate) struct ArrWriter<const N: usize> {
	pub buf: [u8; N],
	pub len: usize,
}

#[cfg(kani)]
impl<const N: usize> ArrWriter<N> {
	pub fn new() -> Self {
		ArrWriter { buf: [0u8; N], len: 0 }
	}
}

#[cfg(kani)]
impl<const N: usize> lightning::util::ser::Writer for ArrWriter<N> {
	fn write_all(&mut self, data: &[u8]) -> Result<(), lightning::io::Error> {
		let mut i = 0;
		while i < data.len() {
			// Out-of-capacity is a harness sizing error and shows up as a failed bounds check.
			self.buf[self.len] = data[i];
			self.len += 1;
			i += 1;
		}
		Ok(())
	}
}

/// Fixed-array reader: byte-indexed reads instead of slice re-slicing + memcpy out of a large
/// array (which makes CBMC's symbolic execution crawl: ~1 s per byte on a 1961-byte buffer).
#[cfg(kani)]
pub(crate) struct ArrReader<'a, const N: usize> {
	pub buf: &'a [u8; N],
	pub pos: usize,
}

#[cfg(kani)]
impl<'a, const N: usize> lightning::io::Read for ArrReader<'a, N> {
	fn read(&mut self, out: &mut [u8]) -> lightning::io::Result<usize> {
		let avail = N - self.pos;
		let n = if out.len() < avail { out.len() } else { avail };
		let mut i = 0;
		while i < n {
			out[i] = self.buf[self.pos + i];
			i += 1;
		}
		self.pos += n;
		Ok(n)
	}
}

#[cfg(kani)]
mod c11;
#[cfg(kani)]
mod c14;
#[cfg(kani)]
mod c05;
#[cfg(kani)]
mod c18;
#[cfg(kani)]
pub(crate) mod c12;
#[cfg(kani)]
mod c13;
