//! C12 -- persisted objects survive serialization: Kani harnesses for the serialization kernels
//! in `lightning/src/util/ser.rs` (part a) and the exported TLV-stream macros in
//! `lightning/src/util/ser_macros.rs` (part b).
//!
//! Conventions (see the measured gotchas): never `encode()` / `VecWriter`; all writes go to the
//! fixed-capacity [`ArrW`], all reads come from `&buf[..len]` with a symbolic `len`, comparisons
//! are element-wise with explicit bounded loops.

use lightning::io;
use lightning::ln::msgs::DecodeError;
use lightning::util::ser::verif_hooks as hk;
use lightning::util::ser::{
	BigSize, CollectionLength, FixedLengthReader, LengthLimitedRead, LengthReadable, Readable,
	Writeable, Writer,
};

/// Fixed-capacity writer: `[u8; N]` plus fill index. Writing past `N` is a harness failure (the
/// encoder produced more bytes than the stated bound allows).
pub(crate) struct ArrW<const N: usize> {
	pub buf: [u8; N],
	pub len: usize,
}
impl<const N: usize> ArrW<N> {
	pub fn new() -> Self {
		Self { buf: [0; N], len: 0 }
	}
}
impl<const N: usize> Writer for ArrW<N> {
	fn write_all(&mut self, b: &[u8]) -> Result<(), io::Error> {
		let n = b.len();
		assert!(n <= N - self.len, "harness writer overflow");
		let mut i = 0;
		while i < n {
			self.buf[self.len + i] = b[i];
			i += 1;
		}
		self.len += n;
		Ok(())
	}
}

/// Fixed-capacity reader: `[u8; N]`, valid length and read position. A conforming
/// `lightning::io::Read` (returns `min(dest.len(), available)` bytes, 0 at EOF) that avoids the
/// fat-pointer arithmetic / symbolic-size memcpy of `impl Read for &[u8]`, which is what makes CBMC
/// slow. `read_exact` is overridden (as std does for `&[u8]`) with the same observable behaviour as
/// the provided method on this reader: on a short source everything left is consumed and
/// `UnexpectedEof` is returned.
pub(crate) struct ArrR<const N: usize> {
	pub buf: [u8; N],
	pub len: usize,
	pub pos: usize,
}
impl<const N: usize> ArrR<N> {
	pub fn new(buf: [u8; N], len: usize) -> Self {
		Self { buf, len, pos: 0 }
	}
}
impl<const N: usize> io::Read for ArrR<N> {
	fn read(&mut self, dest: &mut [u8]) -> Result<usize, io::Error> {
		let avail = self.len - self.pos;
		let n = if dest.len() < avail { dest.len() } else { avail };
		let mut i = 0;
		while i < n {
			dest[i] = self.buf[self.pos + i];
			i += 1;
		}
		self.pos += n;
		Ok(n)
	}
	fn read_exact(&mut self, dest: &mut [u8]) -> Result<(), io::Error> {
		let avail = self.len - self.pos;
		if dest.len() > avail {
			let mut i = 0;
			while i < avail {
				dest[i] = self.buf[self.pos + i];
				i += 1;
			}
			self.pos = self.len;
			return Err(io::ErrorKind::UnexpectedEof.into());
		}
		let mut i = 0;
		while i < dest.len() {
			dest[i] = self.buf[self.pos + i];
			i += 1;
		}
		self.pos += dest.len();
		Ok(())
	}
}
impl<const N: usize> LengthLimitedRead for ArrR<N> {
	fn remaining_bytes(&self) -> u64 {
		(self.len - self.pos) as u64
	}
}

/// Byte-at-a-time reader: a conforming `lightning::io::Read` that hands out at most ONE byte per
/// `read` call (the `Read` contract allows short reads; this models a slow stream). It has no
/// internal loop, which keeps the nested `read_exact` x `FixedLengthReader::read` x copy-loop
/// unrolling linear instead of cubic in the unwind bound. All provided methods (`read_exact`, ...)
/// are the library's / bitcoin-io's own.
pub(crate) struct ByteR<const N: usize> {
	pub buf: [u8; N],
	pub len: usize,
	pub pos: usize,
}
impl<const N: usize> ByteR<N> {
	pub fn new(buf: [u8; N], len: usize) -> Self {
		Self { buf, len, pos: 0 }
	}
}
impl<const N: usize> io::Read for ByteR<N> {
	fn read(&mut self, dest: &mut [u8]) -> Result<usize, io::Error> {
		if self.pos >= self.len || dest.len() == 0 {
			return Ok(0);
		}
		dest[0] = self.buf[self.pos];
		self.pos += 1;
		Ok(1)
	}
}
impl<const N: usize> LengthLimitedRead for ByteR<N> {
	fn remaining_bytes(&self) -> u64 {
		(self.len - self.pos) as u64
	}
}

/// Writer results must be Ok; the error value is forgotten rather than dropped/formatted (its drop
/// glue and `unwrap`'s Debug formatting are expensive for CBMC).
pub(crate) fn okw(r: Result<(), io::Error>) {
	match r {
		Ok(()) => {},
		Err(e) => {
			core::mem::forget(e);
			assert!(false, "writer returned Err");
		},
	}
}

/// `a[..n] == b[..n]`, element-wise.
pub(crate) fn same_prefix<const A: usize, const B: usize>(a: &[u8; A], b: &[u8; B], n: usize) -> bool {
	let mut i = 0;
	let mut ok = true;
	while i < n {
		if a[i] != b[i] {
			ok = false;
		}
		i += 1;
	}
	ok
}

fn is_short(e: &DecodeError) -> bool {
	match e {
		DecodeError::ShortRead => true,
		_ => false,
	}
}
fn is_invalid(e: &DecodeError) -> bool {
	match e {
		DecodeError::InvalidValue => true,
		_ => false,
	}
}

fn be16<const N: usize>(b: &[u8; N], o: usize) -> u64 {
	((b[o] as u64) << 8) | (b[o + 1] as u64)
}
fn be32<const N: usize>(b: &[u8; N], o: usize) -> u64 {
	(be16(b, o) << 16) | be16(b, o + 2)
}
fn be64<const N: usize>(b: &[u8; N], o: usize) -> u64 {
	(be32(b, o) << 32) | be32(b, o + 4)
}

/// Symbolic input of at most 10 bytes.
fn any_input10() -> ([u8; 10], usize) {
	let buf: [u8; 10] = kani::any();
	let len: usize = kani::any();
	kani::assume(len <= 10);
	(buf, len)
}

// ---------------------------------------------------------------------------------------------
// (a) fixed-width big-endian integers
// ---------------------------------------------------------------------------------------------

macro_rules! uint_harness {
	($name: ident, $ty: ty, $n: expr, $be: ident) => {
		/// write->read identity for every value and read->write identity for every input of at
		/// most 10 bytes (accepted iff at least $n bytes are available; exactly $n consumed).
		#[kani::proof]
		#[kani::unwind(11)]
		fn $name() {
			// write -> read
			let v: $ty = kani::any();
			let mut w = ArrW::<10>::new();
			okw(v.write(&mut w));
			assert!(w.len == $n);
			assert!(v.serialized_length() == $n);
			let mut r: &[u8] = &w.buf[..w.len];
			let back = <$ty as Readable>::read(&mut r);
			assert!(r.len() == 0);
			match back {
				Ok(b) => assert!(b == v),
				Err(_) => assert!(false),
			}
			// read -> write
			let (buf, len) = any_input10();
			let mut r: &[u8] = &buf[..len];
			match <$ty as Readable>::read(&mut r) {
				Ok(x) => {
					assert!(len >= $n);
					assert!(len - r.len() == $n);
					assert!(x as u64 == $be(&buf, 0));
					let mut w2 = ArrW::<10>::new();
					okw(x.write(&mut w2));
					assert!(w2.len == $n);
					assert!(same_prefix(&w2.buf, &buf, $n));
					kani::cover!(len == 10, "accepted with trailing bytes");
				},
				Err(e) => {
					assert!(len < $n);
					assert!(is_short(&e));
					kani::cover!(len == $n - 1, "rejected: one byte short");
				},
			}
		}
	};
}
uint_harness!(c12_u16_roundtrip, u16, 2, be16);
uint_harness!(c12_u32_roundtrip, u32, 4, be32);
uint_harness!(c12_u64_roundtrip, u64, 8, be64);

/// U48 (crate-private, via hook): write->read identity for all v < 2^48, 6 bytes exactly;
/// read->write identity on every accepted input (accepted iff >= 6 bytes).
#[kani::proof]
#[kani::unwind(11)]
fn c12_u48_roundtrip() {
	let v: u64 = kani::any();
	kani::assume(v < (1u64 << 48));
	let mut w = ArrW::<10>::new();
	okw(hk::u48_write(v, &mut w));
	assert!(w.len == 6);
	let mut r: &[u8] = &w.buf[..w.len];
	match hk::u48_read(&mut r) {
		Ok(b) => assert!(b == v),
		Err(_) => assert!(false),
	}
	assert!(r.len() == 0);

	let (buf, len) = any_input10();
	let mut r: &[u8] = &buf[..len];
	match hk::u48_read(&mut r) {
		Ok(x) => {
			assert!(len >= 6 && len - r.len() == 6);
			assert!(x < (1u64 << 48));
			assert!(x == (be16(&buf, 0) << 32) | be32(&buf, 2));
			let mut w2 = ArrW::<10>::new();
			okw(hk::u48_write(x, &mut w2));
			assert!(w2.len == 6);
			assert!(same_prefix(&w2.buf, &buf, 6));
			kani::cover!(x == 0xffff_ffff_ffff, "max U48 accepted");
		},
		Err(e) => {
			assert!(len < 6 && is_short(&e));
			kani::cover!(len == 5, "rejected: one byte short");
		},
	}
}

// ---------------------------------------------------------------------------------------------
// (a) BigSize
// ---------------------------------------------------------------------------------------------

/// Independent reference decoder for BigSize: `Ok((value, consumed))`, `Err(true)` = short read,
/// `Err(false)` = non-minimal encoding.
pub(crate) fn spec_bigsize<const N: usize>(
	b: &[u8; N], off: usize, len: usize,
) -> Result<(u64, usize), bool> {
	if off >= len {
		return Err(true);
	}
	let avail = len - off;
	let t = b[off];
	if t < 0xfd {
		Ok((t as u64, 1))
	} else if t == 0xfd {
		if avail < 3 {
			return Err(true);
		}
		let v = be16(b, off + 1);
		if v < 0xfd {
			Err(false)
		} else {
			Ok((v, 3))
		}
	} else if t == 0xfe {
		if avail < 5 {
			return Err(true);
		}
		let v = be32(b, off + 1);
		if v < 0x1_0000 {
			Err(false)
		} else {
			Ok((v, 5))
		}
	} else {
		if avail < 9 {
			return Err(true);
		}
		let v = be64(b, off + 1);
		if v < 0x1_0000_0000 {
			Err(false)
		} else {
			Ok((v, 9))
		}
	}
}

/// BigSize write->read identity for every u64, with the minimal length for the value's range.
#[kani::proof]
#[kani::unwind(11)]
fn c12_bigsize_write_read() {
	let v: u64 = kani::any();
	let mut w = ArrW::<10>::new();
	okw(BigSize(v).write(&mut w));
	let want = if v < 0xfd {
		1
	} else if v <= 0xffff {
		3
	} else if v <= 0xffff_ffff {
		5
	} else {
		9
	};
	assert!(w.len == want);
	assert!(BigSize(v).serialized_length() == want);
	let mut r: &[u8] = &w.buf[..w.len];
	match <BigSize as Readable>::read(&mut r) {
		Ok(b) => assert!(b.0 == v),
		Err(_) => assert!(false),
	}
	assert!(r.len() == 0);
	kani::cover!(want == 3 && v == 0xfd, "smallest 3-byte value");
	kani::cover!(want == 9, "9-byte form");
}

/// BigSize read agrees with the reference decoder on every input of at most 10 bytes (so
/// non-minimal encodings are rejected with InvalidValue, truncations with ShortRead), and on every
/// accepted input re-encoding reproduces exactly the consumed bytes.
#[kani::proof]
#[kani::unwind(11)]
fn c12_bigsize_read_write() {
	let (buf, len) = any_input10();
	let mut r: &[u8] = &buf[..len];
	let got = <BigSize as Readable>::read(&mut r);
	let consumed = len - r.len();
	match (got, spec_bigsize(&buf, 0, len)) {
		(Ok(v), Ok((sv, n))) => {
			assert!(v.0 == sv);
			assert!(consumed == n);
			let mut w = ArrW::<10>::new();
			okw(v.write(&mut w));
			assert!(w.len == n);
			assert!(same_prefix(&w.buf, &buf, n));
			kani::cover!(n == 9, "accepted 9-byte form");
			kani::cover!(n == 3, "accepted 3-byte form");
		},
		(Err(e), Err(short)) => {
			assert!(is_short(&e) == short);
			assert!(is_invalid(&e) == !short);
			kani::cover!(!short && buf[0] == 0xff, "rejected non-minimal 9-byte form");
			kani::cover!(!short && buf[0] == 0xfd, "rejected non-minimal 3-byte form");
			kani::cover!(short && len == 8, "rejected truncated");
		},
		_ => assert!(false),
	}
}

// ---------------------------------------------------------------------------------------------
// (a) CollectionLength
// ---------------------------------------------------------------------------------------------

/// CollectionLength write->read identity for every u64 (2 bytes below 0xffff, 10 bytes otherwise).
#[kani::proof]
#[kani::unwind(11)]
fn c12_collection_length_write_read() {
	let v: u64 = kani::any();
	let mut w = ArrW::<10>::new();
	okw(CollectionLength(v).write(&mut w));
	assert!(w.len == if v < 0xffff { 2 } else { 10 });
	let mut r: &[u8] = &w.buf[..w.len];
	match <CollectionLength as Readable>::read(&mut r) {
		Ok(b) => assert!(b.0 == v),
		Err(_) => assert!(false),
	}
	assert!(r.len() == 0);
	kani::cover!(v == 0xffff, "first escaped value");
	kani::cover!(v == u64::MAX, "largest value");
}

/// CollectionLength read->write identity on every accepted input of at most 10 bytes; the only
/// rejected complete inputs are escapes whose payload overflows u64 (value would be ambiguous).
#[kani::proof]
#[kani::unwind(11)]
fn c12_collection_length_read_write() {
	let (buf, len) = any_input10();
	let mut r: &[u8] = &buf[..len];
	let got = <CollectionLength as Readable>::read(&mut r);
	let consumed = len - r.len();
	let escaped = len >= 2 && be16(&buf, 0) == 0xffff;
	match got {
		Ok(v) => {
			let n = if escaped { 10 } else { 2 };
			assert!(len >= n && consumed == n);
			if escaped {
				assert!(v.0 >= 0xffff && v.0 - 0xffff == be64(&buf, 2));
			} else {
				assert!(v.0 == be16(&buf, 0));
			}
			let mut w = ArrW::<10>::new();
			okw(v.write(&mut w));
			assert!(w.len == n);
			assert!(same_prefix(&w.buf, &buf, n));
			kani::cover!(escaped, "accepted escaped form");
			kani::cover!(!escaped && len == 10, "accepted short form with trailing bytes");
		},
		Err(e) => {
			if len < 2 || (escaped && len < 10) {
				assert!(is_short(&e));
			} else {
				assert!(escaped && be64(&buf, 2) > u64::MAX - 0xffff);
				assert!(is_invalid(&e));
			}
			kani::cover!(is_invalid(&e), "rejected overflowing escape");
			kani::cover!(is_short(&e) && len == 9, "rejected truncated escape");
		},
	}
}

// ---------------------------------------------------------------------------------------------
// (a) HighZeroBytesDroppedBigSize<u16|u32|u64>
// ---------------------------------------------------------------------------------------------

macro_rules! hzbd_harness {
	($name: ident, $ty: ty, $n: expr, $wr: ident, $rd: ident) => {
		/// write->read identity for every value (length = number of significant bytes); on every
		/// input of at most 10 bytes the reader takes min(len, $n) bytes, rejects exactly the
		/// encodings with a leading zero byte, and re-encoding an accepted value reproduces the
		/// consumed bytes.
		#[kani::proof]
		#[kani::unwind(11)]
		fn $name() {
			let v: $ty = kani::any();
			let mut w = ArrW::<10>::new();
			okw(hk::$wr(v, &mut w));
			let sig = $n - (v.leading_zeros() / 8) as usize;
			assert!(w.len == sig);
			assert!(w.len == 0 || w.buf[0] != 0);
			let mut r: &[u8] = &w.buf[..w.len];
			match hk::$rd(&mut r) {
				Ok(b) => assert!(b == v),
				Err(_) => assert!(false),
			}
			assert!(r.len() == 0);

			let (buf, len) = any_input10();
			let mut r: &[u8] = &buf[..len];
			let got = hk::$rd(&mut r);
			let consumed = len - r.len();
			let take = if len < $n { len } else { $n };
			assert!(consumed == take);
			let padded = take > 0 && buf[0] == 0;
			match got {
				Ok(x) => {
					assert!(!padded);
					let mut want: u64 = 0;
					let mut i = 0;
					while i < take {
						want = (want << 8) | buf[i] as u64;
						i += 1;
					}
					assert!(x as u64 == want);
					let mut w2 = ArrW::<10>::new();
					okw(hk::$wr(x, &mut w2));
					assert!(w2.len == take);
					assert!(same_prefix(&w2.buf, &buf, take));
					kani::cover!(take == $n, "accepted full-width");
					kani::cover!(take == 1, "accepted one byte");
					kani::cover!(take == 0, "accepted empty = 0");
				},
				Err(e) => {
					assert!(padded);
					assert!(is_invalid(&e));
					kani::cover!(take == $n, "rejected padded full-width");
					kani::cover!(take == 1, "rejected single zero byte");
				},
			}
		}
	};
}
hzbd_harness!(c12_hzbd_u16_roundtrip, u16, 2, hzbd_u16_write, hzbd_u16_read);
hzbd_harness!(c12_hzbd_u32_roundtrip, u32, 4, hzbd_u32_write, hzbd_u32_read);
hzbd_harness!(c12_hzbd_u64_roundtrip, u64, 8, hzbd_u64_write, hzbd_u64_read);

// ---------------------------------------------------------------------------------------------
// (a) bool and Option<T>
// ---------------------------------------------------------------------------------------------

/// bool: write->read identity; read accepts exactly the bytes 0 and 1 and re-encodes to the same
/// byte.
#[kani::proof]
#[kani::unwind(11)]
fn c12_bool_roundtrip() {
	let v: bool = kani::any();
	let mut w = ArrW::<10>::new();
	okw(v.write(&mut w));
	assert!(w.len == 1 && w.buf[0] == v as u8);
	let mut r: &[u8] = &w.buf[..w.len];
	match <bool as Readable>::read(&mut r) {
		Ok(b) => assert!(b == v),
		Err(_) => assert!(false),
	}

	let (buf, len) = any_input10();
	let mut r: &[u8] = &buf[..len];
	match <bool as Readable>::read(&mut r) {
		Ok(x) => {
			assert!(len >= 1 && len - r.len() == 1);
			assert!(buf[0] <= 1 && x == (buf[0] == 1));
			let mut w2 = ArrW::<10>::new();
			okw(x.write(&mut w2));
			assert!(w2.len == 1 && w2.buf[0] == buf[0]);
			kani::cover!(x, "accepted true");
		},
		Err(e) => {
			if len == 0 {
				assert!(is_short(&e));
			} else {
				assert!(buf[0] > 1 && is_invalid(&e));
			}
			kani::cover!(len > 0 && buf[0] == 2, "rejected byte 2");
		},
	}
}

macro_rules! option_harness {
	($name: ident, $ty: ty, $n: expr, $be: ident) => {
		/// Option<T> (legacy length-prefixed form): write->read identity for None and every
		/// Some(v); on every input of at most 10 bytes the reader's behaviour is characterised
		/// exactly. NOTE: the reader does NOT enforce that the declared length equals the length of
		/// T (it only bounds T's read by it), so read->write identity holds exactly for the
		/// accepted inputs whose prefix is canonical (0 or $n+1); this is asserted, and the
		/// non-canonical acceptance is exhibited by a cover.
		#[kani::proof]
		#[kani::unwind(11)]
		fn $name() {
			let v: Option<$ty> = if kani::any() { Some(kani::any()) } else { None };
			let mut w = ArrW::<10>::new();
			okw(v.write(&mut w));
			assert!(w.len == if v.is_some() { 1 + $n } else { 1 });
			assert!(v.serialized_length() == w.len);
			let mut r: &[u8] = &w.buf[..w.len];
			match <Option<$ty> as Readable>::read(&mut r) {
				Ok(b) => assert!(b == v),
				Err(_) => assert!(false),
			}
			assert!(r.len() == 0);

			let (buf, len) = any_input10();
			let mut r = ArrR::<10>::new(buf, len);
			let got = <Option<$ty> as Readable>::read(&mut r);
			let consumed = r.pos;
			match (got, spec_bigsize(&buf, 0, len)) {
				(Ok(None), Ok((l, n))) => {
					assert!(l == 0 && n == 1 && consumed == 1);
					let mut w2 = ArrW::<10>::new();
					okw(None::<$ty>.write(&mut w2));
					assert!(w2.len == 1 && w2.buf[0] == buf[0]);
					kani::cover!(true, "accepted None");
				},
				(Ok(Some(x)), Ok((l, n))) => {
					// declared length l-1 must at least cover T, and T's bytes must be there
					assert!(l >= 1 + $n && len >= n + $n && consumed == n + $n);
					assert!(x as u64 == $be(&buf, n));
					let mut w2 = ArrW::<10>::new();
					okw(Some(x).write(&mut w2));
					assert!(w2.len == 1 + $n && w2.buf[0] == 1 + $n);
					if l == 1 + $n {
						assert!(n == 1 && same_prefix(&w2.buf, &buf, 1 + $n));
					}
					kani::cover!(l == 1 + $n, "accepted canonical Some");
					kani::cover!(l > 1 + $n, "accepted Some with over-long declared length (non-canonical)");
				},
				(Err(e), Ok((l, n))) => {
					// value cut short, either by the declared length or by the input
					assert!(l >= 1 && (l < 1 + $n || len < n + $n));
					assert!(is_short(&e));
					kani::cover!(l == $n, "rejected: declared length one short");
				},
				(Err(e), Err(short)) => {
					assert!(is_short(&e) == short && is_invalid(&e) == !short);
					kani::cover!(!short, "rejected non-minimal length prefix");
				},
				_ => assert!(false),
			}
		}
	};
}
option_harness!(c12_option_u16_roundtrip, u16, 2, be16);
option_harness!(c12_option_u32_roundtrip, u32, 4, be32);

// ---------------------------------------------------------------------------------------------
// (a) FixedLengthReader
// ---------------------------------------------------------------------------------------------

/// FixedLengthReader over a source of `len` <= 10 bytes with an arbitrary declared length `total`:
/// two reads with arbitrary destination sizes followed by `eat_remaining`. Never delivers more than
/// `total` bytes overall, delivers the source bytes in order, `remaining_bytes`/`bytes_remain` track
/// the budget, and `eat_remaining` is `Err(ShortRead)` exactly when the source ran dry
/// (`len < total`); afterwards exactly `min(len, total)` source bytes are gone.
#[kani::proof]
#[kani::unwind(12)]
fn c12_fixed_length_reader() {
	use lightning::io::Read;
	let (buf, len) = any_input10();
	let total: u64 = kani::any();
	let mut src: &[u8] = &buf[..len];
	let mut flr = FixedLengthReader::new(&mut src, total);
	assert!(flr.remaining_bytes() == total);
	assert!(flr.bytes_remain() == (total != 0));

	let d1: usize = kani::any();
	let d2: usize = kani::any();
	kani::assume(d1 <= 10 && d2 <= 10);
	let mut dest1 = [0u8; 10];
	let mut dest2 = [0u8; 10];
	let n1 = match flr.read(&mut dest1[..d1]) {
		Ok(n) => n,
		Err(_) => {
			assert!(false);
			0
		},
	};
	let exp1 = core::cmp::min(core::cmp::min(d1 as u64, total), len as u64) as usize;
	assert!(n1 == exp1);
	assert!(flr.remaining_bytes() == total - n1 as u64);
	let n2 = match flr.read(&mut dest2[..d2]) {
		Ok(n) => n,
		Err(_) => {
			assert!(false);
			0
		},
	};
	let exp2 =
		core::cmp::min(core::cmp::min(d2 as u64, total - n1 as u64), (len - n1) as u64) as usize;
	assert!(n2 == exp2);
	assert!((n1 + n2) as u64 <= total);
	assert!(n1 + n2 <= len);
	assert!(flr.bytes_remain() == ((n1 + n2) as u64 != total));
	// bytes are delivered in source order
	let mut i = 0;
	while i < 10 {
		if i < n1 {
			assert!(dest1[i] == buf[i]);
		}
		if i < n2 {
			assert!(dest2[i] == buf[n1 + i]);
		}
		i += 1;
	}
	let res = flr.eat_remaining();
	let dry = (len as u64) < total;
	match res {
		Ok(()) => {
			assert!(!dry);
			assert!(!flr.bytes_remain() && flr.remaining_bytes() == 0);
			kani::cover!(total == 10 && n1 + n2 < 10, "eat_remaining skipped bytes");
			kani::cover!(total == 0, "zero-length reader");
		},
		Err(e) => {
			assert!(dry && is_short(&e));
			kani::cover!(total == len as u64 + 1, "source one byte short");
			kani::cover!(total == u64::MAX, "huge declared length");
		},
	}
	drop(flr);
	let gone = len - src.len();
	assert!(gone as u64 == core::cmp::min(len as u64, total));
}

// ---------------------------------------------------------------------------------------------
// (b) TLV-stream machinery, on the real exported macros
// ---------------------------------------------------------------------------------------------



/// Probe struct: raw TLV stream (no length prefix) generated by the exported
/// `impl_writeable_msg!` (-> `encode_tlv_stream!` / `decode_tlv_stream!` / `_decode_tlv_stream_range!`).
///   type 1: u8 with default 7, type 2: required u8, type 4: option u16.
/// Types 0 and 6 are unknown-even, 3/5/7 unknown-odd from the decoder's point of view.
#[derive(Clone, Copy, PartialEq, Eq)]
pub(crate) struct Probe {
	pub b: u8,
	pub c: u8,
	pub d: Option<u16>,
}
lightning::impl_writeable_msg!(Probe, {}, {
	(1, b, (default_value, 7u8)),
	(2, c, required),
	(4, d, option),
});

/// Same field set, length-prefixed form generated by the exported `impl_ser_tlv_based!`
/// (BigSize total length, then the stream; read via `read_tlv_fields!`).
#[derive(Clone, Copy, PartialEq, Eq)]
pub(crate) struct ProbeL {
	pub b: u8,
	pub c: u8,
	pub d: Option<u16>,
}
lightning::impl_ser_tlv_based!(ProbeL, {
	(1, b, (default_value, 7u8)),
	(2, c, required),
	(4, d, option),
});

#[derive(Clone, Copy, PartialEq, Eq)]
pub(crate) enum SpecErr {
	Short,
	Invalid,
	UnknownEven,
}
fn err_matches(e: &DecodeError, s: SpecErr) -> bool {
	match (e, s) {
		(DecodeError::ShortRead, SpecErr::Short) => true,
		(DecodeError::InvalidValue, SpecErr::Invalid) => true,
		(DecodeError::UnknownRequiredFeature, SpecErr::UnknownEven) => true,
		_ => false,
	}
}

/// What the reference parser saw.
#[derive(Clone, Copy)]
pub(crate) struct SpecOut {
	pub res: Result<Probe, SpecErr>,
	/// number of records completely parsed (type, length, value all inside the input)
	pub nrec: usize,
	/// number of unknown odd records skipped
	pub skipped_odd: usize,
	/// a type-1 record was present
	pub has_b: bool,
	/// end offsets of complete records (record i ends at ends[i]); only the first nrec are valid
	pub ends: [usize; 4],
}

/// Independent reference parser for the probe's TLV stream over `buf[start..len]`, written
/// directly from BOLT 1 "Type-Length-Value Format" plus LDK's documented field kinds: records are
/// (BigSize type, BigSize length, value); types strictly increasing; unknown even types are an
/// error, unknown odd ones are skipped; a known record's value must be exactly its declared length;
/// the required type 2 must be present; type 1 defaults to 7. The order in which error conditions
/// are tested mirrors the documented behaviour so that the error kind can be compared as well.
pub(crate) fn spec_probe<const N: usize>(buf: &[u8; N], start: usize, len: usize) -> SpecOut {
	let mut out = SpecOut {
		res: Err(SpecErr::Invalid),
		nrec: 0,
		skipped_odd: 0,
		has_b: false,
		ends: [0; 4],
	};
	let (mut b, mut c, mut d) = (None, None, None);
	let mut last: Option<u64> = None;
	let mut pos = start;
	let mut iter = 0;
	// every record takes >= 2 bytes, so N/2 + 1 iterations always reach the end of input
	while iter < N / 2 + 1 {
		iter += 1;
		if pos == len {
			break;
		}
		let (t, n) = match spec_bigsize(buf, pos, len) {
			Ok(x) => x,
			Err(short) => {
				out.res = Err(if short { SpecErr::Short } else { SpecErr::Invalid });
				return out;
			},
		};
		pos += n;
		if let Some(l) = last {
			if t <= l {
				out.res = Err(SpecErr::Invalid);
				return out;
			}
		}
		// the required type 2 may not be skipped over
		if t > 2 && c.is_none() {
			out.res = Err(SpecErr::Invalid);
			return out;
		}
		last = Some(t);
		let (l, n) = match spec_bigsize(buf, pos, len) {
			Ok(x) => x,
			Err(short) => {
				out.res = Err(if short { SpecErr::Short } else { SpecErr::Invalid });
				return out;
			},
		};
		pos += n;
		let avail = (len - pos) as u64;
		let known_size: Option<u64> = match t {
			1 | 2 => Some(1),
			4 => Some(2),
			_ => None,
		};
		match known_size {
			Some(s) => {
				if l < s || avail < s {
					out.res = Err(SpecErr::Short);
					return out;
				}
				if l > s {
					out.res = Err(if avail < l { SpecErr::Short } else { SpecErr::Invalid });
					return out;
				}
				match t {
					1 => {
						b = Some(buf[pos]);
						out.has_b = true;
					},
					2 => c = Some(buf[pos]),
					_ => d = Some(be16(buf, pos) as u16),
				}
			},
			None => {
				if t % 2 == 0 {
					out.res = Err(SpecErr::UnknownEven);
					return out;
				}
				if avail < l {
					out.res = Err(SpecErr::Short);
					return out;
				}
				out.skipped_odd += 1;
			},
		}
		pos += l as usize;
		out.ends[out.nrec] = pos;
		out.nrec += 1;
	}
	match c {
		None => out.res = Err(SpecErr::Invalid),
		Some(c) => {
			out.res = Ok(Probe { b: b.unwrap_or(7), c, d });
		},
	}
	out
}

/// Core of the decode-vs-reference check for inputs of at most N bytes. `nrec`: restrict to
/// inputs in which the reference parser completes exactly that many records (case split).
fn tlv_decode_matches_spec<const N: usize>(nrec: Option<usize>) {
	let buf: [u8; N] = kani::any();
	let len: usize = kani::any();
	kani::assume(len <= N);
	let spec = spec_probe(&buf, 0, len);
	if let Some(k) = nrec {
		kani::assume(spec.nrec == k);
	}
	let mut r = ByteR::<N>::new(buf, len);
	let got = <Probe as LengthReadable>::read_from_fixed_length_buffer(&mut r);
	match got {
		Ok(p) => {
			match spec.res {
				Ok(sp) => {
					// Ok => exactly the reference result: strictly increasing types, required
					// present, no unknown even type skipped, each value exactly its declared
					// length, unknown odd records skipped, default applied
					assert!(p == sp);
					assert!(r.pos == len);
					kani::cover!(spec.nrec == 1 && p.d.is_none(), "accepted: single required record");
					kani::cover!(spec.nrec == 1 && p.b == 7, "accepted: default applied");
				},
				Err(_) => assert!(false),
			}
		},
		Err(e) => {
			match spec.res {
				Ok(_) => assert!(false),
				Err(se) => {
					assert!(err_matches(&e, se));
					kani::cover!(se == SpecErr::UnknownEven, "rejected unknown even type");
					kani::cover!(se == SpecErr::Invalid && spec.nrec == 1, "rejected: one record, required missing");
					kani::cover!(se == SpecErr::Short && spec.nrec == 0, "rejected truncated record");
					kani::cover!(len == 0, "rejected empty stream (required missing)");
				},
			}
		},
	}
}

/// decode == reference parser on every fully symbolic input of <= 3 bytes (byte-at-a-time
/// reader). Measured at <= 4 bytes: SUCCESSFUL but 364 s / 7.6 GB, i.e. over the time budget.
#[kani::proof]
#[kani::unwind(4)]
fn c12_tlv_decode_matches_spec_3() {
	tlv_decode_matches_spec::<3>(None);
}

// `c12_tlv_decode_matches_spec_5` / `_6` (same check at 5 / 6 fully symbolic bytes) were measured
// and DROPPED: 5 bytes -> 9.4 GB after 257 s (still growing), 6 bytes -> > 10.8 GB / 900 s.
// The harnesses below recover depth by keeping the SHAPE (type and length bytes, total length)
// concrete -- enumerated exhaustively over a small alphabet -- and only the VALUES symbolic.

fn probe_eq_spec<const N: usize>(buf: [u8; N], len: usize) -> Result<Probe, SpecErr> {
	let spec = spec_probe(&buf, 0, len);
	let mut r = ArrR::<N>::new(buf, len);
	let got = <Probe as LengthReadable>::read_from_fixed_length_buffer(&mut r);
	match got {
		Ok(p) => match spec.res {
			Ok(sp) => {
				assert!(p == sp);
				assert!(r.pos == len);
			},
			Err(_) => assert!(false),
		},
		Err(e) => match spec.res {
			Ok(_) => assert!(false),
			Err(se) => assert!(err_matches(&e, se)),
		},
	}
	spec.res
}

/// Two-record streams `t1 l1 v1.. t2 l2 v2..` with t1 in {1,2,3}, l1 in {0,1}, t2 in {2,3,4,6},
/// l2 in {0,1,2} (all 72 shapes, concrete) and symbolic value bytes: the macro decoder agrees with
/// the reference parser on acceptance, decoded fields, consumption and error kind. Exercises
/// ordering (t2 <= t1), duplicate types, required-type-skipped, unknown odd skipped, unknown even
/// rejected, value shorter/longer than the field, default application.
#[kani::proof]
#[kani::unwind(10)]
fn c12_tlv_two_record_shapes() {
	let v: [u8; 3] = kani::any();
	let t1s = [1u8, 2, 3];
	let t2s = [2u8, 3, 4, 6];
	let mut accepted = 0u32;
	let mut unknown_even = 0u32;
	let mut i1 = 0;
	while i1 < 3 {
		let mut l1 = 0usize;
		while l1 < 2 {
			let mut i2 = 0;
			while i2 < 4 {
				let mut l2 = 0usize;
				while l2 < 3 {
					let mut buf = [0u8; 7];
					buf[0] = t1s[i1];
					buf[1] = l1 as u8;
					let mut pos = 2;
					if l1 == 1 {
						buf[pos] = v[0];
						pos += 1;
					}
					buf[pos] = t2s[i2];
					buf[pos + 1] = l2 as u8;
					pos += 2;
					if l2 >= 1 {
						buf[pos] = v[1];
						pos += 1;
					}
					if l2 == 2 {
						buf[pos] = v[2];
						pos += 1;
					}
					match probe_eq_spec::<7>(buf, pos) {
						Ok(_) => accepted += 1,
						Err(SpecErr::UnknownEven) => unknown_even += 1,
						Err(_) => {},
					}
					l2 += 1;
				}
				i2 += 1;
			}
			l1 += 1;
		}
		i1 += 1;
	}
	// accepted shapes: (1,1)(2,1); (2,1)(3,*) [* = 0,1,2]; (2,1)(4,2)
	assert!(accepted == 5);
	kani::cover!(accepted == 5, "five accepted shapes");
	kani::cover!(unknown_even > 0, "unknown even shapes rejected");
}

/// write -> read identity on the probe for arbitrary field values (option present / absent), with
/// the exact wire layout: records in increasing type order, each `type len value`, absent option
/// not written; and the same for the length-prefixed `impl_ser_tlv_based!` form, whose prefix is
/// the stream length and whose `serialized_length` matches.
#[kani::proof]
#[kani::unwind(12)]
fn c12_tlv_struct_roundtrip() {
	use lightning::util::ser::Readable;
	let (b, c, dv): (u8, u8, u16) = (kani::any(), kani::any(), kani::any());
	let mut k = 0;
	while k < 2 {
		let d = if k == 1 { Some(dv) } else { None };
		let p = Probe { b, c, d };
		let mut w = ArrW::<11>::new();
		okw(p.write(&mut w));
		let n = if k == 1 { 10 } else { 6 };
		assert!(w.len == n);
		assert!(w.buf[0] == 1 && w.buf[1] == 1 && w.buf[2] == b);
		assert!(w.buf[3] == 2 && w.buf[4] == 1 && w.buf[5] == c);
		if k == 1 {
			assert!(w.buf[6] == 4 && w.buf[7] == 2);
			assert!(w.buf[8] == (dv >> 8) as u8 && w.buf[9] == dv as u8);
		}
		let mut r = ArrR::<11>::new(w.buf, w.len);
		match <Probe as LengthReadable>::read_from_fixed_length_buffer(&mut r) {
			Ok(p2) => assert!(p2 == p),
			Err(_) => assert!(false),
		}
		assert!(r.pos == w.len);

		let pl = ProbeL { b, c, d };
		let mut wl = ArrW::<11>::new();
		okw(pl.write(&mut wl));
		assert!(wl.len == n + 1 && wl.buf[0] as usize == n);
		assert!(pl.serialized_length() == n + 1);
		let mut i = 0;
		while i < n {
			assert!(wl.buf[1 + i] == w.buf[i]);
			i += 1;
		}
		let mut rl = ArrR::<11>::new(wl.buf, wl.len);
		match <ProbeL as Readable>::read(&mut rl) {
			Ok(p2) => assert!(p2 == pl),
			Err(_) => assert!(false),
		}
		assert!(rl.pos == wl.len);
		k += 1;
	}
	kani::cover!(b == 7 && dv == 0xfffd, "witness");
}

/// Truncating a valid encoding: every proper prefix of the 10-byte encoding of a probe is rejected
/// (ShortRead inside a record, InvalidValue when the required type 2 is missing) EXCEPT the prefix
/// that ends exactly after the required record, which decodes to the probe without the option.
/// For the length-prefixed form every proper prefix is rejected (ShortRead, or InvalidValue when
/// the cut falls on a record boundary before the required type), and a prefix length that lies
/// about the stream (one less / one more than the real length) is rejected too.
#[kani::proof]
#[kani::unwind(13)]
fn c12_tlv_truncation() {
	use lightning::util::ser::Readable;
	let (b, c, dv): (u8, u8, u16) = (kani::any(), kani::any(), kani::any());
	let p = Probe { b, c, d: Some(dv) };
	let mut w = ArrW::<11>::new();
	okw(p.write(&mut w));
	assert!(w.len == 10);
	let mut k = 0;
	while k < 10 {
		let mut r = ArrR::<11>::new(w.buf, k);
		let got = <Probe as LengthReadable>::read_from_fixed_length_buffer(&mut r);
		match got {
			Ok(p2) => {
				assert!(k == 6);
				assert!(p2 == Probe { b, c, d: None });
			},
			Err(e) => {
				assert!(k != 6);
				if k == 0 || k == 3 {
					// clean end of stream, but the required type 2 has not been seen
					assert!(is_invalid(&e));
				} else {
					assert!(is_short(&e));
				}
			},
		}
		k += 1;
	}

	let pl = ProbeL { b, c, d: Some(dv) };
	let mut wl = ArrW::<12>::new();
	okw(pl.write(&mut wl));
	assert!(wl.len == 11);
	let mut k = 0;
	while k < 11 {
		let mut r = ArrR::<12>::new(wl.buf, k);
		match <ProbeL as Readable>::read(&mut r) {
			Ok(_) => assert!(false),
			Err(e) => {
				if k == 1 || k == 4 {
					// the source ends on a record boundary before the required type 2: the
					// missing-required check (InvalidValue) fires before the length check
					assert!(is_invalid(&e));
				} else {
					assert!(is_short(&e));
				}
			},
		}
		k += 1;
	}
	// lying length prefixes
	let mut lie = wl.buf;
	lie[0] = 9; // stream cut inside the last value
	let mut r = ArrR::<12>::new(lie, 11);
	match <ProbeL as Readable>::read(&mut r) {
		Ok(_) => assert!(false),
		Err(e) => assert!(is_short(&e)),
	}
	lie[0] = 11; // claims one byte more than present
	let mut r = ArrR::<12>::new(lie, 11);
	match <ProbeL as Readable>::read(&mut r) {
		Ok(_) => assert!(false),
		Err(e) => assert!(is_short(&e)),
	}
	kani::cover!(dv == 0x0100, "witness");
}

// Also measured and DROPPED: the same reference check with a CONCRETE length and fully symbolic
// content (array reader): length 4 -> 10.7 GB after 313 s; length 6 -> 7.0 GB after 353 s, still
// in symbolic execution. CBMC's cost here is dominated by state merging in the macro-generated
// decoder (many early returns), not by loop unwinding.
