//! C13 -- peer messages round-trip and decoding is total: Kani harnesses for key-free messages of
//! `lightning/src/ln/msgs.rs` (anything with a secp256k1 key/signature needs FFI and is out of
//! reach for Kani).
//!
//! Cost model learned the hard way: the unwind bound is global and the 32-byte channel-id /
//! chain-hash loops force it to 33, so every loop whose trip count is *symbolic* is unrolled 33
//! times. The harnesses therefore keep the input LENGTH concrete (enumerated in the harness) and
//! the input CONTENT symbolic: all reader positions then stay concrete until the optional TLV
//! suffix, and CBMC's constant propagation terminates the loops by itself.

use crate::c12::{okw, same_prefix, ArrR, ArrW};
use bitcoin::constants::ChainHash;
use bitcoin::script::ScriptBuf;
use lightning::ln::msgs::{
	DecodeError, GossipTimestampFilter, Ping, Pong, QueryChannelRange, ReplyShortChannelIdsEnd,
	Shutdown, Stfu, TxAbort, TxComplete, TxRemoveInput, TxRemoveOutput, UpdateFee,
};
use lightning::ln::types::ChannelId;
use lightning::util::ser::{LengthReadable, Writeable};

fn is_short(e: &DecodeError) -> bool {
	match e {
		DecodeError::ShortRead => true,
		_ => false,
	}
}
fn is_invalid(e: &DecodeError) -> bool {
	match e {
		DecodeError::InvalidValue => true,
		_ => false,
	}
}
fn is_unknown_req(e: &DecodeError) -> bool {
	match e {
		DecodeError::UnknownRequiredFeature => true,
		_ => false,
	}
}

/// (a) encode -> decode identity: `m` has arbitrary field values; its encoding is exactly `FIXED`
/// bytes, decodes to an equal message and the decoder consumes the whole buffer.
fn roundtrip_fixed<M: LengthReadable + Writeable + PartialEq, const N: usize>(m: &M, fixed: usize) {
	let mut w = ArrW::<N>::new();
	okw(m.write(&mut w));
	assert!(w.len == fixed);
	assert!(m.serialized_length() == fixed);
	let mut r = ArrR::<N>::new(w.buf, w.len);
	match M::read_from_fixed_length_buffer(&mut r) {
		Ok(m2) => assert!(m2 == *m),
		Err(_) => assert!(false),
	}
	assert!(r.pos == w.len);
}

/// What a decode of an arbitrary byte string did.
#[derive(Clone, Copy, PartialEq, Eq)]
enum Outcome {
	Accepted,
	Short,
	Invalid,
	UnknownEven,
	Other,
}

/// (b) decoding is total on every byte string of length exactly `len` (concrete) with symbolic
/// content: no panic, never reads past the buffer, and `Ok(m)` implies that `m` re-encodes to the
/// first `fixed` input bytes (canonical form of the fixed part) and that
/// `decode(encode(m)) == Ok(m)`. `pre` can constrain the content (e.g. a length field bound).
fn decode_total_at<M: LengthReadable + Writeable + PartialEq, const N: usize>(
	buf: [u8; N], len: usize, fixed: usize,
) -> Outcome {
	decode_total_at_opt::<M, N>(buf, len, fixed, true)
}

/// `reencode == false`: only totality / consumption / classification (used for the suffix shapes,
/// where the decoded message is the same function of the fixed part as in the exact-length case).
fn decode_total_at_opt<M: LengthReadable + Writeable + PartialEq, const N: usize>(
	buf: [u8; N], len: usize, fixed: usize, reencode: bool,
) -> Outcome {
	let mut r = ArrR::<N>::new(buf, len);
	match M::read_from_fixed_length_buffer(&mut r) {
		Ok(m) => {
			assert!(len >= fixed);
			// these decoders end in a TLV stream that runs to the end of the buffer
			assert!(r.pos == len);
			if !reencode {
				core::mem::forget(m);
				return Outcome::Accepted;
			}
			let mut w = ArrW::<N>::new();
			okw(m.write(&mut w));
			assert!(w.len == fixed);
			assert!(same_prefix(&w.buf, &buf, fixed));
			let mut r2 = ArrR::<N>::new(w.buf, w.len);
			match M::read_from_fixed_length_buffer(&mut r2) {
				Ok(m2) => assert!(m2 == m),
				Err(_) => assert!(false),
			}
			assert!(r2.pos == w.len);
			Outcome::Accepted
		},
		Err(e) => {
			assert!(r.pos <= len);
			if is_short(&e) {
				Outcome::Short
			} else if is_invalid(&e) {
				Outcome::Invalid
			} else if is_unknown_req(&e) {
				Outcome::UnknownEven
			} else {
				Outcome::Other
			}
		},
	}
}

/// Drives `decode_total_at` for a message whose fixed part (symbolic content) has no validity
/// constraint other than `fixed_valid(buf)` (e.g. a bool byte), checking the exact classification:
///  * length fixed-1 (truncation of the fixed part): ShortRead (or InvalidValue if an invalid
///    fixed-part byte is hit first);
///  * exactly the fixed part: accepted iff `fixed_valid`;
///  * fixed part followed by a TLV suffix whose type/length bytes are enumerated concretely
///    (`01`, `01 00`, `01 01`, `01 01 v` with symbolic v, `02 00`): dangling type byte =>
///    ShortRead; empty / one-byte unknown odd record => accepted (skipped); `01 01` without its
///    value => ShortRead; unknown even type => UnknownRequiredFeature.
/// The fully symbolic treatment of the suffix parser (the same `decode_tlv_stream!` with no known
/// fields) is `c13_empty_tlv_suffix_total`.
fn decode_total_fixed<M: LengthReadable + Writeable + PartialEq, const N: usize>(
	fixed: usize, fixed_valid: fn(&[u8; N]) -> bool,
) {
	let mut buf: [u8; N] = kani::any();
	let ok_fixed = fixed_valid(&buf);

	// truncation of the fixed part
	let o = decode_total_at::<M, N>(buf, fixed - 1, fixed);
	assert!(o == Outcome::Short || (o == Outcome::Invalid && !ok_fixed));

	// exactly the fixed part
	let o = decode_total_at::<M, N>(buf, fixed, fixed);
	assert!((o == Outcome::Accepted) == ok_fixed);
	assert!(o == Outcome::Accepted || o == Outcome::Invalid);
	kani::cover!(o == Outcome::Accepted, "accepted exact-length message");

	// fixed part + TLV suffix with concrete type/len bytes
	kani::assume(ok_fixed);
	buf[fixed] = 1;
	assert!(decode_total_at_opt::<M, N>(buf, fixed + 1, fixed, false) == Outcome::Short);
	buf[fixed + 1] = 0;
	assert!(decode_total_at_opt::<M, N>(buf, fixed + 2, fixed, false) == Outcome::Accepted);
	buf[fixed + 1] = 1;
	buf[fixed + 2] = kani::any();
	assert!(decode_total_at_opt::<M, N>(buf, fixed + 2, fixed, false) == Outcome::Short);
	assert!(decode_total_at_opt::<M, N>(buf, fixed + 3, fixed, false) == Outcome::Accepted);
	buf[fixed] = 2;
	buf[fixed + 1] = 0;
	assert!(decode_total_at_opt::<M, N>(buf, fixed + 2, fixed, false) == Outcome::UnknownEven);
	kani::cover!(true, "suffix shapes checked");
}

fn always_valid<const N: usize>(_: &[u8; N]) -> bool {
	true
}

fn any_channel_id() -> ChannelId {
	ChannelId(kani::any())
}
fn any_chain_hash() -> ChainHash {
	let b: [u8; 32] = kani::any();
	ChainHash::from(b)
}

// ---------------------------------------------------------------------------------------------
// fixed-size messages
// ---------------------------------------------------------------------------------------------

/// update_fee: channel_id(32) feerate_per_kw(4).
#[kani::proof]
#[kani::unwind(34)]
fn c13_update_fee_roundtrip() {
	let m = UpdateFee { channel_id: any_channel_id(), feerate_per_kw: kani::any() };
	roundtrip_fixed::<UpdateFee, 40>(&m, 36);
	kani::cover!(m.feerate_per_kw == 253, "witness");
}
#[kani::proof]
#[kani::unwind(38)]
fn c13_update_fee_decode_total() {
	decode_total_fixed::<UpdateFee, 39>(36, always_valid::<39>);
}

/// stfu: channel_id(32) initiator(1, bool: only 0/1 accepted).
#[kani::proof]
#[kani::unwind(34)]
fn c13_stfu_roundtrip() {
	let m = Stfu { channel_id: any_channel_id(), initiator: kani::any() };
	roundtrip_fixed::<Stfu, 36>(&m, 33);
	kani::cover!(m.initiator, "witness");
}
fn stfu_valid(b: &[u8; 36]) -> bool {
	b[32] <= 1
}
#[kani::proof]
#[kani::unwind(35)]
fn c13_stfu_decode_total() {
	decode_total_fixed::<Stfu, 36>(33, stfu_valid);
}

/// stfu at its exact length only: accepted iff the `initiator` byte is 0 or 1 (out-of-range values
/// are rejected, not coerced); a cheap strict-rejection check that runs in the quick tier.
#[kani::proof]
#[kani::unwind(35)]
fn c13_stfu_strict_bool() {
	let buf: [u8; 36] = kani::any();
	let o = decode_total_at::<Stfu, 36>(buf, 33, 33);
	assert!((o == Outcome::Accepted) == (buf[32] <= 1));
	assert!(o == Outcome::Accepted || o == Outcome::Invalid);
	kani::cover!(o == Outcome::Accepted, "accepted");
	kani::cover!(o == Outcome::Invalid, "rejected out-of-range bool");
}

/// gossip_timestamp_filter: chain_hash(32) first_timestamp(4) timestamp_range(4).
#[kani::proof]
#[kani::unwind(34)]
fn c13_gossip_timestamp_filter_roundtrip() {
	let m = GossipTimestampFilter {
		chain_hash: any_chain_hash(),
		first_timestamp: kani::any(),
		timestamp_range: kani::any(),
	};
	roundtrip_fixed::<GossipTimestampFilter, 44>(&m, 40);
	kani::cover!(m.first_timestamp > m.timestamp_range, "witness");
}
#[kani::proof]
#[kani::unwind(42)]
fn c13_gossip_timestamp_filter_decode_total() {
	decode_total_fixed::<GossipTimestampFilter, 43>(40, always_valid::<43>);
}

/// query_channel_range: chain_hash(32) first_blocknum(4) number_of_blocks(4).
#[kani::proof]
#[kani::unwind(34)]
fn c13_query_channel_range_roundtrip() {
	let m = QueryChannelRange {
		chain_hash: any_chain_hash(),
		first_blocknum: kani::any(),
		number_of_blocks: kani::any(),
	};
	roundtrip_fixed::<QueryChannelRange, 44>(&m, 40);
	// end_blocknum never overflows
	let end = m.end_blocknum();
	assert!(end as u64 == core::cmp::min(m.first_blocknum as u64 + m.number_of_blocks as u64, u32::MAX as u64));
	kani::cover!(end == u32::MAX && m.first_blocknum < u32::MAX, "saturated end_blocknum");
}
#[kani::proof]
#[kani::unwind(42)]
fn c13_query_channel_range_decode_total() {
	decode_total_fixed::<QueryChannelRange, 43>(40, always_valid::<43>);
}

/// reply_short_channel_ids_end: chain_hash(32) full_information(1, bool).
#[kani::proof]
#[kani::unwind(34)]
fn c13_reply_short_channel_ids_end_roundtrip() {
	let m = ReplyShortChannelIdsEnd { chain_hash: any_chain_hash(), full_information: kani::any() };
	roundtrip_fixed::<ReplyShortChannelIdsEnd, 36>(&m, 33);
	kani::cover!(!m.full_information, "witness");
}
#[kani::proof]
#[kani::unwind(35)]
fn c13_reply_short_channel_ids_end_decode_total() {
	decode_total_fixed::<ReplyShortChannelIdsEnd, 36>(33, stfu_valid);
}

/// tx_remove_input / tx_remove_output: channel_id(32) serial_id(8); tx_complete: channel_id(32).
#[kani::proof]
#[kani::unwind(34)]
fn c13_tx_remove_and_complete_roundtrip() {
	let a = TxRemoveInput { channel_id: any_channel_id(), serial_id: kani::any() };
	roundtrip_fixed::<TxRemoveInput, 44>(&a, 40);
	let b = TxRemoveOutput { channel_id: any_channel_id(), serial_id: kani::any() };
	roundtrip_fixed::<TxRemoveOutput, 44>(&b, 40);
	let c = TxComplete { channel_id: any_channel_id() };
	roundtrip_fixed::<TxComplete, 36>(&c, 32);
	kani::cover!(a.serial_id % 2 == 1 && b.serial_id % 2 == 0, "witness");
}
#[kani::proof]
#[kani::unwind(42)]
fn c13_tx_remove_input_decode_total() {
	decode_total_fixed::<TxRemoveInput, 43>(40, always_valid::<43>);
}

// update_fail_malformed_htlc (74-byte fixed part, `sha256_of_onion` is crate-private so only the
// decode-side harness is possible): `decode_total_fixed::<UpdateFailMalformedHTLC, 77>(74, ..)` with
// unwind 76 was measured at > 475 s (2.4 GB, still running) and DROPPED. Arrays above 64 elements
// lose CBMC's field sensitivity, which makes this one much slower than the 36..40-byte messages.

// ---------------------------------------------------------------------------------------------
// ping / pong (no channel id, no TLV suffix; payload is `byteslen` zero bytes on the wire)
// ---------------------------------------------------------------------------------------------

/// ping: ponglen(2) byteslen(2) then byteslen ignored bytes; payload bound 8.
#[kani::proof]
#[kani::unwind(10)]
fn c13_ping_roundtrip() {
	let m = Ping { ponglen: kani::any(), byteslen: kani::any() };
	kani::assume(m.byteslen <= 8);
	let mut w = ArrW::<12>::new();
	okw(m.write(&mut w));
	assert!(w.len == 4 + m.byteslen as usize);
	let mut r = ArrR::<12>::new(w.buf, w.len);
	match Ping::read_from_fixed_length_buffer(&mut r) {
		Ok(m2) => assert!(m2 == m),
		Err(_) => assert!(false),
	}
	assert!(r.pos == w.len);
	kani::cover!(m.byteslen == 8, "max payload");
	kani::cover!(m.byteslen == 0, "empty payload");
}

/// ping decode is total on every byte string of <= 12 bytes whose declared payload length is <= 8:
/// accepted iff the header and the declared payload are present (payload CONTENT is ignored, so
/// re-encoding normalises it to zeros; lengths and ponglen are preserved and a second decode gives
/// an equal message).
#[kani::proof]
#[kani::unwind(14)]
fn c13_ping_decode_total() {
	let buf: [u8; 12] = kani::any();
	let len: usize = kani::any();
	kani::assume(len <= 12);
	let declared = ((buf[2] as usize) << 8) | buf[3] as usize;
	kani::assume(declared <= 8);
	let mut r = ArrR::<12>::new(buf, len);
	match Ping::read_from_fixed_length_buffer(&mut r) {
		Ok(m) => {
			assert!(len >= 4 + declared);
			assert!(r.pos == 4 + declared);
			assert!(m.byteslen as usize == declared);
			assert!(m.ponglen == ((buf[0] as u16) << 8) | buf[1] as u16);
			let mut w = ArrW::<12>::new();
			okw(m.write(&mut w));
			assert!(w.len == 4 + declared);
			assert!(same_prefix(&w.buf, &buf, 4));
			let mut r2 = ArrR::<12>::new(w.buf, w.len);
			match Ping::read_from_fixed_length_buffer(&mut r2) {
				Ok(m2) => assert!(m2 == m),
				Err(_) => assert!(false),
			}
			kani::cover!(declared == 8 && len == 12, "accepted max payload");
			kani::cover!(declared == 0 && len == 12, "accepted with unread trailing bytes");
		},
		Err(e) => {
			assert!(len < 4 + declared);
			assert!(is_short(&e));
			assert!(r.pos <= len);
			kani::cover!(len == 3 + declared && declared > 0, "rejected: payload one byte short");
		},
	}
}

/// pong: byteslen(2) then byteslen ignored bytes; same properties as ping.
#[kani::proof]
#[kani::unwind(14)]
fn c13_pong_roundtrip_and_decode_total() {
	let m = Pong { byteslen: kani::any() };
	kani::assume(m.byteslen <= 8);
	let mut w = ArrW::<10>::new();
	okw(m.write(&mut w));
	assert!(w.len == 2 + m.byteslen as usize);
	let mut r = ArrR::<10>::new(w.buf, w.len);
	match Pong::read_from_fixed_length_buffer(&mut r) {
		Ok(m2) => assert!(m2 == m),
		Err(_) => assert!(false),
	}
	assert!(r.pos == w.len);

	let buf: [u8; 10] = kani::any();
	let len: usize = kani::any();
	kani::assume(len <= 10);
	let declared = ((buf[0] as usize) << 8) | buf[1] as usize;
	kani::assume(declared <= 8);
	let mut r = ArrR::<10>::new(buf, len);
	match Pong::read_from_fixed_length_buffer(&mut r) {
		Ok(m) => {
			assert!(len >= 2 + declared && r.pos == 2 + declared);
			assert!(m.byteslen as usize == declared);
			kani::cover!(declared == 8, "accepted max payload");
		},
		Err(e) => {
			assert!(len < 2 + declared && is_short(&e));
			kani::cover!(len == 1, "rejected: header cut");
		},
	}
}

// ---------------------------------------------------------------------------------------------
// variable-length messages: shutdown (script), tx_abort (data); payload bound 8 bytes
// ---------------------------------------------------------------------------------------------

/// shutdown: channel_id(32) len(2) script(len). Encode -> decode identity for every script of
/// exactly `n` bytes, n enumerated 0..=8 (content symbolic).
fn shutdown_roundtrip_n(n: usize) {
	let bytes: [u8; 8] = kani::any();
	let mut v = Vec::with_capacity(8);
	let mut i = 0;
	while i < n {
		v.push(bytes[i]);
		i += 1;
	}
	let m = Shutdown { channel_id: any_channel_id(), scriptpubkey: ScriptBuf::from(v) };
	let mut w = ArrW::<42>::new();
	okw(m.write(&mut w));
	assert!(w.len == 34 + n);
	assert!(w.buf[32] == 0 && w.buf[33] as usize == n);
	let mut r = ArrR::<42>::new(w.buf, w.len);
	match Shutdown::read_from_fixed_length_buffer(&mut r) {
		Ok(m2) => {
			assert!(m2.channel_id == m.channel_id);
			let s = m2.scriptpubkey.as_bytes();
			assert!(s.len() == n);
			let mut i = 0;
			while i < n {
				assert!(s[i] == bytes[i]);
				i += 1;
			}
		},
		Err(_) => assert!(false),
	}
	assert!(r.pos == w.len);
}
#[kani::proof]
#[kani::unwind(34)]
fn c13_shutdown_roundtrip() {
	shutdown_roundtrip_n(0);
	shutdown_roundtrip_n(1);
	shutdown_roundtrip_n(8);
	kani::cover!(true, "reached end");
}

/// shutdown decode with symbolic channel id and script bytes, total length 38 (header 34 + 4) and
/// the declared script length enumerated concretely:
///   declared 0 + suffix `01 02 v v` (unknown odd record)  => accepted, empty script;
///   declared 2 + suffix `01 00`                            => accepted;
///   declared 2 + suffix `02 00` (unknown even)             => UnknownRequiredFeature;
///   declared 4, no suffix                                  => accepted, re-encodes to the input;
///   declared 6 (> available)                               => ShortRead;
/// and a header cut at 33 bytes => ShortRead.
/// (A symbolic declared length <= 8 was measured: 6.9 GB after 312 s, dropped.)
#[kani::proof]
#[kani::unwind(40)]
fn c13_shutdown_decode_total() {
	let mut buf: [u8; 40] = kani::any();
	buf[32] = 0;
	let mut case = 0;
	while case < 5 {
		let declared: usize = match case {
			0 => 0,
			1 | 2 => 2,
			3 => 4,
			_ => 6,
		};
		buf[33] = declared as u8;
		if case == 0 {
			buf[34] = 1;
			buf[35] = 2;
		} else if case == 1 {
			buf[36] = 1;
			buf[37] = 0;
		} else if case == 2 {
			buf[36] = 2;
			buf[37] = 0;
		} else {
			buf[34] = kani::any();
			buf[35] = kani::any();
			buf[36] = kani::any();
			buf[37] = kani::any();
		}
		let mut r = ArrR::<40>::new(buf, 38);
		match Shutdown::read_from_fixed_length_buffer(&mut r) {
			Ok(m) => {
				assert!(case == 0 || case == 1 || case == 3);
				assert!(r.pos == 38);
				assert!(m.scriptpubkey.len() == declared);
				let mut w = ArrW::<40>::new();
				okw(m.write(&mut w));
				assert!(w.len == 34 + declared);
				assert!(same_prefix(&w.buf, &buf, 34 + declared));
			},
			Err(e) => {
				assert!(case == 2 || case == 4);
				if case == 2 {
					assert!(is_unknown_req(&e));
				} else {
					assert!(is_short(&e));
				}
				assert!(r.pos <= 38);
			},
		}
		case += 1;
	}
	let mut r = ArrR::<40>::new(buf, 33);
	match Shutdown::read_from_fixed_length_buffer(&mut r) {
		Ok(_) => assert!(false),
		Err(e) => assert!(is_short(&e)),
	}
	kani::cover!(buf[0] == 0xaa && buf[34] == 0x51, "witness");
}

/// tx_abort: channel_id(32) len(2) data(len) -- encode -> decode identity for data of n bytes.
fn tx_abort_roundtrip_n(n: usize) {
	let bytes: [u8; 8] = kani::any();
	let mut v = Vec::with_capacity(8);
	let mut i = 0;
	while i < n {
		v.push(bytes[i]);
		i += 1;
	}
	let m = TxAbort { channel_id: any_channel_id(), data: v };
	let mut w = ArrW::<42>::new();
	okw(m.write(&mut w));
	assert!(w.len == 34 + n);
	let mut r = ArrR::<42>::new(w.buf, w.len);
	match TxAbort::read_from_fixed_length_buffer(&mut r) {
		Ok(m2) => {
			assert!(m2.channel_id == m.channel_id);
			assert!(m2.data.len() == n);
			let mut i = 0;
			while i < n {
				assert!(m2.data[i] == bytes[i]);
				i += 1;
			}
		},
		Err(_) => assert!(false),
	}
	assert!(r.pos == w.len);
}
#[kani::proof]
#[kani::unwind(34)]
fn c13_tx_abort_roundtrip() {
	tx_abort_roundtrip_n(0);
	tx_abort_roundtrip_n(3);
	tx_abort_roundtrip_n(8);
	kani::cover!(true, "reached end");
}

// ---------------------------------------------------------------------------------------------
// the TLV suffix parser shared by all `impl_writeable_msg!` messages, fully symbolic
// ---------------------------------------------------------------------------------------------

/// A message with no fixed fields and no known TLV types: its decoder is exactly the suffix loop
/// every message above runs after its fixed part.
#[derive(Clone, Copy, PartialEq, Eq)]
struct EmptyMsg {}
lightning::impl_writeable_msg!(EmptyMsg, {}, {});

/// Reference: a suffix is accepted iff it is a sequence of complete records with strictly
/// increasing, minimally encoded, ODD types. Returns Err(kind) for the first violation.
fn spec_suffix<const N: usize>(buf: &[u8; N], len: usize) -> Result<(), Outcome> {
	let mut last: Option<u64> = None;
	let mut pos = 0;
	let mut iter = 0;
	while iter < N / 2 + 1 {
		iter += 1;
		if pos == len {
			break;
		}
		let (t, n) = match crate::c12::spec_bigsize(buf, pos, len) {
			Ok(x) => x,
			Err(short) => return Err(if short { Outcome::Short } else { Outcome::Invalid }),
		};
		pos += n;
		if let Some(l) = last {
			if t <= l {
				return Err(Outcome::Invalid);
			}
		}
		last = Some(t);
		let (l, n) = match crate::c12::spec_bigsize(buf, pos, len) {
			Ok(x) => x,
			Err(short) => return Err(if short { Outcome::Short } else { Outcome::Invalid }),
		};
		pos += n;
		if t % 2 == 0 {
			return Err(Outcome::UnknownEven);
		}
		if ((len - pos) as u64) < l {
			return Err(Outcome::Short);
		}
		pos += l as usize;
	}
	Ok(())
}

fn empty_suffix_len<const LEN: usize>() {
	let buf: [u8; LEN] = kani::any();
	let o = decode_total_at_opt::<EmptyMsg, LEN>(buf, LEN, 0, false);
	match spec_suffix(&buf, LEN) {
		Ok(()) => assert!(o == Outcome::Accepted),
		Err(k) => assert!(o == k),
	}
	kani::cover!(o == Outcome::Accepted, "accepted");
	kani::cover!(o == Outcome::UnknownEven, "unknown even rejected");
	kani::cover!(o == Outcome::Short, "truncated rejected");
}

/// Suffix parser on every byte string of length 1 and 2 (each length concrete, content fully
/// symbolic): agreement with the reference on acceptance and error kind. (Measured and dropped:
/// lengths 1..3 -> 12.6 GB after 364 s; length 4 alone -> 7.9 GB after 190 s.)
#[kani::proof]
#[kani::unwind(5)]
fn c13_empty_tlv_suffix_total_len1to2() {
	empty_suffix_len::<1>();
	empty_suffix_len::<2>();
}
