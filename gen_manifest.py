#!/usr/bin/env python3
"""regenerates MANIFEST.json from the table below (keeps the manifest consistent with what exists)"""
import json, os
HERE = os.path.dirname(os.path.abspath(__file__))

NA = {
 "C10": "whole-program crash/restart property: deserialisation of manager+monitors followed by arbitrary later behaviour; not encodable within reach (DESIGN.md §5 C10)",
}

# property -> (engine, technique, level text, level note)
CLAIMED = {}

def claim(pid, engine, technique, text, note):
    CLAIMED[pid] = (engine, technique, text, note)

M = "engine M: symbolic execution of the functions' MIR (rustc -Zunpretty=mir of /repo's working tree) into integer SMT, decided by z3 for all values inside the stated bounds; counterexamples replayed natively"
claim("C01", "M", "SMT bounded model checking of MIR (z3 + cvc5 portfolio)",
      "Kernel level: commitment fee/dust/anchor arithmetic, BOLT-3 reference equality of SpecTxBuilder::build_commitment_transaction's outputs, value conservation, prediction (get_next_commitment_stats) == construction; all amounts/feerates/channel types, HTLC lists up to N (quick 2, thorough 4). Interleavings, signatures and scripts are outside the claim.",
      "trusted: rustc MIR dump, engine_m executor + std models (validated against the native build on random/boundary vectors each run), z3; ChannelTypeFeatures modelled by a 3-row truth table read back from the native build")
claim("C02", "M", "SMT bounded model checking of MIR (z3 + cvc5 portfolio)",
      "Kernel level: forward admission arithmetic (amount + advertised fee, CLTV delta) for all u64/u32/u16 inputs incl. overflow paths, and the onion CLTV admission check. Claim/fail ordering, monitor durability and restart are outside the claim.",
      "trusted: rustc MIR dump, engine_m, z3; heights < 2^31")
claim("C08", "M", "SMT bounded model checking of MIR (z3 + cvc5 portfolio)",
      "Kernel level: every per-HTLC CLTV boundary inequality (forward admission, claim deadline <=> automatic fail-back, final-hop acceptance, the claim deadline announced with PaymentClaimable = earliest part expiry - 39, the monitor's go-on-chain decision for an unresolved HTLC: outbound expired >= 3 blocks ago, inbound with known preimage expiring within 36 blocks) for all heights < 2^31 and all expiries, and the safety margins they compose to; loops over HTLCs are decided one iteration at a time from an arbitrary loop-head state.",
      "trusted: rustc MIR dump, engine_m, z3/cvc5; the end-to-end race against the chain is outside the claim")
claim("C16", "M", "SMT bounded model checking of MIR (z3 + cvc5 portfolio)",
      "Kernel level: routing fee arithmetic (compute_fees, saturating variant), cross-module agreement with the forwarding node's fee check, max_htlc_from_capacity; all u64/u32/u8 inputs. Path level: PaymentPath::update_value_and_recompute_fees on 1-4 (thorough 5) symbolic hops - every forwarding node is paid at least its policy fee for the amount it forwards, every hop carries at least its htlc_minimum (amounts <= 2^40 msat, proportional fees <= 2^19 ppm). Inside get_route (regions of its MIR executed from an arbitrary state, all live locals havocked, graph / scorer / map look-ups stubbed): one application of the add_entry! macro (3 of its 8 expansions in the quick tier, all in the thorough tier) takes a candidate channel only for an amount that fits its usable maximum jointly with the liquidity earlier paths use, reaches its htlc_minimum, keeps total fee / CLTV / length within the request's limits, never takes a previously failed channel, and records the policy fee; one iteration of the loop that charges a selected path to used_liquidities; the CLTV budget and the minimal path contribution derived before the search; the key compared when identical selected paths are merged. Counterexamples are replayed through the public find_route on small graphs with a native validator of the property's statement. The order of the search, that the regions compose to a whole valid route, scoring and completeness are outside the claim.",
      "trusted: rustc MIR dump, engine_m, z3")
claim("C07", "M", "SMT bounded model checking of MIR (z3 + cvc5 portfolio)",
      "Kernel level: which HTLC outputs of a confirmed counterparty commitment and of our own confirmed commitment get a claim, for which outpoint, of which kind and with which urgency height (one iteration of the HTLC loops of get_counterparty_output_claim_info / get_broadcasted_holder_htlc_descriptors from an arbitrary loop-head state plus the package closure, replayed on live nodes); claim-package fee kernels (first-attempt fee, RBF bumping incl. BIP-125 rules 3/4 and monotone feerates, anchor-claim feerate strategy, package output value, package locktime) for all amounts/estimates over a stated finite set of transaction weights and <=2 (quick) / <=3 (thorough) inputs. Which outputs are claimed, scripts and the sweeper are outside the claim.",
      "trusted: rustc MIR dump, engine_m, z3; fee estimator = arbitrary u32 (<= u32::MAX/5 for the anchor strategy); previous feerate <= inputs*1000/weight")
claim("C11", "M+K", "SMT bounded model checking of MIR (z3 + cvc5); Kani/CBMC harnesses for the BlockLocator ring",
      "Kernel level: anti-reorg confirmation thresholds of both on-chain event queues (no irreversible conclusion before ANTI_REORG_DELAY confirmations nor before a CSV output matures), heights 1..2^31, all CSV delays; the per-entry reorg decisions of ChannelMonitor - blocks_disconnected retracts exactly the events above the fork point, a funding spend counts as final only with ANTI_REORG_DELAY confirmations - for all u32 heights and queues of any length, replayed on a live monitor; BlockLocator ring operations (Kani) where registered. Equivalence of block-delivery styles and multi-step reorg histories are outside the claim.",
      "trusted: rustc MIR dump, engine_m, z3/cvc5, Kani/CBMC")
claim("C17", "M", "SMT bounded model checking of MIR (z3 + cvc5 portfolio)",
      "Kernel level (narrow): the channel_update acceptance closures of NetworkGraph::update_channel_internal - strictly newer timestamp per direction, htlc_maximum <= known capacity - for all timestamps/flags/amounts, node_announcement ordering (applied iff the node is known and the timestamp is strictly newer, signed and unsigned path alike) and one step of the stale-channel pruning loop (each direction judged by its own timestamp; removal iff a direction is missing and the announcement is old); counterexamples are replayed through the public NetworkGraph API. verify_channel_announcement checks each of the four signatures against its own key (hashing / secp256k1 stubbed, outcome free per signature-key pair). The cryptography itself and order-independence over message sets are outside the claim.",
      "trusted: rustc MIR dump, engine_m, z3")
claim("C06", "M", "SMT bounded model checking of MIR (z3 + cvc5 portfolio)",
      "Kernel level: one justice claim is queued for every HTLC output of a revoked counterparty commitment, for the right outpoint and with the right urgency height (one iteration of the claim-building loop of check_spend_counterparty_transaction from an arbitrary loop-head state, replayed on live nodes); the per-transaction filter of a connected block selects a transaction iff it spends a watched output or any of its (<= 2) inputs spends a transaction selected earlier in the same block (closure of filter_block, watched-output lookup and hash sets stubbed, replayed on a live monitor); the fee and scheduling kernels that justice claims run on - first-attempt fee, RBF bumping (monotone, BIP-125 rules 3/4), package output value, merge, re-bump timer tied to the counterparty CSV height -, completeness of the retained revocation secrets (protocol-order prefix of the top m indices, SHA-256 uninterpreted), the amount claimed from a revoked HTLC output (amount_msat/1000 exactly) and the classification of revoked outputs as malleable packages. Detection of revoked commitments, secret derivation, package construction and witness validity are outside the claim.",
      "trusted: rustc MIR dump, engine_m, z3/cvc5; shares its obligations with C07 / C08.d (same code path)")
K = "Kani 0.68 / CBMC bounded model checking of the compiled code"
claim("C04", "M", "SMT bounded model checking of MIR (z3 + cvc5 portfolio)",
      "Kernel level: payment-secret metadata packing/unpacking (construct_info_bytes <-> verify) and the amount / expiry / min-final-CLTV acceptance thresholds for all u64/u32/u16 inputs and all five methods, with the cryptography abstracted (decrypt = packed bytes, HMAC/preimage checks = arbitrary booleans); user-hash boundary cases replay through the real create_from_hash + verify. All-or-nothing claiming: claim_payment_internal (region from its entry to the start of the claim path, <= 2 parts) releases the preimage iff the parts still held add up to the recorded total; replayed on four live nodes. Unforgeability, MPP accumulation and what follows the start of the claim path are outside the claim.",
      "trusted: rustc MIR dump, engine_m, z3; crypto abstraction listed in the evidence")
claim("C05", "M+K", "SMT bounded model checking of MIR with SHA-256 uninterpreted (z3 + cvc5); Kani/CBMC harnesses for slot arithmetic",
      "Path level: FundedChannel::revoke_and_ack from its entry to the call that stores the secret - accepted iff the channel is operational, the secret derives the commitment point the peer announced (secp256k1 abstracted to match / no match) and a revocation is actually awaited; replayed on a live channel; ChannelContext::validate_commitment_signed accepts only a fully signed commitment (commitment signature and exactly one valid signature per non-dust HTLC, <= 2 HTLCs, secp256k1 verification stubbed with free outcomes), replayed by altering a genuine commitment_signed. Kernel level: the counterparty-secret store. Engine M (symbolic seed, uninterpreted hash, top m commitment indices in protocol order): every honest secret is accepted, every revoked index stays recoverable and equals the seed-derived secret, a secret that does not derive the stored lower secrets is refused and the store is unchanged. Engine K: place_secret for all u64, slot masks, get_min_seen_secret. The EC check of a secret against the announced commitment point and all call-sequence rules are outside the claim.",
      "trusted: rustc MIR dump, engine_m, z3/cvc5, Kani/CBMC; native replay runs the same sequences with real SHA-256 on a fixed seed")
claim("C12", "M+K", "Kani/CBMC bounded model checking of the codec primitives and TLV macros; SMT bounded model checking of MIR (z3 + cvc5) for writer/reader field wiring over an abstract TLV record stream",
      "Kernel level: codec primitives (ints, U48, BigSize, CollectionLength, HighZeroBytesDroppedBigSize, bool, Option) round-trip and canonical-form rejection for every input <= 10 bytes; FixedLengthReader bounds; the real TLV macros on a probe struct (ordering, required/unknown-even/odd rules, exact lengths, truncation) (Kani). Engine M: the persisted ClaimableHTLC (write_claimable_htlc vs its separately written reader), ChannelConfig and ChannelUpdateInfo read back with every field intact, for all field values and optional-field combinations, leaf codecs and byte lengths abstracted. Other large persisted objects are outside the claim.",
      "trusted: Kani/CBMC; Kani-only model of bitcoin-io's io::Error payload (harness/patched/bitcoin-io); rustc MIR dump, engine_m, z3/cvc5; stream stubs listed in obligations/tlv_stream.py")
claim("C13", "M+K", "Kani/CBMC bounded model checking of the compiled codecs; SMT bounded model checking of MIR (z3 + cvc5) for the node_announcement address section, incl. one inductive loop step",
      "Kernel level: key-free peer messages round-trip for arbitrary field values; decoding of bounded arbitrary inputs is total, canonical and never reads past the buffer; unknown even TLVs rejected, odd ignored, out-of-range bool rejected (Kani). Engine M: address-descriptor lengths for all kinds and hostname lengths; the node_announcement decoder's address section with the byte source as a nondeterministic stub - accepted announcements account for exactly addrlen bytes (no address overruns addrlen), no panic, for <= 2 (quick) / 4 (thorough) descriptors, plus one loop iteration from an arbitrary invariant-satisfying loop-head state (any number of earlier addresses, any source length < 2^40). Messages with keys/signatures, onion packets and wire::read are outside the claim.",
      "trusted: Kani/CBMC; Kani-only model of bitcoin-io's io::Error payload; rustc MIR dump, engine_m, z3/cvc5; reader stub listed in the evidence")
claim("C14", "K", K,
      "Kernel level (narrow): AttributionData layout - shift_right/shift_left inverse on the retained bytes, hold-time and HMAC slot movement - for fully symbolic 920-byte contents. Onion construction/peeling and all cryptography are outside the claim.",
      "trusted: Kani/CBMC")
claim("C03", "M", "SMT bounded model checking of MIR (z3 + cvc5 portfolio)",
      "Kernel level (narrow): the payer's bookkeeping of one outbound payment - OutboundPayments::claim_htlc, fail_htlc, abandon_payment and add_new_pending_payment executed from the MIR on one entry of the pending-payment map in each state (Legacy / Retryable / Fulfilled / Abandoned, awaiting-invoice states for abandon), fields symbolic: PaymentSent is queued exactly once, when a claim meets a payment not yet fulfilled, and never for an unknown id; a fulfilled payment is never reported failed; a failed in-flight HTLC is reported once and PaymentFailed is queued exactly when it was the last HTLC of an abandoned payment - at most once, after the path failure, carrying the completion action - and the entry is dropped then and only then; duplicate failures and claims change nothing; abandoning reports failure at once only with no HTLC in flight and never un-fulfils a payment; a payment id in use is refused; an HTLC found in a monitor at start-up is tracked again whatever state the persisted entry is in (insert_from_monitor_on_startup); after a partially failed multi-part send only the parts that were not committed are forgotten (filter closure of handle_pay_route_err). The in-flight set is abstracted to its size, onion-failure decoding / hashing / the retry policy are free. Replayed on live nodes (five single-path scenarios, a two-part payment with one part failing while the other is in flight, and an on-chain failure whose terminal event must be replayed after a restart; driven by the library's test utilities, which assert the payer's events at every step). That the ChannelManager calls these functions exactly when HTLCs resolve (off-chain, on-chain, after restart), balances, retries and event replay across restarts are outside the claim.",
      "trusted: rustc MIR dump, engine_m, z3/cvc5; summaries of PendingOutboundPayment::remove / remaining_parts checked against their MIR per variant (C03.m)")
claim("C09", "M", "SMT bounded model checking of MIR (z3 + cvc5 portfolio)",
      "Kernel level (narrow): the bookkeeping that decides when a monitor update counts as complete and what is released then. ChainMonitor::channel_monitor_updated (<= 3 / 4 pending updates, arbitrary ids): completing an update removes exactly it from the pending list and the Completed event is raised iff no update of the channel is pending any more, whatever the order of completions. ChainMonitor::update_channel_internal: the update is applied to the monitor exactly once and before the persister is invoked; an update whose persistence is in progress is appended to the pending list and only then; Completed is reported only if it applied, persisted at once and the channel is not post-close. ChannelManager::channel_monitor_updated (whole function, <= 2 / 3 in-flight updates): the channel is resumed, or a closed channel's blocked actions run, iff no in-flight update above the completed id is left. FundedChannel::monitor_updating_restored (region from the peer-connected test to its end, arbitrary state): a revoke_and_ack / commitment update leaves only if that message was being held, every held message the signer can produce leaves unless its predecessor still waits for the signer, in the recorded order, and the hold flags are cleared. Replayed on two live nodes whose persister answers InProgress (sender-side and receiver-side hold, a completion for a foreign update id). That every state-revealing action is routed through this bookkeeping, blocked updates, the deferred mode and restarts are outside the claim.",
      "trusted: rustc MIR dump, engine_m, z3/cvc5; MonitorEvent construction (raw-pointer vec! code) is a cut point, not executed")
claim("C15", "M", "SMT bounded model checking of MIR (z3 + cvc5 portfolio)",
      "Kernel level: (a) the nonce / key-rotation kernel of PeerChannelEncryptor - one message across encrypt_message_with_header_0s, decrypt_length_header and decrypt_message from an arbitrary coupled post-handshake state (an inductive step over any number of messages and key rotations): the message is accepted with its length and both sides stay in step, nonces are consecutive and never reused, keys rotate exactly at nonce 1000 on both sides, an altered header or body is rejected; AEAD and HKDF abstracted (keys as identities, decryption succeeds iff same key, nonce and unaltered bytes). (c) one iteration of the read loop of PeerManager::do_read_event from an arbitrary loop-head state: partial reads, completed length headers, bodies and handshake acts are reassembled for reads of any size, authentication failures and lengths below 2 drop the connection, the buffer invariant is preserved, no slice index can go out of range. (e) the write step of do_attempt_write_data: the socket is offered the unsent rest of the front buffer and the offset advances by what it took (no byte sent twice or skipped under back-pressure). (d) do_handle_message_holding_peer_lock / handle_message: nothing but Init is accepted before Init, a second Init is refused, a refused message is not handled. Replayed with two real encryptors (hook), with two real PeerManagers over in-memory sockets cut into fragments of ten sizes, and [d] through a raw initiator (hook). The handshake cryptography, which messages are queued when, and panics on arbitrary handshake bytes are outside the claim.",
      "trusted: rustc MIR dump, engine_m, z3/cvc5; crypto abstraction and the stubs of the read loop listed in the evidence")
claim("C19", "M", "SMT bounded model checking of MIR (z3 + cvc5 portfolio), async bodies executed through their poll functions",
      "Kernel level (narrow): the store operations the incremental-update persister (MonitorUpdatingPersisterAsyncInner, which the synchronous MonitorUpdatingPersister wraps) issues - update_persisted_channel, its synchronous part and its three async blocks executed for real: an update is written incrementally under its own id iff it is not the legacy id, incremental updates are enabled and the id is not a multiple of maximum_pending_updates, otherwise the full monitor is written (exactly one of the two); superseded updates are cleaned up only after a full write that succeeded, bounded by the update id of the monitor just written; success is reported iff the write succeeded. cleanup_in_range removes exactly start..=end; cleanup_stale_updates_for_monitor_to never removes an update above the stored monitor's id (<= 3 / 4 listed names); the public cleanup_stale_updates bounds by the monitor as stored; recovery (maybe_read_channel_monitor_with_updates, <= 2 / 3 listed updates) applies exactly the stored updates above the stored monitor's id, in ascending order, and fails rather than return a shorter history. The key-value store is a stub with free outcomes; replayed on two live nodes persisting through the real persister (eight values of maximum_pending_updates), reading the store back after every payment. The stores themselves (FilesystemStore atomicity, threads) and crash points between two store operations are outside the claim.",
      "trusted: rustc MIR dump, engine_m (coroutine state values), z3/cvc5")
claim("C20", "M", "SMT bounded model checking of MIR (z3 + cvc5 portfolio), async bodies executed through their poll functions",
      "Function level over lightning-block-sync's MIR, block hashes as identities, chain work as integers, every awaited future immediately ready with an arbitrary answer: check_builds_on (a parent must be named by hash, be one lower and account for the chain work; mainnet difficulty rules); ChainPoller's three async blocks (a parent / tip / block is accepted from a source only if it hashes - proof of work - to exactly the hash asked for; Better only with strictly more work); find_difference_from_header (most recent common ancestor and the contiguous list of blocks to connect, both tips <= 2 (quick) / 3 (thorough) blocks above it, arbitrary tree); connect_blocks (oldest first, each once, stops at the first failed fetch and reports the tip reached; <= 3 / 5 blocks); synchronize_listener (disconnect to the ancestor before connecting, nothing touched if the walk fails); update_chain_tip / poll_best_tip (the client's tip is where the listeners are; only Better tips move them). Counterexamples are replayed on the real SpvClient over 2000 fork shapes x source behaviours x tip changes with a native validator of the notification sequence. Start-up synchronisation (init::synchronize_listeners), the header cache's eviction, proof-of-work / merkle validation itself and the HTTP sources are outside the claim.",
      "trusted: rustc MIR dump, engine_m (coroutine state values), z3/cvc5")
claim("C18", "M+K", "Kani/CBMC bounded model checking of the BOLT-11 codecs; SMT bounded model checking of MIR (z3 + cvc5) for the BOLT-12 signing-key rule",
      "Kernel level (narrow): BOLT-11 integer <-> 5-bit group codec (mutually inverse, canonical, size function), amount x SI-prefix arithmetic never wraps, PositiveTimestamp bounds; for all u64 (Kani). BOLT-12 check_invoice_signing_pubkey: Ok iff the signing key is the offer's issuer id, or - without an issuer id - the final blinded node id of one of its paths; public keys as abstract identities, <= 2 paths of <= 2 hops (engine M). Bech32 checksum, signatures, tagged fields, merkle hashing and metadata verification are outside the claim.",
      "trusted: Kani/CBMC; rustc MIR dump, engine_m, z3/cvc5")


def main():
    props = [json.loads(l) for l in open(os.path.join(HERE, 'properties.jsonl'))]
    hooks_commits = os.popen("git -C /repo log --format=%H --grep='^verif hooks' ").read().split()
    checks = []
    na = []
    for p in props:
        pid = p['id']
        if pid in CLAIMED and os.path.exists(os.path.join(HERE, 'obligations', pid + '.py')):
            eng, tech, text, note = CLAIMED[pid]
            checks.append({
                "property_id": pid,
                "quick_cmd": "./verif check %s --tier quick" % pid,
                "thorough_cmd": "./verif check %s --tier thorough" % pid,
                "evidence_file": "/verif/evidence/%s.json" % pid,
                "replay_cmd_template": "./verif replay {path}",
                "engine": eng,
                "level_claimed": {"category": "model_checking", "text": text, "design_ref": "DESIGN.md §5 " + pid},
                "level_note": note,
                "technique": tech,
            })
        elif pid in NA:
            na.append({"property_id": pid, "reason": NA[pid]})
        else:
            na.append({"property_id": pid, "reason": "no check registered yet: planned kernel-level solver check not built / not finished (see DESIGN.md §5 %s)" % pid})
    man = {
        "version": 1,
        "setup_cmd": "./verif setup",
        "hooks": {
            "guard": "_verif (cargo feature of the lightning crate)",
            "enable": "the harness crate /verif/harness depends on lightning with features=[\"_verif\"]; MIR dumps use --features _verif",
            "baseline_off_cmd": "cd /repo && cargo test --workspace --no-fail-fast --offline",
            "source_commits": hooks_commits,
            "add_only": True,
        },
        "engines": [
            {"name": "M", "path": "/verif/engine_m", "serves_properties": sorted(k for k, v in CLAIMED.items() if 'M' in v[0]),
             "kind_free_text": M},
            {"name": "K", "path": "/verif/harness", "serves_properties": sorted(k for k, v in CLAIMED.items() if 'K' in v[0]),
             "kind_free_text": "engine K: Kani 0.68 / CBMC proof harnesses over the compiled code of /repo (path dependency), unwinding assertions on, kani::cover vacuity witnesses"},
        ],
        "checks": checks,
        "notes": "exit codes: 0 pass, 1 VIOLATION (only after the counterexample reproduced natively), 2 inconclusive (timeout / unknown / unsupported construct / non-reproducing model / build failure)",
        "not_applicable": na,
    }
    json.dump(man, open(os.path.join(HERE, 'MANIFEST.json'), 'w'), indent=1)
    print('checks:', [c['property_id'] for c in checks])


if __name__ == '__main__':
    main()
