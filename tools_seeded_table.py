#!/usr/bin/env python3
"""prints the markdown table of DESIGN.md section 10 from seeded/*/meta.json"""
import json, glob, os
rows = []
for p in sorted(glob.glob('/verif/seeded/*/meta.json')):
    m = json.load(open(p))
    files = ', '.join(f.replace('lightning/src/', '').replace('lightning-invoice/src/', 'invoice/') for f in m['files_changed'])
    det = ', '.join(m['detected_by']) or '—'
    rows.append('| %s | %s | %s | %s |' % (m['id'], files, det, m.get('detection_note', '').replace('|', '/')))
print('| seeded change | file | caught by | note |\n|---|---|---|---|')
print('\n'.join(rows))
c = sum(1 for p in glob.glob('/verif/seeded/*/meta.json') if json.load(open(p))['detected_by'])
print('\ncaught %d of %d' % (c, len(rows)))
