"""Reads struct / enum declarations from the repository's source so that the MIR's positional
field and variant indices can be addressed by name (declaration order == MIR index)."""
import os, re

CFG_TRUE = {'feature = "std"', 'feature = "grind_signatures"', 'feature = "_verif"',
            'debug_assertions'}


def eval_cfg(expr, cfg_true=CFG_TRUE):
    expr = expr.strip()
    m = re.fullmatch(r'(any|all|not)\((.*)\)', expr, re.S)
    if m:
        from .mir import split_top
        parts = [eval_cfg(p, cfg_true) for p in split_top(m.group(2))]
        if m.group(1) == 'any':
            return any(parts)
        if m.group(1) == 'all':
            return all(parts)
        return not parts[0]
    return expr in cfg_true


def _strip_comments(src):
    src = re.sub(r'//[^\n]*', '', src)
    src = re.sub(r'/\*.*?\*/', '', src, flags=re.S)
    return src


def _items(body):
    """split a struct/enum body into top-level comma-separated items, with attributes."""
    from .mir import split_top
    return split_top(body)


class Decls:
    def __init__(self, roots):
        self.structs = {}   # name -> list of (file, [field names])
        self.enums = {}     # name -> list of (file, [(variant, discr, [field names] or n)])
        for root in roots:
            for dp, dn, fn in os.walk(root):
                for f in fn:
                    if f.endswith('.rs'):
                        self._scan(os.path.join(dp, f))

    def _scan(self, path):
        try:
            src = open(path, encoding='utf-8').read()
        except Exception:
            return
        src = _strip_comments(src)
        for m in re.finditer(r'\b(struct|enum)\s+([A-Za-z_]\w*)\s*(<[^{;(]*>)?\s*(where[^{;]*)?\{', src):
            kind, name = m.group(1), m.group(2)
            st = m.end() - 1
            depth = 0
            j = st
            while j < len(src):
                if src[j] == '{':
                    depth += 1
                elif src[j] == '}':
                    depth -= 1
                    if depth == 0:
                        break
                j += 1
            body = src[st + 1:j]
            try:
                if kind == 'struct':
                    self.structs.setdefault(name, []).append((path, self._fields(body)))
                else:
                    self.enums.setdefault(name, []).append((path, self._variants(body)))
            except Exception:
                pass
        # tuple structs:  struct Name(pub u64, ...);
        for m in re.finditer(r'\bstruct\s+([A-Za-z_]\w*)\s*(<[^{;(]*>)?\s*\(', src):
            name = m.group(1)
            self.structs.setdefault(name, []).append((path, None))

    def _split_attrs(self, item):
        attrs = []
        s = item.strip()
        while s.startswith('#['):
            depth = 0
            for j, c in enumerate(s):
                if c == '[':
                    depth += 1
                elif c == ']':
                    depth -= 1
                    if depth == 0:
                        break
            attrs.append(s[2:j])
            s = s[j + 1:].strip()
        return attrs, s

    def _enabled(self, attrs):
        for a in attrs:
            m = re.fullmatch(r'cfg\((.*)\)', a.strip(), re.S)
            if m and not eval_cfg(m.group(1)):
                return False
        return True

    def _fields(self, body):
        out = []
        for it in _items(body):
            attrs, s = self._split_attrs(it)
            if not s or not self._enabled(attrs):
                continue
            s = re.sub(r'^pub(\([^)]*\))?\s+', '', s)
            m = re.match(r'([A-Za-z_]\w*)\s*:', s)
            if m:
                out.append(m.group(1))
        return out

    def _variants(self, body):
        out = []
        nxt = 0
        for it in _items(body):
            attrs, s = self._split_attrs(it)
            if not s or not self._enabled(attrs):
                continue
            m = re.match(r'([A-Za-z_]\w*)\s*(.*)$', s, re.S)
            name, rest = m.group(1), m.group(2).strip()
            fields = []
            discr = nxt
            if rest.startswith('{'):
                fields = self._fields(rest[1:rest.rindex('}')])
                rest = rest[rest.rindex('}') + 1:].strip()
            elif rest.startswith('('):
                from .mir import match_paren, split_top
                e = match_paren(rest, 0)
                fields = list(range(len(split_top(rest[1:e]))))
                rest = rest[e + 1:].strip()
            if rest.startswith('='):
                v = rest[1:].strip().replace('_', '')
                try:
                    discr = int(v, 0)
                except ValueError:
                    discr = None
            out.append((name, discr, fields))
            nxt = (discr + 1) if discr is not None else None
        return out

    # -- lookups -----------------------------------------------------------
    def _pick(self, table, name, hint):
        base = name.split('<')[0].split('::')[-1].strip()
        first = name.split('<')[0].strip().lstrip('&').split('::')[0].strip()
        if first in ('bitcoin', 'std', 'core', 'alloc', 'secp256k1', 'bech32', 'hashbrown'):
            return None          # type of an external crate that merely shares a name with a local one
        cands = table.get(base)
        if not cands:
            return None
        if len(cands) == 1:
            return cands[0][1]
        if hint:
            hs = [c for c in cands if hint in c[0]]
            if len(hs) == 1:
                return hs[0][1]
        # use module path in the name as a hint
        segs = [s for s in name.split('<')[0].split('::')[:-1] if s]
        for c in cands:
            p = c[0]
            if segs and all(s in p for s in segs[-1:]):
                return c[1]
        same = [c[1] for c in cands]
        if all(x == same[0] for x in same):
            return same[0]
        raise KeyError('ambiguous declaration %s: %s' % (name, [c[0] for c in cands]))

    def struct_fields(self, name, hint=None):
        return self._pick(self.structs, name, hint)

    def field_index(self, name, field, hint=None):
        fs = self.struct_fields(name, hint)
        if fs is None:
            raise KeyError('no struct ' + name)
        return fs.index(field)

    def enum_variants(self, name, hint=None):
        return self._pick(self.enums, name, hint)

    def variant_index(self, name, variant, hint=None):
        vs = self.enum_variants(name, hint)
        if vs is None:
            raise KeyError('no enum ' + name)
        for i, (n, d, f) in enumerate(vs):
            if n == variant:
                return i
        raise KeyError('no variant %s::%s' % (name, variant))

    def variant_discr(self, name, idx, hint=None):
        vs = self.enum_variants(name, hint)
        return vs[idx][1]
