"""Parser for the text form of rustc's `-Zunpretty=mir` output.

Only the subset of MIR this repository's kernels use is understood; anything else is
turned into an ('unsupported', text) node so that the executor can flag it if reached.
"""
import re, os, mmap


class MirError(Exception):
    pass


# ---------------------------------------------------------------------------
# generic helpers

def split_top(s, sep=','):
    """split s on sep at nesting depth 0 of () [] {} <> (string literals respected)."""
    out, depth, cur, i, n = [], 0, [], 0, len(s)
    instr = False
    while i < n:
        c = s[i]
        if instr:
            cur.append(c)
            if c == '\\':
                cur.append(s[i + 1]); i += 1
            elif c == '"':
                instr = False
        elif c == '"':
            instr = True; cur.append(c)
        elif c in '([{<':
            depth += 1; cur.append(c)
        elif c in ')]}':
            depth -= 1; cur.append(c)
        elif c == '>':
            # '->' and '=>' are not brackets
            if i > 0 and s[i - 1] in '-=':
                cur.append(c)
            else:
                depth -= 1; cur.append(c)
        elif c == sep and depth == 0:
            out.append(''.join(cur).strip()); cur = []
        else:
            cur.append(c)
        i += 1
    last = ''.join(cur).strip()
    if last:
        out.append(last)
    return out


def match_paren(s, i):
    """s[i] is an opening bracket; return index of matching close."""
    op = s[i]
    cl = {'(': ')', '[': ']', '{': '}', '<': '>'}[op]
    depth = 0
    instr = False
    j = i
    while j < len(s):
        c = s[j]
        if instr:
            if c == '\\':
                j += 1
            elif c == '"':
                instr = False
        elif c == '"':
            instr = True
        elif c == op:
            depth += 1
        elif c == cl:
            if not (c == '>' and j > 0 and s[j - 1] in '-='):
                depth -= 1
                if depth == 0:
                    return j
        j += 1
    raise MirError('unbalanced: ' + s)


# ---------------------------------------------------------------------------
# AST nodes are plain tuples:
#   place:   ('local', n) | ('deref', p) | ('field', p, idx, ty) | ('downcast', p, variant_name, variant_idx?)
#            | ('index', p, local_n) | ('constindex', p, k, fromend, minlen) | ('subslice', ...)
#   operand: ('copy', place) | ('move', place) | ('const', text)
#   rvalue:  ('use', operand) | ('ref', kind, place) | ('binop', op, a, b) | ('unop', op, a)
#            | ('cast', operand, ty, kind) | ('discr', place) | ('len', place)
#            | ('aggregate', kind, name, [(fieldname|None, operand)]) | ('repeat', operand, count)
#            | ('unsupported', text)

BINOPS = {'Add', 'Sub', 'Mul', 'Div', 'Rem', 'BitAnd', 'BitOr', 'BitXor', 'Shl', 'Shr', 'Eq', 'Ne',
          'Lt', 'Le', 'Gt', 'Ge', 'AddWithOverflow', 'SubWithOverflow', 'MulWithOverflow',
          'AddUnchecked', 'SubUnchecked', 'MulUnchecked', 'ShlUnchecked', 'ShrUnchecked', 'Cmp', 'Offset'}
UNOPS = {'Not', 'Neg', 'PtrMetadata'}


def parse_place(s):
    s = s.strip()
    if s.startswith('no_retag '):
        s = s[9:].strip()
    m = re.fullmatch(r'_(\d+)', s)
    if m:
        return ('local', int(m.group(1)))
    if s.startswith('(*') and s.endswith(')') and match_paren(s, 0) == len(s) - 1:
        return ('deref', parse_place(s[2:-1]))
    if s.startswith('(') and match_paren(s, 0) == len(s) - 1:
        inner = s[1:-1]
        # (P as Variant)  or (P.N: Ty)
        # find ' as ' at depth 0
        parts = _split_as(inner)
        if parts is not None:
            return ('downcast', parse_place(parts[0]), parts[1].strip())
        # field: find last '.' at depth 0 before ':' at depth 0
        colon = _find_top(inner, ': ')
        if colon < 0:
            raise MirError('bad place ' + s)
        left, ty = inner[:colon], inner[colon + 2:]
        dot = left.rfind('.')
        return ('field', parse_place(left[:dot]), int(left[dot + 1:]), ty.strip())
    # indexing suffix
    if s.endswith(']'):
        # find the matching '['
        depth = 0
        for j in range(len(s) - 1, -1, -1):
            if s[j] == ']':
                depth += 1
            elif s[j] == '[':
                depth -= 1
                if depth == 0:
                    break
        base, idx = s[:j], s[j + 1:-1]
        m = re.fullmatch(r'_(\d+)', idx)
        if m:
            return ('index', parse_place(base), int(m.group(1)))
        m = re.fullmatch(r'(-?)(\d+) of (\d+)', idx)
        if m:
            return ('constindex', parse_place(base), int(m.group(2)), m.group(1) == '-', int(m.group(3)))
        m = re.fullmatch(r'(\d+):(-?)(\d*)', idx)
        if m:
            return ('subslice', parse_place(base), int(m.group(1)), m.group(2) == '-', int(m.group(3) or 0))
        raise MirError('bad index ' + s)
    raise MirError('bad place ' + s)


def _find_top(s, tok):
    depth = 0
    i = 0
    while i < len(s):
        c = s[i]
        if c in '([{<':
            depth += 1
        elif c in ')]}':
            depth -= 1
        elif c == '>' and not (i > 0 and s[i - 1] in '-='):
            depth -= 1
        if depth == 0 and s.startswith(tok, i):
            return i
        i += 1
    return -1


def _split_as(inner):
    i = _find_top(inner, ' as ')
    if i < 0:
        return None
    # make sure it is a downcast (no ':' at top level after)
    rest = inner[i + 4:]
    if _find_top(rest, ': ') >= 0:
        return None
    return inner[:i], rest


def parse_operand(s):
    s = s.strip()
    if s.startswith('copy '):
        return ('copy', parse_place(s[5:]))
    if s.startswith('move '):
        return ('move', parse_place(s[5:]))
    if s.startswith('const '):
        return ('const', s[6:].strip())
    if re.fullmatch(r'[\w:<>, &\'\[\];]+', s) and '::' in s:
        return ('const', 'ZeroSized: fn() {' + s + '}')   # bare function item
    raise MirError('bad operand ' + s)


def parse_rvalue(s):
    s = s.strip()
    try:
        return _parse_rvalue(s)
    except MirError as e:
        return ('unsupported', s)


def _parse_rvalue(s):
    if s.startswith('no_retag '):
        s = s[9:].strip()
    if s.startswith(('copy ', 'move ', 'const ')):
        i = _find_top(s, ' as ')
        if i >= 0 and s.endswith(')'):
            rest = s[i + 4:]
            k = rest.rfind(' (')
            if k >= 0:
                return ('cast', parse_operand(s[:i]), rest[:k].strip(), rest[k + 2:-1])
        return ('use', parse_operand(s))
    if s.startswith('&raw const '):
        return ('ref', 'rawconst', parse_place(s[11:]))
    if s.startswith('&raw mut '):
        return ('ref', 'rawmut', parse_place(s[9:]))
    if s.startswith('&mut '):
        return ('ref', 'mut', parse_place(s[5:]))
    if s.startswith('&fake shallow '):
        return ('ref', 'shared', parse_place(s[14:]))
    if s.startswith('&'):
        return ('ref', 'shared', parse_place(s[1:]))
    m = re.match(r'([A-Za-z]+)\(', s)
    if m and match_paren(s, m.end() - 1) == len(s) - 1:
        name = m.group(1)
        inner = s[m.end():-1]
        if name in BINOPS:
            a, b = split_top(inner)
            return ('binop', name, parse_operand(a), parse_operand(b))
        if name in UNOPS:
            return ('unop', name, parse_operand(inner))
        if name == 'discriminant':
            return ('discr', parse_place(inner))
        if name == 'Len':
            return ('len', parse_place(inner))
        if name == 'CopyForDeref':
            return ('use', ('copy', parse_place(inner)))
    # tuple aggregate
    if s.startswith('(') and match_paren(s, 0) == len(s) - 1:
        inner = s[1:-1].strip()
        items = split_top(inner) if inner else []
        return ('aggregate', 'tuple', None, [(None, parse_operand(x)) for x in items])
    if s == '()':
        return ('aggregate', 'tuple', None, [])
    # array aggregate / repeat
    if s.startswith('[') and s.endswith(']'):
        inner = s[1:-1]
        semi = _find_top(inner, '; ')
        if semi >= 0:
            return ('repeat', parse_operand(inner[:semi]), inner[semi + 2:].strip())
        items = split_top(inner) if inner.strip() else []
        return ('aggregate', 'array', None, [(None, parse_operand(x)) for x in items])
    # closure / struct aggregate  Name { a: x, b: y }
    if s.endswith('}'):
        # find the opening brace matching the last char
        depth = 0
        for j in range(len(s) - 1, -1, -1):
            if s[j] == '}':
                depth += 1
            elif s[j] == '{':
                depth -= 1
                if depth == 0:
                    break
        name = s[:j].strip()
        inner = s[j + 1:-1].strip()
        fields = []
        for it in (split_top(inner) if inner else []):
            k = it.index(': ')
            fields.append((it[:k].strip(), parse_operand(it[k + 2:])))
        return ('aggregate', 'adt', name, fields)
    # enum variant / tuple struct   Path::Variant(a, b)
    if s.endswith(')'):
        # find the '(' matching the last ')'
        depth = 0
        for j in range(len(s) - 1, -1, -1):
            if s[j] == ')':
                depth += 1
            elif s[j] == '(':
                depth -= 1
                if depth == 0:
                    break
        name = s[:j].strip()
        inner = s[j + 1:-1].strip()
        items = split_top(inner) if inner else []
        return ('aggregate', 'adt', name, [(None, parse_operand(x)) for x in items])
    # unit variant  Option::<u64>::None
    if re.fullmatch(r'[A-Za-z_][\w:<>, &\'\[\];\(\)]*', s) or re.fullmatch(r'[A-Za-z_][\w:]*::<.*\{(?:async (?:block|fn body)|closure|coroutine)[^{}]*\}.*>::\w+', s):
        # (second form: a unit variant of a type instantiated with an unnameable type, e.g. Option::<{async block@f:l:c}>::None)
        return ('aggregate', 'adt', s, [])
    raise MirError('rvalue ' + s)



# ---------------------------------------------------------------------------
# statements and terminators

def parse_statement(line):
    """returns ('assign', place, rvalue) | ('setdiscr', place, idx) | ('nop',) | ('unsupported', text)"""
    s = line.strip()
    if s.endswith(';'):
        s = s[:-1]
    if s.startswith(('StorageLive(', 'StorageDead(', 'nop', 'FakeRead(', 'Retag(', 'PlaceMention(',
                     'AscribeUserType(', 'Coverage::', 'ConstEvalCounter', '// ', 'BackwardIncompatibleDropHint')):
        return ('nop',)
    if s.startswith('Deinit('):
        return ('nop',)
    m = re.fullmatch(r'discriminant\((.*)\) = (\d+)', s)
    if m:
        return ('setdiscr', parse_place(m.group(1)), int(m.group(2)))
    if s.startswith('assume('):
        return ('assume', parse_operand(s[7:-1]))
    i = _find_top(s, ' = ')
    if i < 0:
        return ('unsupported', s)
    try:
        return ('assign', parse_place(s[:i]), parse_rvalue(s[i + 3:]))
    except MirError:
        return ('unsupported', s)


def parse_targets(s):
    # "[0: bb3, otherwise: bb2]"  or "[return: bb1, unwind continue]" / "[success: bb1, unwind: bb9]"
    s = s.strip()
    assert s.startswith('[') and s.endswith(']'), s
    out = {}
    for it in split_top(s[1:-1]):
        if it.startswith('unwind'):
            continue
        k, v = it.split(': ')
        out[k.strip()] = int(v.strip()[2:])
    return out


def _first_top_paren(t):
    depth = 0
    instr = False
    i = 0
    while i < len(t):
        c = t[i]
        if instr:
            if c == '\\':
                i += 1
            elif c == '"':
                instr = False
        elif c == '"':
            instr = True
        elif c in '<[{':
            depth += 1
        elif c in ']}':
            depth -= 1
        elif c == '>' and not (i > 0 and t[i - 1] in '-='):
            depth -= 1
        elif c == '(':
            if depth == 0:
                return i
            depth += 1
        elif c == ')':
            depth -= 1
        i += 1
    return -1


def parse_terminator(line):
    s = line.strip()
    if s.endswith(';'):
        s = s[:-1]
    if s == 'return':
        return ('return',)
    if s == 'unreachable':
        return ('unreachable',)
    if s.startswith('resume') or s.startswith('abort') or s.startswith('terminate'):
        return ('resume',)
    m = re.fullmatch(r'goto -> bb(\d+)', s)
    if m:
        return ('goto', int(m.group(1)))
    if s.startswith('switchInt('):
        e = match_paren(s, 9)
        op = parse_operand(s[10:e])
        tg = parse_targets(s[e + 1:].strip()[2:].strip())
        other = tg.pop('otherwise', None)
        return ('switch', op, {int(k): v for k, v in tg.items()}, other)
    if s.startswith('assert('):
        e = match_paren(s, 6)
        inner = split_top(s[7:e])
        cond = inner[0]
        expected = True
        if cond.startswith('!'):
            expected = False
            cond = cond[1:]
        msg = inner[1] if len(inner) > 1 else ''
        tg = parse_targets(s[e + 1:].strip()[2:].strip())
        return ('assert', parse_operand(cond), expected, msg, tg['success'])
    if s.startswith('drop('):
        e = match_paren(s, 4)
        tg = parse_targets(s[e + 1:].strip()[2:].strip())
        return ('drop', parse_place(s[5:e]), tg['return'])
    if s.startswith('falseEdge') or s.startswith('falseUnwind'):
        m = re.search(r'real: bb(\d+)', s)
        return ('goto', int(m.group(1)))
    # call:  PLACE = func(args) -> [return: bbN, unwind ...]    (diverging: -> unwind continue)
    i = _find_top(s, ' = ')
    arrow = max(s.rfind(' -> ['), s.rfind(' -> unwind'))
    if arrow < 0:
        mm = re.search(r' -> bb\d+$', s)
        if mm:
            arrow = mm.start()   # diverging call with only a cleanup target
    if i >= 0 and arrow >= 0 and s[arrow - 1] == ')':
        dest = parse_place(s[:i])
        callpart = s[i + 3:arrow]
        j = _first_top_paren(callpart)
        if j < 0:
            return ('unsupported', s)
        e = match_paren(callpart, j)
        func = callpart[:j].strip()
        inner = callpart[j + 1:e].strip()
        try:
            args = [parse_operand(x) for x in split_top(inner)] if inner else []
        except MirError:
            return ('unsupported', s)
        tgs = s[arrow + 4:].strip()
        ret = None
        if tgs.startswith('['):
            ret = parse_targets(tgs).get('return')
        return ('call', dest, func, args, ret)
    return ('unsupported', s)


# ---------------------------------------------------------------------------
# function bodies

class Function:
    __slots__ = ('name', 'header', 'params', 'ret_ty', 'locals', 'blocks', 'nargs', 'debug', 'debug_all', 'text', 'extra_caps')

    def __repr__(self):
        return '<fn %s>' % self.name


_HEADER = re.compile(r'^fn (.*)$')


def parse_function(text):
    lines = text.split('\n')
    header = lines[0]
    assert header.startswith('fn ')
    p = header.index('(_1') if '(_1' in header else header.index('()', 3)
    # name is everything before the parameter list; the parameter list starts at the last
    # top-level '(' whose content starts with '_1:' or is empty.
    # find it robustly: scan for '(' at depth 0 (ignoring <...> and {closure@..}) followed by '_1: ' or ')'
    name_end = None
    depth = 0
    i = 3
    while i < len(header):
        c = header[i]
        if c in '<{[':
            depth += 1
        elif c in '}]':
            depth -= 1
        elif c == '>' and header[i - 1] not in '-=':
            depth -= 1
        elif c == '(' and depth == 0 and (header.startswith('(_1: ', i) or header.startswith('()', i)):
            name_end = i
            break
        elif c == '(':
            depth += 1
        elif c == ')':
            depth -= 1
        i += 1
    if name_end is None:
        raise MirError('header ' + header)
    f = Function()
    f.text = text
    f.header = header
    f.name = header[3:name_end].strip()
    pe = match_paren(header, name_end)
    params = split_top(header[name_end + 1:pe])
    f.params = []
    for prm in params:
        k = prm.index(': ')
        f.params.append((int(prm[1:k]), prm[k + 2:].strip()))
    f.nargs = len(f.params)
    rest = header[pe + 1:].strip()
    f.ret_ty = rest[3:-1].strip() if rest.startswith('->') else '()'
    if rest.startswith('->'):
        f.ret_ty = rest[2:].rstrip('{').strip()
    f.locals = {n: t for n, t in f.params}
    f.locals[0] = f.ret_ty
    f.blocks = {}
    f.debug = {}
    f.debug_all = []      # every (name, place) in declaration order: names can be shadowed in inner scopes
    cur = None
    stmts = None
    for ln in lines[1:]:
        s = ln.strip()
        if not s:
            continue
        m = re.match(r'let (mut )?_(\d+): (.*);$', s)
        if m and cur is None:
            f.locals[int(m.group(2))] = m.group(3)
            continue
        m = re.match(r'debug (\S+) => (.*);$', s)
        if m and cur is None:
            f.debug[m.group(1)] = m.group(2)
            f.debug_all.append((m.group(1), m.group(2)))
            continue
        m = re.match(r'bb(\d+)( \(cleanup\))?: \{$', s)
        if m:
            cur = int(m.group(1))
            stmts = []
            continue
        if cur is not None:
            if s == '}':
                # last statement is the terminator
                if stmts:
                    term = parse_terminator(stmts[-1])
                    body = [parse_statement(x) for x in stmts[:-1]]
                else:
                    term, body = ('unsupported', 'empty block'), []
                f.blocks[cur] = (body, term)
                cur = None
                continue
            stmts.append(s)
    return f


class MirIndex:
    """index of `fn` items in a (large) MIR dump; bodies are parsed on demand."""

    def __init__(self, path):
        self.path = path
        self.offsets = []     # (name_line, start, end)
        self.by_name = {}
        self.closures = {}
        self._cache = {}
        with open(path, 'rb') as fh:
            data = fh.read()
        self.data = data
        starts = [m.start() for m in re.finditer(rb'^fn ', data, re.M)]
        for k, st in enumerate(starts):
            # body ends at the first "\n}\n" after start
            e = data.find(b'\n}\n', st)
            if e < 0:
                e = len(data)
            nl = data.find(b'\n', st)
            header = data[st:nl].decode('utf-8', 'replace')
            self.offsets.append((header, st, e + 2))
        for idx, (header, st, e) in enumerate(self.offsets):
            nm = header_name(header)
            self.by_name.setdefault(nm, []).append(idx)
            base = nm.rsplit('::', 1)[-1] if not nm.endswith('}') else None
            m = re.match(r'fn .*?\(_1: &?(?:mut )?(\{closure@[^}]*\})', header)
            if m and '::{closure#' in nm:
                self.closures.setdefault(m.group(1), []).append(idx)

    def _index_consts(self):
        self.consts = {}
        data = self.data
        # the name may contain an `<impl at file.rs:L:C: L:C>` span, whose ': ' is not the name/type separator
        for m in re.finditer(rb'^(?:const|static(?: mut)?) ((?:[^:\n]|::|:\d+:\d+: \d+:\d+>)+?): ([^\n]*?) = ([^\n]*)$', data, re.M):
            name = m.group(1).decode()
            ty = m.group(2).decode()
            rhs = m.group(3).decode().strip()
            if rhs == '{':
                e = data.find(b'\n}\n', m.end())
                body = data[m.end():e + 2].decode('utf-8', 'replace')
                self.consts.setdefault(name, []).append((ty, None, 'fn %s() -> %s {' % (name, ty) + body))
            else:
                self.consts.setdefault(name, []).append((ty, rhs.rstrip(';'), None))

    def find_const(self, path):
        """named / promoted constant by (possibly partially qualified) path -> (ty, inline_rhs, fn_text)"""
        if not hasattr(self, 'consts'):
            self._index_consts()
        hits = []
        for nm, lst in self.consts.items():
            if nm == path or nm.endswith('::' + path) or path.endswith('::' + nm):
                hits.extend((nm, x) for x in lst)
        if len(hits) == 1:
            return hits[0][1]
        if len(hits) > 1:
            ex = [h for h in hits if h[0] == path]
            if len(ex) == 1:
                return ex[0][1]
            # all identical inline values are fine
            vals = {h[1][1] for h in hits}
            if len(vals) == 1 and None not in vals:
                return hits[0][1]
        return None

    def get(self, idx):
        if idx not in self._cache:
            header, st, e = self.offsets[idx]
            self._cache[idx] = parse_function(self.data[st:e].decode('utf-8', 'replace'))
        return self._cache[idx]

    def find(self, suffix, param_tys=None, first_param=None):
        """all functions whose name == suffix or ends with '::'+suffix."""
        res = []
        for nm, idxs in self.by_name.items():
            if nm == suffix or nm.endswith('::' + suffix):
                for i in idxs:
                    res.append(i)
        out = []
        for i in res:
            header = self.offsets[i][0]
            if first_param is not None:
                m = re.search(r'\(_1: ([^,)]*(?:<[^()]*>)?[^,)]*)', header)
                if not m or first_param not in header.split('(_1: ', 1)[-1].split(', _2: ')[0].split(') ->')[0]:
                    continue
            if param_tys is not None:
                f = self.get(i)
                if [t for _, t in f.params] != param_tys:
                    continue
            out.append(i)
        return out


def header_name(header):
    depth = 0
    i = 3
    while i < len(header):
        c = header[i]
        if c in '<{[':
            depth += 1
        elif c in '}]':
            depth -= 1
        elif c == '>' and header[i - 1] not in '-=':
            depth -= 1
        elif c == '(' and depth == 0 and (header.startswith('(_1: ', i) or header.startswith('()', i)):
            return header[3:i].strip()
        elif c == '(':
            depth += 1
        elif c == ')':
            depth -= 1
        i += 1
    return header[3:].strip()
