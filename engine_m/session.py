"""Check session: (re)builds the MIR dump and the native oracle from /repo's working tree,
runs obligations, replays counterexamples natively, writes evidence."""
import os, sys, json, time, hashlib, subprocess, fcntl, random, re, shutil
import z3
from . import mir as M
from . import exec as X
from .decls import Decls

REPO = os.environ.get('VERIF_REPO', '/repo')
VERIF = os.path.dirname(os.path.dirname(os.path.abspath(__file__)))
CACHE = os.path.join(VERIF, '.cache')
NIGHTLY = os.environ.get('VERIF_NIGHTLY', 'nightly')

CRATE_DEPS = {
    'lightning': ['lightning', 'lightning-types', 'lightning-invoice', 'lightning-macros'],
    'lightning-invoice': ['lightning-invoice', 'lightning-types'],
    'lightning-types': ['lightning-types'],
    'lightning-block-sync': ['lightning-block-sync'],
}
CRATE_FEATURES = {'lightning': ['--features', '_verif'], 'lightning-invoice': ['--features', 'std'],
                  'lightning-types': [], 'lightning-block-sync': []}


def src_hash(crates):
    h = hashlib.sha256()
    for c in crates:
        root = os.path.join(REPO, c)
        for dp, dn, fn in sorted(os.walk(root)):
            dn[:] = sorted(d for d in dn if d not in ('target', '.git'))
            for f in sorted(fn):
                if f.endswith('.rs') or f == 'Cargo.toml':
                    p = os.path.join(dp, f)
                    h.update(p.encode())
                    with open(p, 'rb') as fh:
                        h.update(fh.read())
    lock = os.path.join(REPO, 'Cargo.lock')
    if os.path.exists(lock):
        h.update(open(lock, 'rb').read())
    return h.hexdigest()[:20]


class Lock:
    def __init__(self, name):
        os.makedirs(CACHE, exist_ok=True)
        self.path = os.path.join(CACHE, name + '.lock')

    def __enter__(self):
        self.fh = open(self.path, 'w')
        fcntl.flock(self.fh, fcntl.LOCK_EX)
        return self

    def __exit__(self, *a):
        fcntl.flock(self.fh, fcntl.LOCK_UN)
        self.fh.close()


def run(cmd, cwd=None, env=None, timeout=None, stdout=None):
    e = dict(os.environ)
    e['CARGO_NET_OFFLINE'] = 'true'
    if env:
        e.update(env)
    return subprocess.run(cmd, cwd=cwd, env=e, timeout=timeout, stdout=stdout or subprocess.PIPE,
                          stderr=subprocess.PIPE, text=(stdout is None))


def ensure_mir(crate='lightning', log=print):
    """dump the crate's MIR for the current working tree (cached by source hash)"""
    h = src_hash(CRATE_DEPS[crate])
    d = os.path.join(CACHE, 'mir')
    os.makedirs(d, exist_ok=True)
    path = os.path.join(d, '%s-%s.mir' % (crate, h))
    if os.path.exists(path) and os.path.getsize(path) > 1000:
        return path, h, 0.0
    with Lock('mir-' + crate):
        if os.path.exists(path) and os.path.getsize(path) > 1000:
            return path, h, 0.0
        t = time.time()
        for old in os.listdir(d):
            if re.fullmatch(re.escape(crate) + r'-[0-9a-f]+\.mir', old):      # (not another crate whose name starts the same)
                os.remove(os.path.join(d, old))
        tdir = os.path.join(CACHE, 'mir-target')
        cmd = ['cargo', '+' + NIGHTLY, 'rustc', '--offline', '--lib'] + CRATE_FEATURES[crate] + \
              ['--target-dir', tdir, '--', '-Zunpretty=mir', '-C', 'debug-assertions=on', '-C', 'overflow-checks=on',
               '-Awarnings']
        for attempt in range(2):
            tmp = path + '.tmp'
            with open(tmp, 'wb') as out:
                r = run(cmd, cwd=os.path.join(REPO, crate), stdout=out)
            if r.returncode != 0:
                raise BuildError('MIR dump of %s failed:\n%s' % (crate, (r.stderr or b'').decode('utf-8', 'replace')[-3000:]))
            if os.path.getsize(tmp) > 1000:
                os.rename(tmp, path)
                break
            # cargo considered the crate fresh and did not re-run rustc: drop its fingerprint
            fp = os.path.join(tdir, 'debug', '.fingerprint')
            if os.path.isdir(fp):
                for x in os.listdir(fp):
                    if x.startswith(crate.replace('-', '_') + '-') or x.startswith(crate + '-'):
                        shutil.rmtree(os.path.join(fp, x), ignore_errors=True)
        else:
            raise BuildError('MIR dump of %s is empty' % crate)
        log('[build] MIR dump of %s: %.1fs, %d bytes' % (crate, time.time() - t, os.path.getsize(path)))
        return path, h, time.time() - t


class BuildError(Exception):
    pass


def ensure_oracle(profile='debug', log=print, which='oracle'):
    """build the native oracle against /repo's working tree; returns the binary path.
    which='oracle' (hook wrappers) or 'oracle_tu' (probes needing real nodes, built with lightning's
    functional test utilities)"""
    tdir = os.path.join(CACHE, 'oracle-target' if which == 'oracle' else 'oracle-tu-target')
    with Lock(which):
        t = time.time()
        hd = os.path.join(VERIF, 'harness' if which == 'oracle' else 'harness_tu')
        lock_src = os.path.join(REPO, 'Cargo.lock')
        lock_dst = os.path.join(hd, 'Cargo.lock')
        if not os.path.exists(lock_dst):
            shutil.copy(lock_src, lock_dst)
        cmd = ['cargo', 'build', '--offline', '--bin', which] + (['--release'] if profile == 'release' else [])
        r = run(cmd, cwd=hd, env={'CARGO_TARGET_DIR': tdir, 'RUSTFLAGS': '-Awarnings'})
        if r.returncode != 0:
            raise BuildError('oracle build failed:\n' + r.stderr[-3000:])
        dt = time.time() - t
        if dt > 5:
            log('[build] %s (%s): %.1fs' % (which, profile, dt))
    return os.path.join(tdir, profile, which)


class Oracle:
    def __init__(self, path):
        self.path = path

    def call(self, lines):
        if not lines:
            return []
        out = []
        rest = list(lines)
        guard = 0
        while rest:
            r = subprocess.run([self.path], input='\n'.join(rest) + '\n', stdout=subprocess.PIPE,
                               stderr=subprocess.PIPE, text=True, timeout=600)
            got = [ln for ln in r.stdout.split('\n') if ln.startswith(('ok', 'panic', 'error'))]
            out.extend(got[:len(rest)])
            if len(got) >= len(rest):
                break
            # the process died on request number len(got) (abort: panic inside drop / double panic)
            out.append('panic (process aborted, rc=%s)' % r.returncode)
            rest = rest[len(got) + 1:]
            guard += 1
            if guard > 200:
                raise BuildError('oracle keeps aborting: ' + r.stderr[-500:])
        return out


# ---------------------------------------------------------------------------

class Binding:
    """connects an encoded function call to the native oracle.
    name: oracle function; args: z3 constants in CLI order; outs: list of z3 terms (Int/Bool)
    that the oracle output, once parsed by `parse`, must equal; panic: z3 Bool = encoding's
    'this call panics (dev profile)' condition."""

    def __init__(self, name, args, outs, parse=None, panic=False, domain=None, interesting=None, line_fn=None, which='oracle', via_solver=False):
        self.name, self.args, self.outs, self.panic = name, args, outs, panic
        self.via_solver = via_solver      # translator validation evaluates the encoding through the solver (outputs depend on symbols that are not arguments)
        self.which = which
        self.line_fn = line_fn
        self.parse = parse or (lambda toks: [int(t) for t in toks])
        self.domain = domain            # optional: list of (lo, hi) per arg for validation sampling
        self.interesting = interesting or []

    def line(self, vals):
        if self.line_fn is not None:
            return self.name + ' ' + self.line_fn([int(v) for v in vals])
        return self.name + ' ' + ' '.join(str(int(v)) for v in vals)


def const_val(v):
    if z3.is_true(v):
        return 1
    if z3.is_false(v):
        return 0
    if z3.is_int_value(v):
        return v.as_long()
    return None


def subst_eval(term, syms, vals):
    if isinstance(term, (int, bool)):
        return int(term)
    sub = []
    for s, v in zip(syms, vals):
        sub.append((s, z3.BoolVal(bool(v)) if z3.is_bool(s) else z3.IntVal(int(v))))
    r = z3.simplify(z3.substitute(X.zint(term) if not z3.is_bool(term) else term, *sub))
    cv = const_val(r)
    return cv


class Session:
    def __init__(self, prop, tier='quick', seed=0, log=None):
        self.prop, self.tier, self.seed = prop, tier, seed
        self.t0 = time.time()
        self.log = log or (lambda s: print(s, flush=True))
        self.records = []          # per obligation
        self.violations = []
        self.inconclusive = []
        self.known = []
        self.validated = 0
        self.queries = 0
        self.solver_s = 0.0
        self.build_s = 0.0
        self._mir = {}
        self._decls = None
        self._oracle = None
        self.functions = {}
        self.rng = random.Random(seed)
        self.query_timeout = int(os.environ.get('VERIF_QUERY_TIMEOUT', '300' if tier == 'quick' else '1200'))
        self.known_findings = load_known_findings()

    # -- builds ----------------------------------------------------------
    def mir(self, crate='lightning'):
        if crate not in self._mir:
            path, h, dt = ensure_mir(crate, self.log)
            self.build_s += dt
            self._mir[crate] = (M.MirIndex(path), h)
        return self._mir[crate][0]

    def decls(self):
        if self._decls is None:
            self._decls = Decls([os.path.join(REPO, c, 'src') for c in ('lightning', 'lightning-types', 'lightning-invoice', 'lightning-block-sync')])
        return self._decls

    def oracle(self):
        if self._oracle is None:
            t = time.time()
            self._oracle = Oracle(ensure_oracle('debug', self.log))
            self.build_s += time.time() - t
        return self._oracle

    def oracle_tu(self):
        if getattr(self, '_oracle_tu', None) is None:
            t = time.time()
            self._oracle_tu = Oracle(ensure_oracle('debug', self.log, which='oracle_tu'))
            self.build_s += time.time() - t
        return self._oracle_tu

    def engine(self, crate='lightning', unwind=8):
        E = X.Engine(self.mir(crate), self.decls(), unwind=unwind)
        self._engines = getattr(self, '_engines', [])
        self._engines.append(E)
        return E

    def fn(self, name, crate='lightning', first_param=None, nargs=None, contains=None):
        ix = self.mir(crate)
        c = ix.find(name)
        c = [i for i in c if M.header_name(ix.offsets[i][0]).split('::')[-1] == name.split('::')[-1]]
        c = [i for i in c if 'verif_hooks' not in M.header_name(ix.offsets[i][0]) or 'verif_hooks' in name]
        if first_param is not None:
            c = [i for i in c if first_param in (ix.get(i).params[0][1] if ix.get(i).params else '')]
        if nargs is not None:
            c = [i for i in c if ix.get(i).nargs == nargs]
        if contains is not None:
            c = [i for i in c if contains in ix.offsets[i][0]]
        if len(c) != 1:
            raise Inconclusive('function %s: %d candidates in the MIR dump' % (name, len(c)))
        return ix.get(c[0])

    def call(self, E, f, args, mem, guard=True):
        """execute f symbolically; returns its (merged) return value"""
        r = E.call_fn(f, args, guard, mem)
        if r is X.DIVERGE:
            raise Inconclusive('%s: no return reached (%s)' % (f.name, '; '.join(w for g, w in E.unsupported)[:600]))
        self.ret_guard = X.zbool(r[1])      # condition under which the call returns (does not panic)
        return r[0]

    def _skip(self, oid):
        only = os.environ.get('VERIF_ONLY')
        return bool(only) and not re.search(only, self._oid(oid))

    def _oid(self, oid):
        """obligation groups shared between properties are re-labelled per property (S.alias)"""
        for a, b in getattr(self, 'alias', {}).items():
            if oid.startswith(a):
                return b + oid[len(a):]
        return oid

    # -- solving ---------------------------------------------------------
    def _solver(self, E, pre, timeout=None):
        s = z3.Solver()
        self._cur_timeout = (timeout or self.query_timeout)
        for a in E.assumptions:
            s.add(a)
        for p in pre:
            if p is True:
                continue
            s.add(X.zbool(p))
        return s

    def _check(self, s, cases=None):
        """decide the assertions of solver s (optionally once per extra case assertion, in parallel)
        in FRESH z3 contexts inside worker processes, so that verdict and time do not depend on
        what was solved before; small portfolio of seeds / arithmetic cores per query.
        Returns (verdict, seconds): unsat only if every case is unsat; sat as soon as one is."""
        t = time.time()
        budget = self._cur_timeout
        if cases:
            smts = []
            for c in cases:
                s.push()
                s.add(X.zbool(c))
                smts.append(s.to_smt2())
                s.pop()
        else:
            smts = [s.to_smt2()]
        self._model = None
        confirm = (self.tier == 'thorough' and not os.environ.get('VERIF_NO_CVC5'))
        results = solve_many(smts, budget, confirm=confirm)
        # an `unknown` is retried once in fresh processes: in `vp check` 4 a query that takes 0.1 s came back
        # unknown after the full budget in every portfolio member (worker start-up hang, not solver difficulty)
        redo = [i for i, (v, _) in enumerate(results) if v not in ('sat', 'unsat', 'disagree')]
        if redo and not any(v == 'sat' for v, _ in results):
            self.retried = getattr(self, 'retried', 0) + len(redo)
            again = solve_many([smts[i] for i in redo], budget, confirm=confirm)
            for i, r in zip(redo, again):
                results[i] = r
        so = getattr(solve_many, 'second_opinions', None)
        if so:
            self.second_agree = getattr(self, 'second_agree', 0) + so['agree']
            self.second_none = getattr(self, 'second_none', 0) + so['none']
        r = z3.unsat
        for (v, model) in results:
            if v == 'sat':
                r = z3.sat
                self._model = DictModel(model)
                break
            if v == 'disagree':
                self.inconclusive.append('solver disagreement: one of z3 / cvc5 answered unsat, the other sat')
                r = z3.unknown
            elif v != 'unsat':
                r = z3.unknown
        dt = time.time() - t
        self.solver_s += dt
        self.queries += len(smts)
        return r, dt

    def _side_conditions(self, oid, E, pre, rec):
        """unsupported constructs / unwinding limits reachable under pre make the obligation inconclusive"""
        ok = True
        for (g, why) in E.unsupported:
            s = self._solver(E, pre, 30)
            s.add(X.zbool(g))
            r, dt = self._check(s)
            if r != z3.unsat:
                self.inconclusive.append('%s: unsupported construct reachable: %s' % (oid, why[:300]))
                rec.setdefault('unsupported', []).append(why[:300])
                ok = False
                break
        for (g, where) in E.unwinds:
            s = self._solver(E, pre, 60)
            s.add(X.zbool(g))
            r, dt = self._check(s)
            if r != z3.unsat:
                self.inconclusive.append('%s: unwinding bound %d too small at %s' % (oid, E.unwind, where))
                rec.setdefault('unwinding', []).append(where)
                ok = False
                break
        return ok

    def _record(self, oid, kind, desc, E, verdict, dt, extra=None):
        oid = self._oid(oid)
        rec = {'obligation': oid, 'kind': kind, 'desc': desc, 'verdict': verdict, 'solver_s': round(dt, 3),
               'functions': sorted(E.encoded) if E is not None else [], 'unwind': E.unwind if E else None}
        if extra:
            rec.update(extra)
        self.records.append(rec)
        self.log('  [%s] %-28s %-12s %.2fs  %s' % (self.prop, oid, verdict, dt, desc[:80]))
        return rec

    def prove(self, oid, E, pre, claim, desc='', bindings=(), bounds=None, assumptions=None, split=None, given_no_panic=False):
        """claim must hold for every input satisfying pre.  split: optional list of extra
        preconditions that together cover pre (case split; the caller states the cover)"""
        if self._skip(oid):
            return True
        oid = self._oid(oid)
        s = self._solver(E, pre)
        if given_no_panic:
            # functional claim about panic-free executions; panic-freedom itself is a separate obligation
            for (g, m, w) in E.panics:
                s.add(z3.Not(X.zbool(g)))
        s.add(z3.Not(X.zbool(claim)))
        if split:
            # the cases must cover: pre and none of the cases is unsat
            s2 = self._solver(E, pre)
            s2.add(z3.Not(z3.Or(*[X.zbool(c) for c in split])))
            r, dt0 = self._check(s2)
            if r != z3.unsat:
                self._record(oid, 'prove', desc, E, 'inconclusive', dt0)
                self.inconclusive.append('%s: case split does not cover the precondition' % oid)
                return False
            r, dt = self._check(s, cases=split)
            dt += dt0
        else:
            r, dt = self._check(s)
        extra = {'bounds': bounds or '', 'pre': assumptions or []}
        if r == z3.unsat:
            rec = self._record(oid, 'prove', desc, E, 'holds', dt, extra)
            if not self._side_conditions(oid, E, pre, rec):
                rec['verdict'] = 'inconclusive'
            return True
        if r == z3.unknown:
            self._record(oid, 'prove', desc, E, 'inconclusive', dt, extra)
            self.inconclusive.append('%s: solver returned unknown (timeout %ds)' % (oid, self._cur_timeout))
            return False
        model = self._model
        rec = self._record(oid, 'prove', desc, E, 'counterexample', dt, extra)
        self._handle_cex(oid, E, model, bindings, rec, desc)
        return False

    def no_panic(self, oid, E, pre, desc='', bindings=(), bounds=None, assumptions=None, only=None, split=None):
        """no panic (overflow check, unwrap, assert, index) is reachable under pre"""
        if self._skip(oid):
            return True
        oid = self._oid(oid)
        panics = [p for p in E.panics if only is None or only(p)]
        extra = {'bounds': bounds or '', 'pre': assumptions or [], 'panic_sites': len(panics)}
        if not panics:
            rec = self._record(oid, 'no_panic', desc, E, 'holds', 0.0, extra)
            if not self._side_conditions(oid, E, pre, rec):
                rec['verdict'] = 'inconclusive'
            return True
        s = self._solver(E, pre)
        # one query per group of panic sites (and per case of the split): each is small and targeted
        groups = [panics[k:k + 6] for k in range(0, len(panics), 6)]
        gcases = [z3.Or(*[X.zbool(g) for (g, m, w) in grp]) for grp in groups]
        if split:
            s2 = self._solver(E, pre)
            s2.add(z3.Not(z3.Or(*[X.zbool(c) for c in split])))
            r0, dt0 = self._check(s2)
            if r0 != z3.unsat:
                self._record(oid, 'no_panic', desc, E, 'inconclusive', dt0)
                self.inconclusive.append('%s: case split does not cover the precondition' % oid)
                return False
            allcases = [z3.And(X.zbool(c), gc) for c in split for gc in gcases]
        else:
            allcases = gcases
        r, dt = self._check(s, cases=allcases)
        extra['queries'] = len(allcases)
        if r == z3.unsat:
            rec = self._record(oid, 'no_panic', desc, E, 'holds', dt, extra)
            if not self._side_conditions(oid, E, pre, rec):
                rec['verdict'] = 'inconclusive'
            return True
        if r == z3.unknown:
            self._record(oid, 'no_panic', desc, E, 'inconclusive', dt, extra)
            self.inconclusive.append('%s: solver returned unknown' % oid)
            return False
        model = self._model
        which = [m + ' in ' + w for (g, m, w) in panics if z3.is_true(model.eval(X.zbool(g), model_completion=True))]
        rec = self._record(oid, 'no_panic', desc + ' :: ' + '; '.join(which)[:200], E, 'counterexample', dt, extra)
        self._handle_cex(oid, E, model, bindings, rec, desc, expect_panic=True)
        return False

    def witness(self, oid, E, pre, cond=True, desc='reachability witness'):
        """vacuity guard: pre (and cond) must be satisfiable"""
        if self._skip(oid):
            return True
        oid = self._oid(oid)
        s = self._solver(E, pre)          # same budget as the obligations: the first sat answer ends the query
        s.add(X.zbool(cond))
        r, dt = self._check(s)
        if r == z3.sat:
            self._record(oid, 'witness', desc, E, 'sat', dt)
            return True
        self._record(oid, 'witness', desc, E, 'vacuous' if r == z3.unsat else 'inconclusive', dt)
        self.inconclusive.append('%s: vacuity witness not satisfiable (%s)' % (oid, r))
        return False

    def _cross_check(self, oid, s, rec):
        if self.tier != 'thorough' or os.environ.get('VERIF_NO_CVC5'):
            return
        d = os.path.join(CACHE, 'smt')
        os.makedirs(d, exist_ok=True)
        path = os.path.join(d, '%s-%s.smt2' % (self.prop, re.sub(r'[^\w.]', '_', oid)))
        with open(path, 'w') as fh:
            fh.write('(set-logic ALL)\n' + s.to_smt2())
        t = time.time()
        try:
            r = subprocess.run(['cvc5', '--lang', 'smt2', '--tlimit=%d' % (120 * 1000), path], stdout=subprocess.PIPE,
                               stderr=subprocess.PIPE, text=True, timeout=150)
            out = (r.stdout + r.stderr).strip().split('\n')[0] if (r.stdout + r.stderr).strip() else ''
        except subprocess.TimeoutExpired:
            out = 'timeout'
        dt = time.time() - t
        self.solver_s += dt
        rec['cvc5'] = out[:40]
        rec['cvc5_s'] = round(dt, 2)
        if out.startswith('sat'):
            self.inconclusive.append('%s: z3 says unsat, cvc5 says sat' % oid)
            rec['verdict'] = 'inconclusive'

    # -- counterexamples ---------------------------------------------------
    def _handle_cex(self, oid, E, model, bindings, rec, desc, expect_panic=False):
        inputs = {}
        for name, v in model.items():
            if '!' not in name:
                inputs[name] = int(v)
        rec['model'] = inputs
        calls = []
        reproduced = True if bindings else None
        why = ''
        for b in bindings:
            vals = []
            for a in b.args:
                cv = const_val(model.eval(a, model_completion=True))
                vals.append(cv if cv is not None else 0)
            line = b.line(vals)
            out = (self.oracle() if b.which == 'oracle' else self.oracle_tu()).call([line])[0]
            exp_panic = z3.is_true(model.eval(X.zbool(b.panic), model_completion=True)) if b.panic is not False else False
            expected = None
            if out.startswith('panic'):
                got = 'panic'
                agree = exp_panic
            elif out.startswith('ok'):
                got = b.parse(out.split()[1:])
                expected = [None if o is None else const_val(model.eval(X.zint(o) if not (isinstance(o, bool) or z3.is_bool(o)) else X.zbool(o), model_completion=True)) for o in b.outs]
                agree = (not exp_panic) and all(g is None or e is None or g == e for g, e in zip(got, expected))
            else:
                got, agree = out, False
            calls.append({'oracle_line': line, 'native_output': out, 'encoding_expected': 'panic' if exp_panic else expected, 'oracle': b.which})
            if not agree:
                reproduced = False
                why = 'native output %s differs from the encoding (%s) for `%s`' % (out, 'panic' if exp_panic else expected, line)
        rec['replay'] = calls
        oid = self._oid(oid)
        key = '%s %s' % (self.prop, oid)
        if reproduced:
            known = [k for k in self.known_findings if k['property'] == self.prop and k['obligation'] == oid and k['kind'] == 'finding']
            if known:
                rec['verdict'] = 'known-finding'
                self.known.append((oid, known[0]['what']))
                return
            os.makedirs(os.path.join(VERIF, 'replays'), exist_ok=True)
            path = os.path.join(VERIF, 'replays', '%s-%s.json' % (self.prop, re.sub(r'[^\w.]', '_', oid)))
            with open(path, 'w') as fh:
                json.dump({'property': self.prop, 'obligation': oid, 'claim': desc, 'inputs': inputs, 'calls': calls,
                           'how': 'each oracle_line is fed to the native oracle (harness/src/bin/oracle.rs, dev profile) which calls the real function; native_output is what the real code returned and it falsifies the claim'}, fh, indent=1)
            rec['replay_file'] = path
            self.violations.append((oid, path))
        else:
            rec['verdict'] = 'inconclusive'
            self.inconclusive.append('%s: counterexample did not reproduce natively (%s)' % (oid, why or 'no oracle binding'))

    # -- translator validation ----------------------------------------------
    def validate(self, oid, E, b, n=None, extra_vectors=()):
        """push concrete vectors through both the encoding and the native build"""
        if self._skip(oid):
            return True
        oid = self._oid(oid)
        if self._skip(oid):
            return True
        oid = self._oid(oid)
        n = n or (200 if self.tier == 'quick' else 1000)
        vecs = [list(v) for v in extra_vectors]
        doms = b.domain or [(0, (1 << 64) - 1)] * len(b.args)
        consts = sorted(set(b.interesting) | {0, 1, 2, 253, 999, 1000, 1001, 65535, 65536, (1 << 31) - 1, 1 << 31, (1 << 32) - 1, 1 << 32, (1 << 63), (1 << 64) - 1})
        while len(vecs) < n:
            v = []
            for (lo, hi) in doms:
                k = self.rng.random()
                if k < 0.35:
                    c = self.rng.choice(consts) + self.rng.choice([-1, 0, 0, 1])
                elif k < 0.6:
                    c = self.rng.randrange(lo, min(hi, lo + 5000) + 1)
                elif k < 0.8:
                    c = self.rng.randrange(lo, hi + 1)
                else:
                    c = int(2 ** (self.rng.random() * 64))
                v.append(max(lo, min(hi, c)))
            vecs.append(v)
        lines = [b.line(v) for v in vecs]
        outs = (self.oracle() if b.which == 'oracle' else self.oracle_tu()).call(lines)
        bad = 0
        sample = None
        compound = b.via_solver or any(not (isinstance(a, (int, bool)) or (z3.is_const(a) and a.decl().kind() == z3.Z3_OP_UNINTERPRETED)) for a in b.args)
        vsolver = None
        if compound:
            # arguments are terms over the encoding's symbols (e.g. If(is_some, 1, 0)): evaluate the encoding
            # on a vector by asking the solver for a state with those argument values
            vsolver = z3.Solver()
            vsolver.set('timeout', 20000)
            for a in E.assumptions:
                vsolver.add(a)
        for v, line, out in zip(vecs, lines, outs):
            # encoding side
            if compound:
                vsolver.push()
                for a, val in zip(b.args, v):
                    if isinstance(a, (int, bool)):
                        continue
                    vsolver.add((a == bool(val)) if z3.is_bool(a) else (a == int(val)))
                r = vsolver.check()
                if r != z3.sat:
                    vsolver.pop()
                    continue
                mdl = vsolver.model()
                vsolver.pop()
                ev = lambda t: const_val(mdl.eval(X.zbool(t) if (isinstance(t, bool) or z3.is_bool(t)) else X.zint(t), model_completion=True))
                ep = ev(b.panic) if b.panic is not False else 0
                if out.startswith('panic'):
                    ok = (ep == 1)
                elif out.startswith('ok'):
                    got = b.parse(out.split()[1:])
                    exp = [None if o is None else ev(o) for o in b.outs]
                    ok = (ep == 0) and all(g is None or e is None or g == e for g, e in zip(got, exp))
                else:
                    ok = False
                self.validated += 1
                if sample is None:
                    sample = {'line': line, 'native': out}
                if not ok:
                    bad += 1
                    self.inconclusive.append('%s: translator validation mismatch on `%s`: native %s, encoding panic=%s outs=%s' % (
                        oid, line, out, ep, [None if o is None else ev(o) for o in b.outs]))
                    if bad >= 3:
                        break
                continue
            feasible = all(subst_eval(a, b.args, v) in (1, None) for a in E.assumptions if _mentions_only(a, b.args))
            if not feasible:
                continue
            ep = subst_eval(b.panic, b.args, v) if b.panic is not False else 0
            if ep is None:
                continue
            if out.startswith('panic'):
                ok = (ep == 1)
            elif out.startswith('ok'):
                got = b.parse(out.split()[1:])
                exp = [None if o is None else subst_eval(o, b.args, v) for o in b.outs]
                ok = (ep == 0) and all(g is None or e is None or g == e for g, e in zip(got, exp))
            else:
                ok = False
            self.validated += 1
            if sample is None:
                sample = {'line': line, 'native': out}
            if not ok:
                bad += 1
                self.inconclusive.append('%s: translator validation mismatch on `%s`: native %s, encoding panic=%s outs=%s' % (
                    oid, line, out, ep, [subst_eval(o, b.args, v) for o in b.outs]))
                if bad >= 3:
                    break
        oid = self._oid(oid)
        self.records.append({'obligation': oid, 'kind': 'translator-validation', 'vectors': len(vecs), 'mismatches': bad,
                             'verdict': 'agree' if bad == 0 else 'mismatch', 'sample': sample, 'oracle_fn': b.name})
        self.log('  [%s] %-28s %-12s vectors=%d mismatches=%d' % (self.prop, oid, 'validate', len(vecs), bad))
        return bad == 0

    # -- finishing ------------------------------------------------------------
    def finish(self, level_note='', trusted=None, assumptions=None, rule=None):
        wall = time.time() - self.t0
        obls = [r for r in self.records if r['kind'] in ('prove', 'no_panic', 'kani')]
        discharged = [r for r in obls if r['verdict'] in ('holds', 'known-finding')]
        wit = [r for r in self.records if r['kind'] == 'witness' and r['verdict'] == 'sat']
        fns = sorted({f for r in self.records for f in r.get('functions', [])})
        m_states = sum(e.stat_states for e in getattr(self, '_engines', []))
        m_edges = sum(e.stat_edges for e in getattr(self, '_engines', []))
        k_states, k_edges = getattr(self, 'k_steps', 0), getattr(self, 'k_vccs', 0)
        ev = {
            'property_id': self.prop, 'tier': self.tier, 'seed': self.seed, 'level': 'model_checking',
            'coverage': {
                'states': m_states + k_states,
                'transitions': m_edges + k_edges,
                'states_transitions_meaning': 'symbolic, not concrete: states = (MIR basic block, loop-unrolling context) instances executed by engine M, '
                                              'each standing for every concrete state that reaches it under its path condition (%d) + CBMC program-expression steps '
                                              'of the Kani harnesses (%d); transitions = control-flow edges followed by engine M (%d) + verification conditions '
                                              'generated by CBMC (%d). The deciding quantity is obligations/discharged below.' % (m_states, k_states, m_edges, k_edges),
                'evaluations': self.queries,
                'distinct_nontrivial': len(discharged),
                'rule': rule or ('each evaluation is one SMT query (z3) over the symbolic execution of the named MIR functions; an obligation is '
                                 'non-trivial when its negated claim was decided unsat with all side conditions (no unsupported construct / '
                                 'unwinding limit reachable) and it is distinct by obligation id; vacuity witnesses must be sat'),
                'obligations': len(obls), 'discharged': len(discharged),
                'vacuity_witnesses_sat': len(wit),
                'traces_validated_against_impl': self.validated,
                'functions_encoded': fns,
                'solver': 'engine M: z3 %s, integer encoding with explicit mod-2^w wrap, fresh context per query, cvc5 1.0 cross-check in the thorough tier; engine K: cargo kani 0.68 / CBMC 6.11 (cadical), unwinding assertions on' % z3.get_version_string(),
                'solver_seconds': round(self.solver_s, 2), 'build_seconds': round(self.build_s, 2),
                'second_solver_confirmed_unsat': getattr(self, 'second_agree', None), 'second_solver_no_answer_in_time': getattr(self, 'second_none', None),
                'checker_cmd': './verif check %s --tier %s' % (self.prop, self.tier),
                'trusted_base': trusted or ['rustc nightly -Zunpretty=mir output for the dev profile', 'engine_m MIR parser/executor and std models (cross-checked by translator validation against the native build)', 'z3'],
                'samples': self.records,
                'exhaustive': False,
                'mir_source_hash': {c: h for c, (ix, h) in self._mir.items()},
            },
            'assumptions': assumptions or [],
            'wall_s': round(wall, 2),
            'violations': len(self.violations),
            'inconclusive': self.inconclusive,
            'known_findings_reported': [k[0] for k in self.known],
        }
        # a filtered run (VERIF_ONLY / VERIF_NO_KANI: development aid) is not evidence for the property: keep the
        # evidence file of the last complete run and write this one to the untracked cache
        partial = bool(os.environ.get('VERIF_ONLY') or os.environ.get('VERIF_NO_KANI'))
        edir = os.path.join(CACHE, 'evidence-partial') if partial else os.path.join(VERIF, 'evidence')
        os.makedirs(edir, exist_ok=True)
        with open(os.path.join(edir, self.prop + '.json'), 'w') as fh:
            json.dump(ev, fh, indent=1, default=str)
        for (oid, what) in self.known:
            print('KNOWN-FINDING: property=%s %s %s' % (self.prop, oid, what))
        if self.violations:
            for oid, path in self.violations:
                print('VIOLATION property=%s replay=%s' % (self.prop, path))
            return 1
        if self.inconclusive:
            for m in self.inconclusive:
                print('INCONCLUSIVE %s: %s' % (self.prop, m))
            return 2
        print('PASS %s tier=%s obligations=%d queries=%d validated_vectors=%d solver=%.1fs wall=%.1fs' % (
            self.prop, self.tier, len(obls), self.queries, self.validated, self.solver_s, wall))
        return 0


class DictModel:
    """model as {constant name: int/bool}; evaluation by substitution (missing constants default
    to 0 / False, i.e. model completion)"""

    def __init__(self, d):
        self.d = d

    def eval(self, term, model_completion=True):
        if isinstance(term, (int, bool)):
            return z3.IntVal(int(term)) if not isinstance(term, bool) else z3.BoolVal(term)
        consts = {}

        def walk(t):
            if z3.is_const(t) and t.decl().kind() == z3.Z3_OP_UNINTERPRETED:
                consts[t.decl().name()] = t
                return
            for c in t.children():
                walk(c)
        seen = set()

        def walk2(t):
            if t.get_id() in seen:
                return
            seen.add(t.get_id())
            if z3.is_const(t) and t.decl().kind() == z3.Z3_OP_UNINTERPRETED:
                consts[t.decl().name()] = t
                return
            for c in t.children():
                walk2(c)
        walk2(term)
        sub = []
        for n, c in consts.items():
            v = self.d.get(n, 0)
            sub.append((c, z3.BoolVal(bool(v)) if z3.is_bool(c) else z3.IntVal(int(v))))
        return z3.simplify(z3.substitute(term, *sub)) if sub else z3.simplify(term)

    def items(self):
        return self.d.items()


def _z3_variant(smt, budget, seed, arith, q, tag):
    import z3 as Z
    try:
        os.setpgrp()
        ctx = Z.Context()
        s2 = Z.Solver(ctx=ctx)
        s2.set('timeout', int(budget * 1000))
        s2.set('random_seed', seed)
        if arith is not None:
            s2.set('arith.solver', arith)
        s2.from_string(smt)
        r0 = s2.check()
        if r0 == Z.sat:
            m = s2.model()
            out = {}
            for d in m.decls():
                if d.arity() != 0:
                    continue
                v = m[d]
                if Z.is_true(v):
                    out[d.name()] = True
                elif Z.is_false(v):
                    out[d.name()] = False
                elif Z.is_int_value(v):
                    out[d.name()] = v.as_long()
            q.send((tag, 'sat', out))
        elif r0 == Z.unsat:
            q.send((tag, 'unsat', None))
        else:
            q.send((tag, 'unknown', None))
    except Exception as e:          # pragma: no cover
        try:
            q.send((tag, 'unknown', str(e)))
        except Exception:
            pass


def _cvc5_variant(smt, budget, q, tag):
    """cvc5 1.0 on the same SMT-LIB text; only an `unsat` answer is used (no model parsing)"""
    import tempfile
    try:
        os.setpgrp()          # so that killing this worker's group also kills the cvc5 child
        with tempfile.NamedTemporaryFile('w', suffix='.smt2', delete=False, dir=CACHE) as fh:
            fh.write('(set-logic ALL)\n' + smt)
            path = fh.name
        r = subprocess.run(['cvc5', '--lang', 'smt2', '--tlimit=%d' % int(budget * 1000), path], stdout=subprocess.PIPE,
                           stderr=subprocess.PIPE, text=True, timeout=budget + 10)
        out = (r.stdout or '').strip().split('\n')[0] if (r.stdout or '').strip() else ''
        os.unlink(path)
        if out == 'unsat' and '(error' not in (r.stdout + r.stderr):
            q.send((tag, 'unsat', None))
        elif out == 'sat' and '(error' not in (r.stdout + r.stderr):
            q.send((tag, 'cvc5-sat', None))
        else:
            q.send((tag, 'unknown', None))
    except Exception:
        try:
            q.send((tag, 'unknown', None))
        except Exception:
            pass


def _kill_group(p):
    import signal
    try:
        os.killpg(p.pid, signal.SIGKILL)
    except Exception:
        try:
            p.kill()
        except Exception:
            pass


VARIANTS = [('z3', 0, None), ('cvc5', None, None), ('z3', 11, 2), ('z3', 5, 6)]


def solve_many(smts, budget, confirm=False):
    """decide every SMT-LIB query with a parallel portfolio (z3 with different seeds / arithmetic
    cores, cvc5 for unsat); each query runs in fresh processes so verdicts do not depend on history.
    Returns [(verdict, model-dict or None)] with verdict in sat / unsat / unknown."""
    import multiprocessing as mp
    ctx = mp.get_context('fork')
    maxproc = int(os.environ.get('VERIF_JOBS', '12'))
    nvar = len(VARIANTS) if len(smts) * len(VARIANTS) <= 4 * maxproc else 2
    # one pipe per worker: a shared multiprocessing.Queue has a shared write lock, and a sibling that is
    # SIGKILLed while holding it (we kill the losers of the portfolio) blocks every later result of the call
    from multiprocessing.connection import wait as conn_wait
    conns = {}            # tag -> parent end of the worker's pipe
    pending = []          # (query idx, variant idx)
    for v in range(nvar):
        for i in range(len(smts)):
            pending.append((i, v))
    running = {}          # tag -> (process, start)
    result = [None] * len(smts)
    second = [None] * len(smts)       # confirm mode: what the *other* solver said about an unsat verdict
    decided_by = [None] * len(smts)
    decided_at = [None] * len(smts)
    unknowns = [0] * len(smts)
    started = [None] * len(smts)

    def launch(i, v):
        kind, seed, arith = VARIANTS[v]
        tag = (i, v)
        rx, tx = ctx.Pipe(duplex=False)
        if kind == 'z3':
            p = ctx.Process(target=_z3_variant, args=(smts[i], budget, seed, arith, tx, tag))
        else:
            p = ctx.Process(target=_cvc5_variant, args=(smts[i], budget, tx, tag))
        p.daemon = True
        p.start()
        tx.close()
        running[tag] = (p, time.time())
        conns[tag] = rx

    def kill_query(i):
        for tag in [t for t in running if t[0] == i]:
            p, _ = running.pop(tag)
            _kill_group(p)
            c = conns.pop(tag, None)
            if c is not None:
                c.close()
    def open_confirmations():
        if not confirm:
            return False
        now = time.time()
        for i in range(len(smts)):
            if result[i] is not None and result[i][0] == 'unsat' and second[i] is None:
                if (any(t[0] == i for t in running) or any(a == i for (a, b) in pending)) and now - decided_at[i] < 90:
                    return True
        return False
    while ((pending or running) and any(r is None for r in result)) or open_confirmations():
        while pending and len(running) < maxproc:
            i, v = pending.pop(0)
            if result[i] is None or (confirm and result[i][0] == 'unsat' and second[i] is None and VARIANTS[v][0] != decided_by[i]):
                launch(i, v)
        msg = None
        ready = conn_wait([conns[t] for t in running if t in conns], timeout=1.0) if running else []
        for c in ready:
            t = [k for k, v in conns.items() if v is c][0]
            try:
                msg = c.recv()
            except (EOFError, OSError):
                msg = (t, 'unknown', None)          # the worker died without an answer
            c.close()
            conns.pop(t, None)
            break
        if msg is None:
            # reap timed-out workers
            now = time.time()
            for tag in list(running):
                p, t0 = running[tag]
                if now - t0 > budget + 30:
                    running.pop(tag)
                    _kill_group(p)
                    c = conns.pop(tag, None)
                    if c is not None:
                        c.close()
                    i = tag[0]
                    unknowns[i] += 1
                    if result[i] is None and unknowns[i] >= nvar:
                        result[i] = ('unknown', None)
            continue
        tag, verdict, model = msg
        i = tag[0]
        if tag in running:
            running.pop(tag)[0].join(timeout=1)
        kind = VARIANTS[tag[1]][0]
        if result[i] is not None:
            # confirm mode: a second opinion on an already decided query
            if confirm and result[i][0] == 'unsat' and kind != decided_by[i] and second[i] is None and verdict in ('unsat', 'sat', 'cvc5-sat'):
                second[i] = verdict
                kill_query(i)
            continue
        if verdict == 'cvc5-sat':
            verdict = 'unknown'       # cvc5 models are not parsed; wait for z3 to produce one
        if verdict in ('sat', 'unsat'):
            result[i] = (verdict, model)
            decided_by[i], decided_at[i] = kind, time.time()
            if confirm and verdict == 'unsat':
                # keep the other solver family running for a second opinion, drop same-family variants
                for t in [t for t in running if t[0] == i and VARIANTS[t[1]][0] == kind]:
                    _kill_group(running.pop(t)[0])
                    c = conns.pop(t, None)
                    if c is not None:
                        c.close()
            else:
                kill_query(i)
            pending[:] = [(a, b) for (a, b) in pending if a != i or (confirm and verdict == 'unsat' and VARIANTS[b][0] != kind)]
        else:
            unknowns[i] += 1
            if unknowns[i] >= nvar:
                result[i] = ('unknown', None)
    for tag in list(running):
        _kill_group(running[tag][0])
    for c in conns.values():
        c.close()
    # stale temp files of killed cvc5 workers
    for fn in os.listdir(CACHE):
        if fn.startswith('tmp') and fn.endswith('.smt2'):
            try:
                if time.time() - os.path.getmtime(os.path.join(CACHE, fn)) > 3600:
                    os.unlink(os.path.join(CACHE, fn))
            except OSError:
                pass
    out = []
    for i, r in enumerate(result):
        if r is None:
            out.append(('unknown', None))
        elif confirm and r[0] == 'unsat' and second[i] in ('sat', 'cvc5-sat'):
            out.append(('disagree', None))
        else:
            out.append(r)
    solve_many.second_opinions = {'agree': sum(1 for x in second if x == 'unsat'), 'none': sum(1 for i, x in enumerate(second) if x is None and result[i] and result[i][0] == 'unsat')}
    return out


class Inconclusive(Exception):
    pass


def _mentions_only(a, syms):
    names = {s.decl().name() for s in syms}
    seen = set()

    def walk(t):
        if t.get_id() in seen:
            return True
        seen.add(t.get_id())
        if z3.is_const(t) and t.decl().kind() == z3.Z3_OP_UNINTERPRETED:
            return t.decl().name() in names
        return all(walk(c) for c in t.children())
    return walk(a)


def load_known_findings():
    out = []
    p = os.path.join(VERIF, 'known_findings.txt')
    if not os.path.exists(p):
        return out
    for ln in open(p):
        ln = ln.strip()
        if not ln or ln.startswith('#'):
            continue
        m = re.match(r'(finding|fixed): property=(\S+) obligation=(\S+) (.*)', ln)
        if m:
            out.append({'kind': m.group(1), 'property': m.group(2), 'obligation': m.group(3), 'what': m.group(4)})
    return out
