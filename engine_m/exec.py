"""Symbolic executor for the MIR subset in mir.py.  Integer arithmetic is encoded over
mathematical integers with explicit wrap (mod 2^w) and overflow flags, so that the solver sees
linear arithmetic wherever the source has division / multiplication by literals.

Execution is path-merging: every basic block is executed once per unrolling context with a
guard (path condition) and a merged memory; joins merge values with ite.  Loops are unrolled up
to `unwind` iterations; reaching the next iteration is recorded as an unwinding condition that
the obligation must show unreachable.
"""
import re, heapq, itertools
import z3
from . import mir as M

INT_TYS = {'u8': (8, False), 'u16': (16, False), 'u32': (32, False), 'u64': (64, False),
           'u128': (128, False), 'usize': (64, False), 'i8': (8, True), 'i16': (16, True),
           'i32': (32, True), 'i64': (64, True), 'i128': (128, True), 'isize': (64, True)}


class Unsupported(Exception):
    pass


# ---------------------------------------------------------------------------
# values (immutable)

class I:
    __slots__ = ('t', 'ty')

    def __init__(self, t, ty):
        self.t = t if not isinstance(t, bool) else int(t)
        self.ty = ty

    def __repr__(self):
        return 'I(%s:%s)' % (self.t, self.ty)


class B:
    __slots__ = ('t',)

    def __init__(self, t):
        self.t = t

    def __repr__(self):
        return 'B(%s)' % (self.t,)


class Tup:
    __slots__ = ('fs',)

    def __init__(self, fs):
        self.fs = list(fs)

    def __repr__(self):
        return 'Tup%r' % (self.fs,)


class Adt:
    """struct value; fields missing from fs are symbolic, named base+'.'+idx; or, for a value that
    is the merge of two structs of different origin, alt = (c, a, b): a missing field k reads as
    ite(c, a.k, b.k) (resolved on demand, because the field's type is only known at the read)"""
    __slots__ = ('name', 'fs', 'base', 'tys', 'alt')

    def __init__(self, name, fs, base=None, tys=None, alt=None):
        self.name, self.fs, self.base = name, dict(fs), base
        self.tys = dict(tys) if tys else {}
        self.alt = alt

    def __repr__(self):
        return 'Adt(%s,%r,%s)' % (self.name, self.fs, self.base)


class En:
    """enum value: d = variant index (python int or z3 Int), vs = {variant idx: [payload fields]}"""
    __slots__ = ('name', 'd', 'vs', 'base', 'alt')

    def __init__(self, name, d, vs, base=None, alt=None):
        self.name, self.d, self.vs, self.base = name, d, dict(vs), base
        self.alt = alt      # (c, a, b): payloads missing from vs read as ite(c, a's, b's)

    def __repr__(self):
        return 'En(%s,%s,%r)' % (self.name, self.d, self.vs)


class Cor:
    """state of a coroutine (async fn / async block after the state transform): d = state discriminant (0 unresumed,
    1 returned, 2 panicked, >= 3 suspended at an await), ups = captured variables {idx: value}, vs = locals saved across
    awaits {variant name: {idx: value}}; with a base name, fields never written read as fresh symbols (arbitrary state)"""
    __slots__ = ('d', 'ups', 'vs', 'base', 'key')

    def __init__(self, d, ups, vs=None, base=None, key=None):
        self.d, self.ups, self.vs, self.base = d, dict(ups), {k: dict(v) for k, v in (vs or {}).items()}, base
        self.key = key      # `file:line:col: line:col` of the async block / name of the async fn (which body this is)

    def __repr__(self):
        return 'Cor(%s,%r,%r)' % (self.d, self.ups, self.vs)


class Ref:
    __slots__ = ('cell', 'path')

    def __init__(self, cell, path=()):
        self.cell, self.path = cell, tuple(path)

    def __repr__(self):
        return 'Ref(%s,%s)' % (self.cell, self.path)


class Clo:
    __slots__ = ('key', 'caps')

    def __init__(self, key, caps):
        self.key, self.caps = key, list(caps)


class Seq:
    """bounded sequence (slice / Vec contents).  Element i exists iff pres[i]; for prefix
    sequences pres[i] == (i < n).  After Vec::retain the sequence is no longer a prefix
    (prefix=False): length = number of present elements, positional indexing unsupported."""
    __slots__ = ('elems', 'pres', 'ety', 'prefix', '_n')

    def __init__(self, elems, n=None, ety=None, pres=None):
        self.elems, self.ety = list(elems), ety
        if pres is None:
            self._n = n if n is not None else len(self.elems)
            self.prefix = True
            if isinstance(self._n, int):
                self.pres = [i < self._n for i in range(len(self.elems))]
            else:
                self.pres = [simp(self._n > i) for i in range(len(self.elems))]
        else:
            self.pres = list(pres)
            self.prefix = False
            self._n = None

    @property
    def n(self):
        if self._n is None:
            tot = 0
            for p in self.pres:
                tot = tot + If(p, 1, 0)
            self._n = tot
        return self._n

    def __repr__(self):
        return 'Seq(n=%s,%r)' % (self.n, self.elems)


class It:
    """iterator adaptor state"""
    __slots__ = ('kind', 'inner', 'clo', 'extra')

    def __init__(self, kind, inner=None, clo=None, extra=None):
        self.kind, self.inner, self.clo, self.extra = kind, inner, clo, extra


class Abs:
    """abstract byte array (e.g. a 32-byte secret / hash value): an element of an uninterpreted
    domain, with uninterpreted byte / store / hash functions over it.  Used where the code only
    copies, compares, flips single bits of and hashes such arrays."""
    __slots__ = ('t', 'n')

    def __init__(self, t, n=32):
        self.t, self.n = t, n

    def __repr__(self):
        return 'Abs(%s)' % (self.t,)


ABS_BYTE = z3.Function('abs.byte', z3.IntSort(), z3.IntSort(), z3.IntSort())
ABS_STORE = z3.Function('abs.store', z3.IntSort(), z3.IntSort(), z3.IntSort(), z3.IntSort())
ABS_HASH = z3.Function('abs.sha256', z3.IntSort(), z3.IntSort())


class Opaque:
    __slots__ = ('why',)

    def __init__(self, why=''):
        self.why = why

    def __repr__(self):
        return 'Opaque(%s)' % self.why


UNIT = Tup([])


def zint(x):
    return x if not isinstance(x, int) else z3.IntVal(x)


def zbool(x):
    return x if not isinstance(x, bool) else z3.BoolVal(x)


def is_conc(x):
    return isinstance(x, (int, bool))


def And(*xs):
    ys = []
    for x in xs:
        if x is True:
            continue
        if x is False:
            return False
        ys.append(x)
    if not ys:
        return True
    if len(ys) == 1:
        return ys[0]
    return z3.And(*ys)


def Or(*xs):
    ys = []
    for x in xs:
        if x is False:
            continue
        if x is True:
            return True
        ys.append(x)
    if not ys:
        return False
    if len(ys) == 1:
        return ys[0]
    return z3.Or(*ys)


def Not(x):
    if isinstance(x, bool):
        return not x
    return z3.Not(x)


def If(c, a, b):
    if c is True:
        return a
    if c is False:
        return b
    if is_conc(a) and is_conc(b) and a == b:
        return a
    if isinstance(a, bool) or isinstance(b, bool) or z3.is_bool(a) or z3.is_bool(b):
        return z3.If(c, zbool(a), zbool(b))
    return z3.If(c, zint(a), zint(b))


def simp(x):
    if is_conc(x):
        return x
    r = z3.simplify(x)
    if z3.is_true(r):
        return True
    if z3.is_false(r):
        return False
    if z3.is_int_value(r):
        return r.as_long()
    return r


# ---------------------------------------------------------------------------
# types

def strip_path(ty):
    return ty.strip()


def split_generic(ty):
    """'std::option::Option<u64>' -> ('Option', ['u64'])"""
    ty = ty.strip()
    i = ty.find('<')
    if i < 0 or not ty.endswith('>'):
        return ty.split('::')[-1], []
    head = ty[:i].rstrip(':')
    args = M.split_top(ty[i + 1:-1])
    return head.split('::')[-1], args


class Frame:
    __slots__ = ('fn', 'id', 'cells')


class Engine:
    def __init__(self, index, decls, unwind=8, log=None):
        self.ix = index
        self.decls = decls
        self.unwind = unwind
        self.assumptions = []
        self._assumed = set()
        self.panics = []        # (guard, msg, where)
        self.unsupported = []   # (guard, why)
        self.unwinds = []       # (guard, where)
        self.ncell = itertools.count(1)
        self.nfresh = itertools.count(1)
        self.models = []        # (regex, handler)
        self.encoded = {}       # fn name -> header (functions executed from MIR)
        self.depth = 0
        self.log = log
        self.solver_for_pruning = None
        self._const_cache = {}
        self.slice_cap = None
        self.stat_states = 0    # symbolic states: (basic block, loop-unrolling context) instances executed
        self.stat_edges = 0     # control-flow transitions followed between them (incl. returns)
        self.feature_model = {}
        self.valsets = {}
        self.lock_cells = {}
        self._cur_mem = None
        from . import models
        models.install(self)

    # -- symbols ---------------------------------------------------------
    def assume(self, c, key=None):
        if c is True:
            return
        if key is not None:
            if key in self._assumed:
                return
            self._assumed.add(key)
        self.assumptions.append(zbool(c))

    def int_sym(self, name, ty):
        w, s = INT_TYS[ty]
        v = z3.Int(name)
        if s:
            self.assume(z3.And(v >= -(1 << (w - 1)), v < (1 << (w - 1))), ('rng', name))
        else:
            self.assume(z3.And(v >= 0, v < (1 << w)), ('rng', name))
        return I(v, ty)

    def fresh(self, ty, hint='t'):
        return self.sym('%s!%d' % (hint, next(self.nfresh)), ty)

    def sym(self, name, ty, mem=None):
        """a fully symbolic value of MIR type `ty`"""
        ty = ty.strip()
        if ty in INT_TYS:
            return self.int_sym(name, ty)
        if ty == 'bool':
            return B(z3.Bool(name))
        if ty == '()':
            return UNIT
        if ty.startswith('(') and ty.endswith(')'):
            parts = M.split_top(ty[1:-1])
            return Tup([self.sym('%s.%d' % (name, i), t, mem) for i, t in enumerate(parts)])
        if ty.startswith('&'):
            inner = re.sub(r"^&\s*('\w+\s+)?(mut\s+)?", '', ty)
            if mem is None:
                raise Unsupported('symbolic reference without memory: ' + ty)
            if inner.startswith('[') and '; ' not in inner:
                if self.slice_cap is None:
                    raise Unsupported('symbolic slice needs an explicit bound: ' + ty)
                return self.sym_slice(name, inner[1:-1], self.slice_cap, mem)
            c = self.new_cell()
            mem[c] = self.sym(name + '.*', inner, mem)
            return Ref(c)
        if ty.startswith('[') and ty.endswith(']') and '; ' in ty:
            k = ty.rindex('; ')
            n = int(ty[k + 2:-1])
            et = ty[1:k]
            return Tup([self.sym('%s[%d]' % (name, i), et, mem) for i in range(n)])
        head, args = split_generic(ty)
        if head == 'Vec' and len(args) >= 1 and self.slice_cap is not None:
            return self.sym_slice(name, args[0], self.slice_cap, mem, as_vec=True)
        if head == 'Option' and len(args) == 1:
            d = z3.Int(name + '.d')
            self.assume(z3.And(d >= 0, d <= 1), ('rng', name + '.d'))
            return En('Option', d, {1: [self.sym(name + '.some', args[0], mem)]})
        if head == 'Result' and len(args) == 2:
            d = z3.Int(name + '.d')
            self.assume(z3.And(d >= 0, d <= 1), ('rng', name + '.d'))
            return En('Result', d, {0: [self.sym(name + '.ok', args[0], mem)],
                                    1: [self.sym(name + '.err', args[1], mem)]})
        vs = None
        try:
            vs = self.decls.enum_variants(ty)
        except KeyError:
            pass
        if vs is not None and self.decls.struct_fields(ty) is None:
            d = z3.Int(name + '.d')
            self.assume(z3.And(d >= 0, d < len(vs)), ('rng', name + '.d'))
            return En(ty, d, {}, base=name)
        return Adt(ty, {}, base=name)

    def sym_slice(self, name, ety, cap, mem, as_vec=False):
        """reference to (or, with as_vec, the value of) a sequence of `cap` symbolic elements
        with symbolic length 0..cap"""
        n = z3.Int(name + '.len')
        self.assume(z3.And(n >= 0, n <= cap), ('rng', name + '.len'))
        seq = Seq([self.sym('%s[%d]' % (name, i), ety, mem) for i in range(cap)], n, ety)
        if as_vec:
            return seq
        c = self.new_cell()
        mem[c] = seq
        return Ref(c)

    def new_cell(self):
        return next(self.ncell)

    # -- events -----------------------------------------------------------
    def panic(self, guard, msg, where):
        g = simp(guard)
        if g is False:
            return
        self.panics.append((g, msg, where))

    def unsup(self, guard, why):
        g = simp(guard)
        if g is False:
            return
        self.unsupported.append((g, why))
        if self.log:
            self.log('unsupported: ' + why)

    # -- small value sets (keeps products with HTLC counts / weights linear) ------------
    MAXSET = 96

    def set_range(self, t, lo, hi):
        if not isinstance(t, int) and hi - lo < self.MAXSET:
            self.valsets[t.get_id()] = (frozenset(range(lo, hi + 1)), t)

    def set_vals(self, t, vals):
        if not isinstance(t, int) and len(vals) <= self.MAXSET:
            self.valsets[t.get_id()] = (frozenset(vals), t)

    def get_vals(self, t):
        if isinstance(t, int):
            return frozenset([t])
        r = self.valsets.get(t.get_id())
        return r[0] if r else None

    def mul_terms(self, x, y):
        """x*y, expanded into a case split when one factor has a small known value set"""
        vx, vy = self.get_vals(x), self.get_vals(y)
        if isinstance(x, int) or isinstance(y, int):
            r = x * y
            if vx and vy and not isinstance(r, int):
                self.set_vals(r, {p * q for p in vx for q in vy})
            return r
        if vx and vy and len(vx) * len(vy) <= self.MAXSET:
            self_vals = {p * q for p in vx for q in vy}
        else:
            self_vals = None
        for a, b, vb in ((x, y, vy), (y, x, vx)):
            if vb:
                vs = sorted(vb)
                r = a * vs[-1]
                for k in reversed(vs[:-1]):
                    r = z3.If(b == k, a * k, r)
                if self_vals:
                    self.set_vals(r, self_vals)
                return r
        return x * y

    # -- integer helpers --------------------------------------------------
    def wrap(self, t, ty):
        vs = self.get_vals(t) if not isinstance(t, int) else None
        if vs and self.tmin(ty) <= min(vs) and max(vs) <= self.tmax(ty):
            return t
        w, s = INT_TYS[ty]
        if isinstance(t, int):
            t %= (1 << w)
            if s and t >= (1 << (w - 1)):
                t -= (1 << w)
            return t
        if s:
            return ((t + (1 << (w - 1))) % (1 << w)) - (1 << (w - 1))
        return t % (1 << w)

    def in_range(self, t, ty):
        w, s = INT_TYS[ty]
        if isinstance(t, int):
            return (-(1 << (w - 1)) <= t < (1 << (w - 1))) if s else (0 <= t < (1 << w))
        if s:
            return z3.And(t >= -(1 << (w - 1)), t < (1 << (w - 1)))
        return z3.And(t >= 0, t < (1 << w))

    def tmax(self, ty):
        w, s = INT_TYS[ty]
        return (1 << (w - 1)) - 1 if s else (1 << w) - 1

    def tmin(self, ty):
        w, s = INT_TYS[ty]
        return -(1 << (w - 1)) if s else 0

    def to_bv(self, t, ty):
        w, s = INT_TYS[ty]
        if isinstance(t, int):
            return z3.BitVecVal(t % (1 << w), w)
        return z3.Int2BV(t, w)

    def from_bv(self, bv, ty):
        w, s = INT_TYS[ty]
        return z3.BV2Int(bv, is_signed=s)

    def idiv(self, a, b):
        """truncated division on mathematical integers (Rust semantics); b != 0"""
        if isinstance(a, int) and isinstance(b, int):
            q = abs(a) // abs(b)
            return q if (a >= 0) == (b >= 0) else -q
        a, b = zint(a), zint(b)
        return a / b   # z3 Int division is floor for positive divisor; callers use unsigned only

    def arith(self, o, x, y):
        if o == 'Mul':
            return self.mul_terms(x, y)
        r = x + y if o == 'Add' else x - y
        if not isinstance(r, int):
            vx, vy = self.get_vals(x), self.get_vals(y)
            if vx and vy and len(vx) * len(vy) <= 4 * self.MAXSET:
                self.set_vals(r, {(p + q) if o == 'Add' else (p - q) for p in vx for q in vy})
        return r

    def binop(self, op, a, b, guard, where):
        if isinstance(a, Opaque) or isinstance(b, Opaque):
            self.unsup(guard, 'opaque operand in %s at %s' % (op, where))
            return Opaque('binop')
        if isinstance(a, B) and isinstance(b, B):
            x, y = a.t, b.t
            if op in ('Eq',):
                return B(simp(zbool(x) == zbool(y)))
            if op in ('Ne', 'BitXor'):
                return B(simp(zbool(x) != zbool(y)))
            if op == 'BitAnd':
                return B(And(x, y))
            if op == 'BitOr':
                return B(Or(x, y))
            raise Unsupported('bool binop ' + op)
        if isinstance(a, En) and isinstance(b, En) and op in ('Eq', 'Ne'):
            e = zint(a.d) == zint(b.d)
            return B(simp(e if op == 'Eq' else z3.Not(e)))
        if (isinstance(a, Abs) or isinstance(b, Abs)) and op in ('Eq', 'Ne'):
            e = self.abs_eq(a, b)
            return B(e if op == 'Eq' else Not(e))
        if isinstance(a, Tup) and isinstance(b, Tup) and op in ('Eq', 'Ne'):
            e = And(*[zbool(self.binop('Eq', x, y, guard, where).t) for x, y in zip(a.fs, b.fs)])
            return B(e if op == 'Eq' else Not(e))
        if not (isinstance(a, I) and isinstance(b, I)):
            raise Unsupported('binop %s on %r %r' % (op, a, b))
        x, y, ty = a.t, b.t, a.ty
        w, s = INT_TYS[ty]
        if op in ('Eq', 'Ne', 'Lt', 'Le', 'Gt', 'Ge'):
            if isinstance(x, int) and isinstance(y, int):
                r = {'Eq': x == y, 'Ne': x != y, 'Lt': x < y, 'Le': x <= y, 'Gt': x > y, 'Ge': x >= y}[op]
                return B(r)
            x, y = zint(x), zint(y)
            r = {'Eq': x == y, 'Ne': x != y, 'Lt': x < y, 'Le': x <= y, 'Gt': x > y, 'Ge': x >= y}[op]
            return B(r)
        if op in ('Add', 'Sub', 'Mul', 'AddUnchecked', 'SubUnchecked', 'MulUnchecked'):
            o = op[:3]
            r = self.arith(o, x, y)
            if op.endswith('Unchecked'):
                return I(r, ty)
            return I(self.wrap(r, ty), ty)
        if op in ('AddWithOverflow', 'SubWithOverflow', 'MulWithOverflow'):
            o = op[:3]
            r = self.arith(o, x, y)
            ok = self.in_range(r, ty)
            vs = self.get_vals(r)
            if vs and self.tmin(ty) <= min(vs) and max(vs) <= self.tmax(ty):
                ok = True
            # `.0` is only observed behind `assert(!.1)` (overflow-checked operator lowering), i.e. on
            # paths where no overflow happened, so the exact mathematical result can stand for it.
            return Tup([I(r, ty), B(Not(ok) if isinstance(ok, bool) else z3.Not(ok))])
        if op in ('Div', 'Rem'):
            if s:
                if isinstance(x, int) and isinstance(y, int):
                    q = self.idiv(x, y)
                    return I(q if op == 'Div' else x - q * y, ty)
                xa, ya = zint(x), zint(y)
                ax = z3.If(xa >= 0, xa, -xa)
                ay = z3.If(ya >= 0, ya, -ya)
                q = ax / ay
                neg = z3.Xor(xa < 0, ya < 0)
                qq = z3.If(neg, -q, q)
                if op == 'Div':
                    return I(qq, ty)
                return I(xa - qq * ya, ty)
            if isinstance(x, int) and isinstance(y, int):
                return I(x // y if op == 'Div' else x % y, ty)
            x, y = zint(x), zint(y)
            return I(x / y if op == 'Div' else x % y, ty)
        if op in ('Shl', 'Shr', 'ShlUnchecked', 'ShrUnchecked'):
            yw = INT_TYS[b.ty][0]
            if isinstance(y, int):
                sh = y % w
                if op.startswith('Shl'):
                    return I(self.wrap(x * (1 << sh), ty), ty)
                if s:
                    raise Unsupported('signed shr')
                if isinstance(x, int):
                    return I(x >> sh, ty)
                return I(zint(x) / (1 << sh), ty)
            # symbolic shift amount: case split over the (masked) amount, each case is linear
            if s:
                raise Unsupported('signed shift by symbolic amount')
            sh = zint(y) % w
            r = None
            for k in range(w - 1, -1, -1):
                if op.startswith('Shl'):
                    case = self.wrap(zint(x) * (1 << k), ty)
                else:
                    case = zint(x) / (1 << k) if k else zint(x)
                r = case if r is None else If(sh == k, case, r)
            return I(r, ty)
        if op in ('BitAnd', 'BitOr', 'BitXor'):
            if isinstance(x, int) and isinstance(y, int):
                m = (1 << w) - 1
                r = {'BitAnd': (x & m) & (y & m), 'BitOr': (x & m) | (y & m), 'BitXor': (x & m) ^ (y & m)}[op]
                return I(self.wrap(r, ty), ty)
            if s:
                bx, by = self.to_bv(x, ty), self.to_bv(y, ty)
                r = {'BitAnd': bx & by, 'BitOr': bx | by, 'BitXor': bx ^ by}[op]
                return I(self.from_bv(r, ty), ty)
            # unsigned: arithmetic on the individual bits (div/mod by constants), no bit-vector theory
            for p, q in ((x, y), (y, x)):
                if isinstance(q, int):
                    q &= (1 << w) - 1
                    if op == 'BitAnd' and (q & (q + 1)) == 0:
                        return I(zint(p) % (q + 1) if q != (1 << w) - 1 else p, ty)
                    if op == 'BitAnd' and q == 0:
                        return I(0, ty)
                    if op == 'BitAnd':
                        # high mask 2^w - 2^k
                        inv = ((1 << w) - 1) ^ q
                        if (inv & (inv + 1)) == 0:
                            return I(zint(p) - zint(p) % (inv + 1), ty)
                    bits = [b for b in range(w) if (q >> b) & 1]
                    zp = zint(p)
                    if op == 'BitAnd':
                        return I(sum([z3.If((zp / (1 << b)) % 2 == 1, 1 << b, 0) for b in bits]) if bits else 0, ty)
                    if op == 'BitOr':
                        return I(zp + sum([z3.If((zp / (1 << b)) % 2 == 0, 1 << b, 0) for b in bits]) if bits else p, ty)
                    return I(zp + sum([z3.If((zp / (1 << b)) % 2 == 0, 1 << b, -(1 << b)) for b in bits]) if bits else p, ty)
            # a small known value set on one side: case split into the constant forms above
            for p, q in ((x, y), (y, x)):
                vq = self.get_vals(q)
                if vq and len(vq) <= 16:
                    vs = sorted(vq)
                    r = self.binop(op, I(p, ty), I(vs[-1], ty), guard, where).t
                    for k in reversed(vs[:-1]):
                        r = z3.If(zint(q) == k, zint(self.binop(op, I(p, ty), I(k, ty), guard, where).t), zint(r))
                    return I(r, ty)
            zx, zy = zint(x), zint(y)
            tot = 0
            for b in range(w):
                bx = (zx / (1 << b)) % 2 == 1
                by = (zy / (1 << b)) % 2 == 1
                c = z3.And(bx, by) if op == 'BitAnd' else (z3.Or(bx, by) if op == 'BitOr' else z3.Xor(bx, by))
                tot = tot + z3.If(c, 1 << b, 0)
            return I(tot, ty)
        if op == 'Cmp':
            lt = zint(x) < zint(y)
            eq = zint(x) == zint(y)
            # core::cmp::Ordering: Less=-1, Equal=0, Greater=1 ; variant indices 0,1,2
            return En('Ordering', If(lt, 0, If(eq, 1, 2)), {})
        raise Unsupported('binop ' + op)

    def abs_eq(self, a, b):
        if isinstance(a, Abs) and isinstance(b, Abs):
            return simp(zint(a.t) == zint(b.t))
        ab, tp = (a, b) if isinstance(a, Abs) else (b, a)
        if isinstance(tp, Tup):
            return And(*[zbool(zint(ABS_BYTE(ab.t, k)) == zint(x.t)) for k, x in enumerate(tp.fs)])
        raise Unsupported('comparison of abstract array with %r' % (tp,))

    def cast_int(self, v, ty):
        if isinstance(v, B):
            return I(If(v.t, 1, 0), ty)
        if isinstance(v, En):
            # fieldless enum as integer: discriminant value
            dv = self.discr_value(v)
            try:
                vs = self.decls.enum_variants(v.name)
                if vs and not isinstance(dv, int):
                    self.set_vals(dv, {d if d is not None else i for i, (n_, d, f_) in enumerate(vs)})
            except KeyError:
                pass
            return I(dv, ty)
        if not isinstance(v, I):
            raise Unsupported('cast of %r' % (v,))
        w, s = INT_TYS[ty]
        w0, s0 = INT_TYS[v.ty]
        if (not s0 and w >= w0 + (1 if s else 0)) or (s0 and s and w >= w0):
            return I(v.t, ty)     # value-preserving
        return I(self.wrap(v.t, ty), ty)

    # -- enum helpers -------------------------------------------------------
    def variant_index(self, enum_name, variant, hint=None):
        head = enum_name.split('<')[0].split('::')[-1].strip()
        if head == 'Option':
            return {'None': 0, 'Some': 1}[variant]
        if head == 'Result':
            return {'Ok': 0, 'Err': 1}[variant]
        if head == 'ControlFlow':
            return {'Continue': 0, 'Break': 1}[variant]
        if head == 'Poll':
            return {'Ready': 0, 'Pending': 1}[variant]
        if head == 'Ordering':
            return {'Less': 0, 'Equal': 1, 'Greater': 2}[variant]
        return self.decls.variant_index(enum_name, variant, hint)

    def discr_value(self, en):
        """discriminant value as seen by `discriminant(_x)` / switchInt: equals the variant index
        unless the enum declares explicit discriminants"""
        head = en.name.split('<')[0].split('::')[-1].strip()
        if head == 'Ordering':
            return zint(en.d) - 1 if not isinstance(en.d, int) else en.d - 1
        if head in ('Option', 'Result', 'ControlFlow', 'Poll'):
            return en.d
        try:
            vs = self.decls.enum_variants(en.name)
        except KeyError:
            vs = None
        if vs is None or all(d == i for i, (n, d, f) in enumerate(vs)):
            return en.d
        if isinstance(en.d, int):
            return vs[en.d][1]
        r = vs[-1][1]
        for i in range(len(vs) - 2, -1, -1):
            r = If(zint(en.d) == i, vs[i][1], r)
        return r

    def is_variant(self, en, idx):
        if isinstance(en.d, int):
            return en.d == idx
        return en.d == idx

    # -- merging ------------------------------------------------------------
    def merge(self, c, a, b):
        """value that equals a when c else b"""
        if a is b:
            return a
        if c is True:
            return a
        if c is False:
            return b
        if a is None:
            return b
        if b is None:
            return a
        if isinstance(a, I) and isinstance(b, I):
            if is_conc(a.t) and is_conc(b.t) and a.t == b.t:
                return a
            r = If(c, a.t, b.t)
            va, vb = self.get_vals(a.t), self.get_vals(b.t)
            if va and vb and not isinstance(r, int):
                self.set_vals(r, va | vb)
            return I(r, a.ty)
        if isinstance(a, B) and isinstance(b, B):
            if is_conc(a.t) and is_conc(b.t) and a.t == b.t:
                return a
            return B(If(c, a.t, b.t))
        if isinstance(a, Tup) and isinstance(b, Tup) and len(a.fs) == len(b.fs):
            return Tup([self.merge(c, x, y) for x, y in zip(a.fs, b.fs)])
        if isinstance(a, Adt) and isinstance(b, Adt):
            if not (a.base == b.base and a.alt is b.alt):
                # different origins: fields are resolved on demand through alt
                return Adt(a.name if a.name != '?' else b.name, {}, None, {**b.tys, **a.tys}, alt=(c, a, b))
            keys = set(a.fs) | set(b.fs)
            fs = {}
            for k in keys:
                x = a.fs.get(k)
                y = b.fs.get(k)
                if x is None or y is None:
                    if a.base is None and a.alt is None:
                        # aggregate under construction: the field is simply not written yet on one path
                        fs[k] = x if x is not None else y
                        continue
                    # the side lacking the field still reads the common origin's value
                    ty = a.tys.get(k) or b.tys.get(k)
                    if ty is None or ty == '?':
                        raise Unsupported('merge of partially overwritten lazy struct ' + a.name)
                    basev = self.project(Adt(a.name, {}, a.base, a.tys, alt=a.alt), ('f', k, ty), None, True, 'merge')
                    fs[k] = self.merge(c, x if x is not None else basev, y if y is not None else basev)
                else:
                    fs[k] = self.merge(c, x, y)
            tys = dict(b.tys)
            tys.update(a.tys)
            return Adt(a.name, fs, a.base, tys, alt=a.alt)
        if isinstance(a, En) and isinstance(b, En):
            lazy_a = a.base is not None or a.alt is not None
            lazy_b = b.base is not None or b.alt is not None
            if (lazy_a or lazy_b) and not (a.base == b.base and a.alt is b.alt):
                # payloads not materialised on a lazy side must be read from that side: on demand
                return En(a.name if a.name else b.name, If(c, a.d, b.d), {}, None, alt=(c, a, b))
            vs = {}
            for k in set(a.vs) | set(b.vs):
                x, y = a.vs.get(k), b.vs.get(k)
                if x is None:
                    vs[k] = y
                elif y is None:
                    vs[k] = x
                else:
                    vs[k] = [self.merge(c, p, q) for p, q in zip(x, y)]
            return En(a.name if a.name else b.name, If(c, a.d, b.d), vs, a.base or b.base, alt=a.alt)
        if isinstance(a, Abs) and isinstance(b, Abs):
            return Abs(If(c, a.t, b.t), a.n)
        if isinstance(a, Cor) and isinstance(b, Cor):
            ups = {k: self.merge(c, a.ups.get(k), b.ups.get(k)) for k in set(a.ups) | set(b.ups)}
            vs = {}
            for vn in set(a.vs) | set(b.vs):
                x, y = a.vs.get(vn, {}), b.vs.get(vn, {})
                vs[vn] = {k: self.merge(c, x.get(k), y.get(k)) for k in set(x) | set(y)}
            return Cor(If(c, a.d, b.d), ups, vs, a.base or b.base, a.key or b.key)
        if isinstance(a, Ref) and isinstance(b, Ref):
            if a.cell == b.cell and a.path == b.path:
                return a
            if a.cell == b.cell and len(a.path) == len(b.path) and all(
                    x == y or (x[0] == 'f' and y[0] == 'f' and x[1] == y[1] and ('?' in (x[2], y[2]) or x[2] == y[2])) for x, y in zip(a.path, b.path)):
                # the same place, reached once with and once without a type annotation on a field step
                return Ref(a.cell, tuple(y if (x[0] == 'f' and x[2] == '?') else x for x, y in zip(a.path, b.path)))
            if a.cell == b.cell and len(a.path) == len(b.path) and all(
                    x == y or (x[0] == 'i' and y[0] == 'i') for x, y in zip(a.path, b.path)):
                # the same container, different elements: one reference with a symbolic index
                return Ref(a.cell, tuple(x if x == y else ('i', If(c, zint(x[1]), zint(y[1]))) for x, y in zip(a.path, b.path)))
            return Opaque('merge of distinct references')
        if isinstance(a, Seq) and isinstance(b, Seq) and len(a.elems) != len(b.elems) and a.prefix and b.prefix:
            # different capacities (e.g. after a push on one path): positions beyond the shorter
            # capacity can only be present on the longer side
            lo, hi = (a, b) if len(a.elems) < len(b.elems) else (b, a)
            k = len(lo.elems)
            elems = [self.merge(c, x, y) for x, y in zip(a.elems[:k], b.elems[:k])] + list(hi.elems[k:])
            return Seq(elems, If(c, a.n, b.n), a.ety)
        if isinstance(a, Seq) and isinstance(b, Seq) and len(a.elems) == len(b.elems):
            elems = [self.merge(c, x, y) for x, y in zip(a.elems, b.elems)]
            if a.prefix and b.prefix:
                return Seq(elems, If(c, a.n, b.n), a.ety)
            return Seq(elems, None, a.ety, pres=[If(c, p, q) for p, q in zip(a.pres, b.pres)])
        if isinstance(a, Seq) and isinstance(b, Seq):
            # different capacities and at least one side not a prefix sequence (e.g. a collected filter): pad the
            # shorter side with absent slots
            k = max(len(a.elems), len(b.elems))
            pa = list(a.pres) + [False] * (k - len(a.pres))
            pb = list(b.pres) + [False] * (k - len(b.pres))
            elems = []
            for i in range(k):
                x = a.elems[i] if i < len(a.elems) else None
                y = b.elems[i] if i < len(b.elems) else None
                elems.append(self.merge(c, x, y) if (x is not None and y is not None) else (x if x is not None else y))
            return Seq(elems, None, a.ety or b.ety, pres=[If(c, p, q) for p, q in zip(pa, pb)])
        if isinstance(a, Clo) and isinstance(b, Clo) and a.key == b.key:
            return Clo(a.key, [self.merge(c, x, y) for x, y in zip(a.caps, b.caps)])
        if isinstance(a, Opaque) or isinstance(b, Opaque):
            return Opaque('merged opaque')
        if isinstance(a, It) and isinstance(b, It):
            return Opaque('merged iterators')
        return Opaque('merge %s/%s' % (type(a).__name__, type(b).__name__))

    def merge_mem(self, states):
        """states: list of (guard, mem) -> (guard, mem)"""
        if len(states) == 1:
            return states[0]
        g = Or(*[s[0] for s in states])
        mem = dict(states[0][1])
        acc_g = states[0][0]
        for (gi, mi) in states[1:]:
            for k in set(mem) | set(mi):
                a = mi.get(k)
                b = mem.get(k)
                if a is b:
                    continue
                if a is None or b is None:
                    mem[k] = a if a is not None else b
                    continue
                mem[k] = self.merge(gi, a, b)
            acc_g = Or(acc_g, gi)
        return (g, mem)

    # -- places -------------------------------------------------------------
    def project(self, v, step, mem, guard, where):
        """read one projection step from value v"""
        k = step[0]
        if k == 'f':
            idx, ty = step[1], step[2]
            if isinstance(v, Tup):
                return v.fs[idx]
            if isinstance(v, Adt):
                if idx in v.fs:
                    return v.fs[idx]
                if v.alt is not None:
                    c, a, b = v.alt
                    return self.merge(c, self.project(a, step, mem, guard, where), self.project(b, step, mem, guard, where))
                if v.base is None:
                    raise Unsupported('read of unset field %d of %s' % (idx, v.name))
                return self.sym('%s.%d' % (v.base, idx), ty, mem)
            if isinstance(v, Clo):
                return v.caps[idx]
            if isinstance(v, Cor):
                if idx not in v.ups:
                    if v.base is None:
                        raise Unsupported('read of unset captured variable %d of a coroutine' % idx)
                    return self.sym('%s.up%d' % (v.base, idx), ty, mem)
                return v.ups[idx]
            if isinstance(v, I) and idx == 0:
                return v  # newtype over an integer
            if isinstance(v, Opaque):
                return v
            raise Unsupported('field %d of %r at %s' % (idx, v, where))
        if k == 'v':
            return ('variant', v, step[1])
        if k == 'sub':
            lo, hi = step[1], step[2]
            if isinstance(v, Tup):
                return Tup(v.fs[lo:hi])
            if isinstance(v, Seq) and v.prefix and isinstance(v.n, int):
                return Tup(v.elems[lo:hi])
            raise Unsupported('subslice of %r' % (v,))
        if k == 'i' and isinstance(v, Abs):
            bt = ABS_BYTE(v.t, zint(step[1]))
            self.assume(z3.And(bt >= 0, bt <= 255), ('absbyte', bt.get_id()))
            return I(bt, 'u8')
        if k == 'i':
            idx = step[1]
            elems = v.fs if isinstance(v, Tup) else (v.elems if isinstance(v, Seq) else None)
            if elems is None:
                raise Unsupported('index into %r' % (v,))
            if isinstance(idx, int):
                return elems[idx]
            r = elems[-1]
            for j in range(len(elems) - 2, -1, -1):
                r = self.merge(zint(idx) == j, elems[j], r)
            return r
        raise Unsupported('projection ' + str(step))

    def en_payload(self, v, vname, vi, k, ty, mem, where):
        """payload field k of variant vi (named vname) of enum value v; lazily symbolic / alt-aware"""
        pl = v.vs.get(vi)
        if pl is not None and k < len(pl) and pl[k] is not None:
            return pl[k]
        if v.alt is not None:
            c, a, b = v.alt
            vals = []
            for side in (a, b):
                if isinstance(side.d, int) and side.d != vi:
                    vals.append(None)       # that side is not this variant: its payload is irrelevant
                    continue
                try:
                    vals.append(self.en_payload(side, vname, vi, k, ty, mem, where))
                except Unsupported:
                    vals.append(None)
            if vals[0] is None and vals[1] is None:
                raise Unsupported('payload of variant %s of %s unknown at %s' % (vname, v.name, where))
            return self.merge(c, vals[0], vals[1])
        if v.base is None or ty is None:
            raise Unsupported('payload of variant %s of %s unknown at %s' % (vname, v.name, where))
        return self.sym('%s.%s.%d' % (v.base, vname, k), ty, mem)

    def variant_name(self, enum_name, vi):
        head = enum_name.split('<')[0].split('::')[-1].strip()
        tab = {'Option': ['None', 'Some'], 'Result': ['Ok', 'Err'], 'ControlFlow': ['Continue', 'Break'], 'Poll': ['Ready', 'Pending']}.get(head)
        if tab:
            return tab[vi]
        return self.decls.enum_variants(enum_name)[vi][0]

    def read_path(self, v, path, mem, guard, where):
        i = 0
        while i < len(path):
            st = path[i]
            if st[0] == 'd':
                if not isinstance(v, Ref):
                    if isinstance(v, Opaque):
                        return v
                    raise Unsupported('deref of non-reference %r at %s' % (v, where))
                v = self.read_path(mem[v.cell], v.path, mem, guard, where)
                i += 1
                continue
            if st[0] == 'v':
                # must be followed by a field
                if i + 1 >= len(path) or path[i + 1][0] != 'f':
                    raise Unsupported('bare downcast')
                f = path[i + 1]
                if isinstance(v, Opaque):
                    return v
                if isinstance(v, Cor):
                    got = v.vs.get(st[1], {}).get(f[1])
                    if got is None:
                        if v.base is None:
                            raise Unsupported('read of a coroutine local that was not saved (%s.%d) at %s' % (st[1], f[1], where))
                        got = self.sym('%s.%s.%d' % (v.base, st[1], f[1]), f[2], mem)
                    v = got
                    i += 2
                    continue
                if not isinstance(v, En):
                    raise Unsupported('downcast of %r at %s' % (v, where))
                vi = self.variant_index(v.name, st[1])
                v = self.en_payload(v, st[1], vi, f[1], f[2], mem, where)
                i += 2
                continue
            v = self.project(v, st, mem, guard, where)
            i += 1
        return v

    def write_path(self, v, path, new, mem, guard, where):
        """functional update of value v at path; returns new v (may write through references)"""
        if not path:
            return new
        st = path[0]
        if st[0] == 'd':
            if not isinstance(v, Ref):
                raise Unsupported('write through non-reference at ' + where)
            tgt = mem[v.cell]
            mem[v.cell] = self.write_path(tgt, v.path + tuple(path[1:]), new, mem, guard, where)
            return v
        if st[0] == 'f':
            idx, ty = st[1], st[2]
            if isinstance(v, Tup):
                fs = list(v.fs)
                fs[idx] = self.write_path(fs[idx], path[1:], new, mem, guard, where)
                return Tup(fs)
            if isinstance(v, Adt):
                cur = v.fs.get(idx)
                if cur is None and len(path) > 1:
                    cur = self.project(v, ('f', idx, ty), mem, guard, where)
                fs = dict(v.fs)
                fs[idx] = self.write_path(cur, path[1:], new, mem, guard, where)
                tys = dict(v.tys)
                tys[idx] = ty
                return Adt(v.name, fs, v.base, tys, alt=v.alt)
            if isinstance(v, Cor):
                cur = v.ups.get(idx)
                if cur is None and len(path) > 1:
                    cur = self.project(v, ('f', idx, ty), mem, guard, where)
                ups = dict(v.ups)
                ups[idx] = self.write_path(cur, path[1:], new, mem, guard, where)
                return Cor(v.d, ups, v.vs, v.base, v.key)
            if v is None:
                # building an aggregate field by field
                return self.write_path(Adt('?', {}, None), path, new, mem, guard, where)
            if isinstance(v, I) and idx == 0 and len(path) == 1:
                return new
            raise Unsupported('write field of %r at %s' % (v, where))
        if st[0] == 'v' and isinstance(v, Cor):
            f = path[1]
            cur = v.vs.get(st[1], {}).get(f[1])
            if cur is None and len(path) > 2:
                if v.base is None:
                    raise Unsupported('write into a coroutine local that was not saved at ' + where)
                cur = self.sym('%s.%s.%d' % (v.base, st[1], f[1]), f[2], mem)
            vs = {k: dict(x) for k, x in v.vs.items()}
            vs.setdefault(st[1], {})[f[1]] = self.write_path(cur, path[2:], new, mem, guard, where)
            return Cor(v.d, v.ups, vs, v.base, v.key)
        if st[0] == 'v':
            f = path[1]
            if v is None or not isinstance(v, En):
                v = En('?', 0, {})
            vi = self.variant_index(v.name, st[1]) if v.name != '?' else None
            if vi is None:
                raise Unsupported('write into variant of unknown enum at ' + where)
            pl = list(v.vs.get(vi, []))
            while len(pl) <= f[1]:
                pl.append(None)
            if pl[f[1]] is None and len(path) > 2:
                pl[f[1]] = self.en_payload(v, st[1], vi, f[1], f[2] if len(f) > 2 else None, mem, where)
            pl[f[1]] = self.write_path(pl[f[1]], path[2:], new, mem, guard, where)
            vs = dict(v.vs)
            vs[vi] = pl
            return En(v.name, v.d, vs, v.base, alt=v.alt)
        if st[0] == 'sub':
            lo, hi = st[1], st[2]
            if not isinstance(v, Tup):
                raise Unsupported('subslice write into %r' % (v,))
            cur = Tup(v.fs[lo:hi])
            upd = self.write_path(cur, path[1:], new, mem, guard, where)
            if not isinstance(upd, Tup) or len(upd.fs) != hi - lo:
                raise Unsupported('subslice write of wrong shape')
            return Tup(v.fs[:lo] + upd.fs + v.fs[hi:])
        if st[0] == 'i' and isinstance(v, Abs):
            if len(path) != 1 or not isinstance(new, I):
                raise Unsupported('nested write into abstract array')
            return Abs(ABS_STORE(v.t, zint(st[1]), zint(new.t)), v.n)
        if st[0] == 'i':
            idx = st[1]
            if isinstance(v, Tup):
                elems = list(v.fs)
            elif isinstance(v, Seq):
                elems = list(v.elems)
            else:
                raise Unsupported('indexed write into %r' % (v,))
            if isinstance(idx, int):
                elems[idx] = self.write_path(elems[idx], path[1:], new, mem, guard, where)
            else:
                for j in range(len(elems)):
                    upd = self.write_path(elems[j], path[1:], new, mem, guard, where)
                    elems[j] = self.merge(zint(idx) == j, upd, elems[j])
            if isinstance(v, Tup):
                return Tup(elems)
            return Seq(elems, v.n, v.ety) if v.prefix else Seq(elems, None, v.ety, pres=v.pres)
        raise Unsupported('write projection ' + str(st))


class FnRun:
    """one activation of a MIR function"""

    def __init__(self, eng, fn, args, guard, mem):
        self.E = eng
        self.fn = fn
        self.fid = next(eng.ncell)
        self.cells = {}
        self.entry_guard = guard
        self.mem0 = mem
        for (n, ty), a in zip(fn.params, args):
            c = eng.new_cell()
            self.cells[n] = c
            mem[c] = a

    def cell(self, n, mem):
        c = self.cells.get(n)
        if c is None:
            c = self.E.new_cell()
            self.cells[n] = c
        return c

    # place -> (cell, path)
    def place_path(self, p, mem, guard):
        E = self.E
        if p[0] == 'local':
            return self.cell(p[1], mem), ()
        base_c, base_p = self.place_path(p[1], mem, guard)
        if p[0] == 'deref':
            return base_c, base_p + (('d',),)
        if p[0] == 'field':
            return base_c, base_p + (('f', p[2], p[3]),)
        if p[0] == 'downcast':
            return base_c, base_p + (('v', p[2]),)
        if p[0] == 'index':
            iv = self.read(('local', p[2]), mem, guard)
            return base_c, base_p + (('i', iv.t),)
        if p[0] == 'constindex':
            if p[3]:
                raise Unsupported('from-end constant index')
            return base_c, base_p + (('i', p[2]),)
        raise Unsupported('place ' + str(p))

    def where(self):
        return self.fn.name

    def read(self, p, mem, guard):
        c, path = self.place_path(p, mem, guard)
        if c not in mem:
            root = p
            while root[0] != 'local':
                root = root[1]
            ty = self.fn.locals.get(root[1])
            if getattr(self, 'havoc_uninit', False) and ty is not None:
                # loop-step mode: a local that is live at the loop head but was not given by the caller holds an
                # ARBITRARY value of its type (over-approximation of every pre-state; sound for 'holds')
                mem[c] = self.E.sym('pre._%d' % root[1], ty, mem)
                self.havoced = getattr(self, 'havoced', []) + [root[1]]
            else:
                raise Unsupported('read of uninitialised local %s in %s' % (p, self.fn.name))
        return self.E.read_path(mem[c], path, mem, guard, self.where())

    def write(self, p, v, mem, guard):
        c, path = self.place_path(p, mem, guard)
        mem[c] = self.E.write_path(mem.get(c), path, v, mem, guard, self.where())

    def operand(self, o, mem, guard, ty_hint=None):
        if o[0] in ('copy', 'move'):
            return self.read(o[1], mem, guard)
        self.E._cur_mem = mem
        self.E._cur_fn = self.fn.name
        return self.E.const(o[1], ty_hint)

    def place_ty(self, p):
        if p[0] == 'local':
            return self.fn.locals.get(p[1])
        if p[0] == 'field':
            return p[3]
        return None

    # ------------------------------------------------------------------
    def rvalue(self, rv, mem, guard, dest_ty):
        E = self.E
        k = rv[0]
        if k == 'use':
            return self.operand(rv[1], mem, guard, dest_ty)
        if k == 'ref':
            c, path = self.place_path(rv[2], mem, guard)
            # reborrow through a deref: resolve to the pointee's own cell
            if path and path[-1] == ('d',) or any(s[0] == 'd' for s in path):
                return self.resolve_ref(c, path, mem, guard)
            if c not in mem and getattr(self, 'havoc_uninit', False):
                # region / loop-step mode: a borrow of a local that is live at the region start but was not given
                root = rv[2]
                while root[0] != 'local':
                    root = root[1]
                ty = self.fn.locals.get(root[1])
                if ty is not None and self.cells.get(root[1]) == c:
                    mem[c] = E.sym('pre._%d' % root[1], ty, mem)
                    self.havoced = getattr(self, 'havoced', []) + [root[1]]
            return Ref(c, path)
        if k == 'binop':
            a = self.operand(rv[2], mem, guard)
            b = self.operand(rv[3], mem, guard, a.ty if isinstance(a, I) else None)
            if isinstance(b, I) and not isinstance(a, I):
                a = self.operand(rv[2], mem, guard, b.ty)
            return E.binop(rv[1], a, b, guard, self.where())
        if k == 'unop':
            a = self.operand(rv[2], mem, guard, dest_ty)
            if rv[1] == 'Not':
                if isinstance(a, B):
                    return B(Not(a.t))
                if isinstance(a, I):
                    w, s = INT_TYS[a.ty]
                    if s:
                        return I(-a.t - 1, a.ty)
                    return I(((1 << w) - 1) - a.t, a.ty)
                if isinstance(a, Opaque):
                    E.unsup(guard, 'Not of opaque in ' + self.where())
                    return a
            if rv[1] == 'Neg' and isinstance(a, I):
                return I(E.wrap(-a.t, a.ty), a.ty)
            if rv[1] == 'PtrMetadata':
                tgt = a
                if isinstance(a, Ref):
                    tgt = E.read_path(mem[a.cell], a.path, mem, guard, self.where())
                if isinstance(tgt, Seq):
                    return I(tgt.n, 'usize')
                if isinstance(tgt, Tup):
                    return I(len(tgt.fs), 'usize')
            raise Unsupported('unop %s on %r' % (rv[1], a))
        if k == 'cast':
            v = self.operand(rv[1], mem, guard)
            ty, kind = rv[2], rv[3]
            if kind == 'IntToInt':
                return E.cast_int(v, ty)
            if kind == 'Transmute' and ty.strip() == 'usize' and isinstance(v, Ref) and v.cell in getattr(E, 'box_cells', ()):
                # the address of a fresh Box allocation (the `vec![..]` literal): only its alignment / null checks look
                # at it. A Box is aligned for its type and never null: the address is some non-zero multiple of 4096.
                a = z3.Int('boxaddr!%d' % v.cell)
                E.assume(z3.And(a > 0, a < (1 << 47), a % 4096 == 0), ('boxaddr', v.cell))
                return I(a, 'usize')
            if kind in ('Transmute', 'PtrToPtr', 'PointerCoercion(Unsize, Implicit)', 'PointerCoercion(Unsize, AsCast)',
                        'PointerCoercion(MutToConstPointer, Implicit)', 'Subtype'):
                if isinstance(v, Ref):
                    return v
            if kind.startswith('PointerCoercion(ClosureFnPointer') or kind.startswith('PointerCoercion(ReifyFnPointer'):
                return v
            if isinstance(v, Opaque):
                return v
            raise Unsupported('cast %s of %r in %s' % (kind, v, self.where()))
        if k == 'discr':
            v = self.read(rv[1], mem, guard)
            if isinstance(v, Opaque):
                E.unsup(guard, 'discriminant of opaque in ' + self.where())
                return I(z3.Int('opq!%d' % next(E.nfresh)), 'isize')
            if isinstance(v, Cor):
                return I(v.d, 'u32')
            if not isinstance(v, En):
                raise Unsupported('discriminant of %r in %s' % (v, self.where()))
            return I(E.discr_value(v), 'isize')
        if k == 'len':
            v = self.read(rv[1], mem, guard)
            if isinstance(v, Seq):
                return I(v.n, 'usize')
            if isinstance(v, Tup):
                return I(len(v.fs), 'usize')
            raise Unsupported('Len of %r' % (v,))
        if k == 'aggregate':
            kind, name, fields = rv[1], rv[2], rv[3]
            vals = [self.operand(o, mem, guard) for _, o in fields]
            if kind in ('tuple', 'array'):
                return Tup(vals)
            mc = re.match(r'\{coroutine@(.*?)(?: \(#\d+\))?\}$', name)
            if mc:
                # an async block being created: state 0, captured variables in declaration order
                return Cor(0, dict(enumerate(vals)), None, None, mc.group(1))
            return E.make_adt(name, vals, [n for n, _ in fields], dest_ty)
        if k == 'repeat':
            v = self.operand(rv[1], mem, guard)
            m = re.match(r'(?:const )?(\d+)', rv[2])
            if not m:
                raise Unsupported('repeat count ' + rv[2])
            return Tup([v] * int(m.group(1)))
        raise Unsupported('rvalue ' + str(rv)[:120])

    def resolve_ref(self, c, path, mem, guard):
        """turn (cell, path containing derefs) into a Ref to the final storage"""
        E = self.E
        cur_c, cur_p = c, ()
        for st in path:
            if st[0] == 'd':
                if cur_c not in mem and getattr(self, 'havoc_uninit', False):
                    for n_, c_ in self.cells.items():
                        if c_ == cur_c and self.fn.locals.get(n_) is not None:
                            mem[cur_c] = E.sym('pre._%d' % n_, self.fn.locals[n_], mem)
                            self.havoced = getattr(self, 'havoced', []) + [n_]
                v = E.read_path(mem[cur_c], cur_p, mem, guard, self.where())
                if not isinstance(v, Ref):
                    if isinstance(v, Opaque):
                        return v
                    raise Unsupported('reborrow through non-reference in ' + self.where())
                cur_c, cur_p = v.cell, v.path
            else:
                cur_p = cur_p + (st,)
        return Ref(cur_c, cur_p)

    # ------------------------------------------------------------------
    def analyse_cfg(self):
        fn = self.fn
        succ = {}
        for b, (body, term) in fn.blocks.items():
            k = term[0]
            if k == 'goto':
                s = [term[1]]
            elif k == 'switch':
                s = list(term[2].values()) + ([term[3]] if term[3] is not None else [])
            elif k == 'assert':
                s = [term[4]]
            elif k == 'drop':
                s = [term[2]]
            elif k == 'call':
                s = [term[4]] if term[4] is not None else []
            else:
                s = []
            succ[b] = list(dict.fromkeys(s))
        # iterative DFS for RPO and back edges
        color, order, back = {}, [], set()
        stack = [(0, iter(succ.get(0, [])))]
        color[0] = 1
        while stack:
            b, it = stack[-1]
            adv = False
            for s in it:
                if color.get(s, 0) == 0:
                    color[s] = 1
                    stack.append((s, iter(succ.get(s, []))))
                    adv = True
                    break
                elif color[s] == 1:
                    back.add((b, s))
            if not adv:
                color[b] = 2
                order.append(b)
                stack.pop()
        rpo = {b: i for i, b in enumerate(reversed(order))}
        pred = {}
        for b, ss in succ.items():
            if b not in rpo:
                continue
            for s in ss:
                pred.setdefault(s, []).append(b)
        loops = {}
        for (u, h) in back:
            body = loops.setdefault(h, {h})
            work = [u]
            while work:
                x = work.pop()
                if x in body:
                    continue
                body.add(x)
                work.extend(pred.get(x, []))
        encl = {}
        for b in rpo:
            hs = [h for h, body in loops.items() if b in body]
            hs.sort(key=lambda h: (-len(loops[h]), rpo[h]))
            encl[b] = hs
        return succ, rpo, back, encl

    def run(self, start_bb=None, init=None, stop_bbs=(), stop_stmts=None):
        """returns (return value or None, guard under which the function returns, mem).

        With `start_bb` (a loop head) the activation starts there instead of bb0, from the locals in
        `init` ({local index: value}), and executes exactly ONE iteration of that loop: every path
        that comes back to `start_bb` along a back edge is not continued but collected in
        `self.cut_states` [(guard, mem)] -- the post-state of one loop step, over which the caller
        asserts the loop invariant (inductive step from an arbitrary invariant-satisfying state).

        `stop_bbs`: blocks at which execution is cut as well (a region of a large function: the paths that
        reach such a block are collected in `self.stop_states[bb]` and not continued).
        `stop_stmts` {bb: k}: likewise, but the cut is inside block bb, before its k-th statement (MIR merges the end of a
        source-level region with what follows it into one block); collected in `self.stop_states[('stmt', bb)]`."""
        E = self.E
        fn = self.fn
        E.encoded[fn.name] = fn.header
        succ, rpo, back, encl = self.analyse_cfg()
        self.cut_states = []
        self.stop_states = {}
        if start_bb is not None:
            self.havoc_uninit = True
            for n, v in (init or {}).items():
                self.mem0[self.cell(n, self.mem0)] = v
        pending = {}     # node -> list of (guard, mem)
        heap = []
        cnt = itertools.count()

        def key(node):
            bb, counts = node
            k = []
            for h, c in zip(encl[bb], counts):
                k.extend((rpo[h], c))
            k.append(rpo[bb])
            return tuple(k)

        def push(node, guard, mem):
            if guard is False:
                return
            if node not in pending:
                pending[node] = []
                heapq.heappush(heap, (key(node), next(cnt), node))
            pending[node].append((guard, mem))

        if start_bb is None:
            push((0, ()), self.entry_guard, self.mem0)
        else:
            push((start_bb, tuple(0 for _ in encl[start_bb])), self.entry_guard, self.mem0)
        rets = []
        while heap:
            _, _, node = heapq.heappop(heap)
            bb, counts = node
            guard, mem = E.merge_mem(pending.pop(node))
            mem = dict(mem)
            g0 = simp(guard)
            if g0 is False:
                continue
            body, term = fn.blocks[bb]
            E.stat_states += 1
            try:
                cut_at = (stop_stmts or {}).get(bb)
                stopped = False
                for si, st in enumerate(body):
                    if cut_at is not None and si == cut_at:
                        self.stop_states.setdefault(('stmt', bb), []).append((guard, mem))
                        stopped = True
                        break
                    self.statement(st, mem, guard)
                if stopped:
                    continue
                outs = self.terminator(term, mem, guard)
                E.stat_edges += len(outs)
            except Unsupported as e:
                E.unsup(guard, '%s [%s bb%d]' % (e, fn.name, bb))
                continue
            for (tgt, g, m) in outs:
                if tgt == 'return':
                    rets.append((g, m))
                    continue
                if start_bb is not None and tgt == start_bb and (bb, tgt) in back:
                    if E.reachable(g):
                        self.cut_states.append((g, m))
                    continue
                if tgt in stop_bbs:
                    if E.reachable(g):
                        self.stop_states.setdefault(tgt, []).append((g, m))
                    continue
                hs = encl[tgt]
                cmap = dict(zip(encl[bb], counts))
                nc = []
                over = False
                for h in hs:
                    c = cmap.get(h, 0) if h in cmap else 0
                    if tgt == h and (bb, tgt) in back:
                        c += 1
                        if c > E.unwind:
                            over = True
                    nc.append(c)
                if over:
                    if not E.reachable(g):
                        continue
                    E.unwinds.append((simp(g), '%s bb%d' % (fn.name, tgt)))
                    continue
                if tgt in (h for h in hs) and (bb, tgt) in back:
                    # prune impossible iterations early
                    if not E.reachable(g):
                        continue
                push((tgt, tuple(nc)), g, m)
        if not rets:
            return None, False, self.mem0
        g, mem = E.merge_mem(rets)
        rv = mem.get(self.cells.get(0))
        return rv, g, mem

    def statement(self, st, mem, guard):
        k = st[0]
        if k == 'nop':
            return
        if k == 'assign':
            if st[2][0] == 'unsupported':
                raise Unsupported('rvalue: ' + st[2][1][:100])
            v = self.rvalue(st[2], mem, guard, self.place_ty(st[1]))
            self.write(st[1], v, mem, guard)
            return
        if k == 'setdiscr':
            cur = None
            try:
                cur = self.read(st[1], mem, guard)
            except Unsupported:
                pass
            if isinstance(cur, Cor):
                self.write(st[1], Cor(st[2], cur.ups, cur.vs, cur.base, cur.key), mem, guard)
                return
            ty = self.place_ty(st[1]) or (cur.name if isinstance(cur, En) else '?')
            vs = cur.vs if isinstance(cur, En) else {}
            self.write(st[1], En(ty, st[2], vs), mem, guard)
            return
        if k == 'assume':
            return
        raise Unsupported('statement: ' + str(st)[:100])

    def terminator(self, term, mem, guard):
        E = self.E
        k = term[0]
        if k == 'goto':
            return [(term[1], guard, mem)]
        if k == 'return':
            return [('return', guard, mem)]
        if k in ('unreachable',):
            return []
        if k == 'resume':
            return []
        if k == 'drop':
            return [(term[2], guard, mem)]
        if k == 'switch':
            v = self.operand(term[1], mem, guard)
            if isinstance(v, Opaque):
                raise Unsupported('branch on opaque value')
            outs = []
            conds = []
            for val, tgt in term[2].items():
                if isinstance(v, B):
                    c = Not(v.t) if val == 0 else v.t
                else:
                    c = simp(zint(v.t) == val) if not isinstance(v.t, int) else (v.t == val)
                conds.append(c)
                outs.append((tgt, simp(And(guard, c)), mem))
            if term[3] is not None:
                oc = And(*[Not(c) for c in conds])
                outs.append((term[3], simp(And(guard, oc)), mem))
            return [o for o in outs if o[1] is not False]
        if k == 'assert':
            c = self.operand(term[1], mem, guard)
            if isinstance(c, Opaque):
                raise Unsupported('assert on opaque')
            ok = c.t if term[2] else Not(c.t)
            E.panic(And(guard, Not(ok)), term[3], self.where())
            return [(term[4], simp(And(guard, ok)), mem)]
        if k == 'call':
            dest, func, args, ret = term[1], term[2], term[3], term[4]
            argv = [self.operand(a, mem, guard) for a in args]
            dty = self.place_ty(dest)
            res = E.call(func, argv, guard, mem, dty, self)
            if res is DIVERGE or ret is None:
                return []
            rv, g2 = res
            self.write(dest, rv, mem, guard)
            return [(ret, g2, mem)]
        if k == 'unsupported':
            raise Unsupported('terminator: ' + term[1][:100])
        raise Unsupported('terminator ' + k)


DIVERGE = object()


def _engine_reachable(self, g):
    g = simp(g)
    if g is False:
        return False
    if g is True:
        return True
    s = z3.Solver()
    s.set('timeout', 10000)
    for a in self.assumptions:
        s.add(a)
    s.add(g)
    return s.check() != z3.unsat


Engine.reachable = _engine_reachable


def _const(self, text, ty_hint=None):
    t = text.strip()
    if t == 'true':
        return B(True)
    if t == 'false':
        return B(False)
    if t == '()':
        return UNIT
    m = re.fullmatch(r'(-?\d+)_(u8|u16|u32|u64|u128|usize|i8|i16|i32|i64|i128|isize)', t)
    if m:
        return I(int(m.group(1)), m.group(2))
    m = re.fullmatch(r'(u8|u16|u32|u64|u128|usize|i8|i16|i32|i64|i128|isize)::(MAX|MIN)', t)
    if m:
        return I(self.tmax(m.group(1)) if m.group(2) == 'MAX' else self.tmin(m.group(1)), m.group(1))
    m = re.fullmatch(r'core::num::<impl (\w+)>::(MAX|MIN)', t)
    if m:
        return I(self.tmax(m.group(1)) if m.group(2) == 'MAX' else self.tmin(m.group(1)), m.group(1))
    if t.startswith('"') or t.startswith('b"'):
        return Opaque('str')
    if t.startswith('(') and t.endswith(')') and M.match_paren(t, 0) == len(t) - 1:
        parts = M.split_top(t[1:-1])
        return Tup([self.const(p[6:] if p.startswith('const ') else p) for p in parts])
    if t.startswith('[') and t.endswith(']'):
        inner = t[1:-1]
        k = M._find_top(inner, '; ')
        if k >= 0:
            n = inner[k + 2:].strip()
            if re.fullmatch(r'\d+', n):
                v = self.const(inner[:k])
                return Tup([v] * int(n))
        else:
            return Tup([self.const(p) for p in M.split_top(inner)])
    m = re.fullmatch(r'(.*?) \{\{ (.*) \}\}', t)
    if m:
        nm = _strip_generics(m.group(1)).split('::')[-1]
        vals = {}
        for k, it in enumerate(M.split_top(m.group(2))):
            kk = it.index(': ')
            vals[k] = self.const(it[kk + 2:].strip())
        return Adt(nm, vals, None)
    # zero-sized function item / closure:  path::to::fn  or {closure@..}
    if t.startswith('ZeroSized: '):
        t = t[11:].strip()
        m = re.fullmatch(r'fn\(.*?\)(?: -> .*?)? \{(.*)\}', t)
        if m:
            return Clo(m.group(1), [])
    if t.startswith('{closure@'):
        return Clo(t, [])
    # enum variant constant:  Path::<..>::Variant(args) | Path::Variant
    v = self.const_adt(t)
    if v is not None:
        return v
    # named / promoted constant with a body in the dump
    tn = re.sub(r'::<[^<>]*(?:<[^<>]*>[^<>]*)*>', '', t)      # generic instantiation of the owner: f::<W>::promoted[3]
    mp = re.search(r'::(promoted\[\d+\])$', t)
    if mp and getattr(self, '_cur_fn', None) and self.ix.find_const(self._cur_fn + '::' + mp.group(1)) is not None \
            and (t.startswith('<') or not re.fullmatch(r'[\w:]+(?:::promoted\[\d+\])?', tn)):
        # promoted constant of a trait-impl method, printed as `<T as Trait>::m::<W>::promoted[k]` at the use
        # site but defined as `<impl at file:line>::m::promoted[k]`: it belongs to the function being executed
        tn = self._cur_fn + '::' + mp.group(1)
        t = tn
        c = self.ix.find_const(t)
    elif re.fullmatch(r'[\w:]+(?:::promoted\[\d+\])?', tn):
        t = tn
        c = self.ix.find_const(t)
        if c is None and mp and getattr(self, '_cur_fn', None):
            # promoted constant of an inherent method of a generic type, printed as `path::Type::<..>::m::promoted[k]`
            # at the use site but defined as `<impl at file:line>::m::promoted[k]`: the function being executed, if its
            # method name is the same
            meth = tn[:-len('::' + mp.group(1))].rsplit('::', 1)[-1]
            if self._cur_fn.endswith('::' + meth) and self.ix.find_const(self._cur_fn + '::' + mp.group(1)) is not None:
                t = tn = self._cur_fn + '::' + mp.group(1)
                c = self.ix.find_const(t)
    else:
        c = None
    if c is not None or re.fullmatch(r'[\w:]+(?:::promoted\[\d+\])?', tn):
        if c is not None:
            key = ('const', t)
            if key not in self._const_cache:
                ty, rhs, body = c
                if rhs is not None:
                    val = self.const(rhs[6:] if rhs.startswith('const ') else rhs, ty)
                    self._const_cache[key] = (val, {})
                else:
                    fn = M.parse_function(body)
                    cmem = {}
                    outer, outer_fn = self._cur_mem, getattr(self, '_cur_fn', None)     # evaluating the body re-targets both
                    try:
                        r = self.call_fn(fn, [], True, cmem)
                    finally:
                        self._cur_mem, self._cur_fn = outer, outer_fn
                    if r is DIVERGE:
                        raise Unsupported('constant %s did not evaluate' % t)
                    self._const_cache[key] = (r[0], cmem)
            val, cmem = self._const_cache[key]
            if cmem and self._cur_mem is not None:
                for k, v in cmem.items():
                    self._cur_mem.setdefault(k, v)
            return val
    return Opaque('const ' + t[:60])


def _const_adt(self, t):
    t = t.strip()
    args = []
    head = t
    if t.endswith(')'):
        depth = 0
        for j in range(len(t) - 1, -1, -1):
            if t[j] == ')':
                depth += 1
            elif t[j] == '(':
                depth -= 1
                if depth == 0:
                    break
        head = t[:j]
        inner = t[j + 1:-1].strip()
        args = M.split_top(inner) if inner else []
    elif t.endswith('}') and ' {' in t:
        j = t.index(' {')
        head = t[:j]
        inner = t[j + 2:-1].strip()
        args = [a.split(': ', 1)[1] for a in M.split_top(inner)] if inner else []
    segs = M.split_top(head.replace('::', '\x00'), '\x00')
    segs = [s for s in segs if s and not s.startswith('<')]
    if len(segs) == 1 and t.endswith(')') and segs[0][:1].isupper() and args:
        # tuple-struct constant:  Name(const args)
        return Adt(segs[0], {k: self.const(a.strip()[6:] if a.strip().startswith('const ') else a.strip()) for k, a in enumerate(args)}, None)
    if len(segs) < 2:
        return None
    variant = segs[-1]
    ename = segs[-2]
    try:
        vi = self.variant_index(ename, variant)
    except (KeyError, ValueError):
        return None
    vals = []
    for a in args:
        a = a.strip()
        if a.startswith('const '):
            a = a[6:]
        vals.append(self.const(a))
    return En(ename, vi, {vi: vals} if vals else {})


Engine.const = _const
Engine.const_adt = _const_adt


def _make_adt(self, name, vals, fnames, dest_ty):
    name = name.strip()
    if name.startswith('{closure@'):
        return Clo(name, vals)
    segs = [s for s in M.split_top(name.replace('::', '\x00'), '\x00') if s and not s.startswith('<')]
    if len(segs) >= 2:
        ename, variant = segs[-2], segs[-1]
        try:
            vi = self.variant_index(ename, variant)
            return En(ename, vi, {vi: vals})
        except (KeyError, ValueError):
            pass
    return Adt(segs[-1] if segs else name, dict(enumerate(vals)), None)


Engine.make_adt = _make_adt


# module-path prefixes (lower-case segments) are printed or trimmed by rustc depending on what else
# is in scope; models are matched against the raw callee string and against this normal form
_NORM_RX = re.compile(r'\b(?:[a-z_][a-z0-9_]*::)+(?=[A-Za-z_{\[]|<impl )')


def _call(self, func, argv, guard, mem, dest_ty, caller):
    """returns (value, guard_after) or DIVERGE"""
    norm = _NORM_RX.sub('', func)
    for rx, h in self.models:
        m = rx.search(func) or (rx.search(norm) if norm != func else None)
        if m:
            r = h(self, m, func, argv, guard, mem, dest_ty, caller)
            if r is NotImplemented:
                continue
            if r is DIVERGE:
                return DIVERGE
            if isinstance(r, tuple):
                return r
            return (r, guard)
    fn = self.resolve(func, argv)
    if fn is None:
        # the blanket `impl<T, U: From<T>> Into<U> for T`: <A as Into<B>>::into(x) is <B as From<A>>::from(x) - look for a crate
        # `from` with exactly that signature
        mi = re.match(r'^<(.+) as Into<(.+)>>::into$', func.strip())
        if mi:
            tb = lambda t: re.sub(r'<.*$', '', t).split('::')[-1].strip('&').strip()
            a_, b_ = tb(mi.group(1)), tb(mi.group(2))
            cs = [i for i in self.ix.find('from') if '<impl at ' in self.ix.offsets[i][0] and M.header_name(self.ix.offsets[i][0]).endswith('::from')]
            cs = [i for i in cs if len(self.ix.get(i).params) == 1 and tb(self.ix.get(i).params[0][1]) == a_ and tb(self.ix.get(i).ret_ty) == b_]
            if len(cs) > 1 and len({self.ix.offsets[i][0] for i in cs}) == 1:
                cs = cs[:1]
            if len(cs) == 1:
                fn = self.ix.get(cs[0])
    if fn is None:
        self.unsup(guard, 'call to unmodelled function %s (from %s)' % (func[:140], caller.fn.name if caller else '?'))
        return (Opaque('call ' + func[:40]), guard)
    return self.call_fn(fn, argv, guard, mem)


def _call_fn(self, fn, argv, guard, mem):
    if self.depth > 40:
        raise Unsupported('call depth')
    self.depth += 1
    try:
        run = FnRun(self, fn, argv, guard, mem)
        rv, g, m2 = run.run()
    finally:
        self.depth -= 1
    if g is False:
        return DIVERGE
    # propagate memory effects (writes through &mut) back into caller's mem
    for k, v in m2.items():
        mem[k] = v
    return (rv if rv is not None else UNIT, g)


Engine.call = _call
Engine.call_fn = _call_fn


def _strip_generics(path):
    """remove ::<...> turbofish segments at any position"""
    out = []
    i = 0
    while i < len(path):
        if path.startswith('::<', i):
            j = M.match_paren(path, i + 2)
            i = j + 1
            continue
        out.append(path[i])
        i += 1
    return ''.join(out)


def _resolve(self, func, argv=None):
    """map a callee string from a MIR call terminator to a Function in the dump"""
    f = _strip_generics(func.strip())
    nargs = len(argv) if argv is not None else None
    base = f.split('::')[-1]
    if not re.fullmatch(r'\w+', base):
        return None
    cands = []
    tyname = None
    m = re.match(r'<(.+) as (.+)>::\w+$', f)
    if m:
        tyname = m.group(1)
    elif re.fullmatch(r'[\w:]+', f):
        # free function path (possibly partially qualified) or Type::method
        for nm, idxs in self.ix.by_name.items():
            if 'verif_hooks' in nm and 'verif_hooks' not in f:
                continue
            if nm == f or nm.endswith('::' + f) or f.endswith('::' + nm):
                if '<impl at ' in nm:
                    continue
                if f.endswith('::' + nm) and nm != f:
                    # the part of the callee path the dump does not print must be module segments only
                    # (a capitalised segment is a type: `Type::method`, resolved below)
                    extra = f[:-len(nm) - 2].split('::')
                    if any(seg[:1].isupper() for seg in extra):
                        continue
                cands.extend(idxs)
        if nargs is not None:
            cands = [i for i in cands if self.ix.get(i).nargs == nargs]
        if len(cands) == 1:
            return self.ix.get(cands[0])
        if len(cands) > 1:
            raise Unsupported('ambiguous callee %s (%d candidates)' % (func[:100], len(cands)))
        if '::' in f:
            tyname = f.rsplit('::', 1)[0]
    else:
        m2 = re.match(r'(.*)::\w+$', f)
        if m2:
            tyname = m2.group(1)
    if tyname is None:
        return None
    tbase = re.sub(r'<.*$', '', tyname).split('::')[-1].strip('&').strip()
    if not tbase:
        return None
    meth = [i for i in self.ix.find(base) if '<impl at ' in self.ix.offsets[i][0]]
    if nargs is not None:
        meth = [i for i in meth if self.ix.get(i).nargs == nargs]
    good = []
    for i in meth:
        fn = self.ix.get(i)
        p1 = fn.params[0][1] if fn.params else ''
        if re.search(r'\b%s\b' % re.escape(tbase), p1) or re.search(r'\b%s\b' % re.escape(tbase), fn.ret_ty):
            good.append(i)
    if not good and meth:
        # associated function without receiver: use the file that declares the type
        files = [pth for (pth, _) in (self.decls.structs.get(tbase, []) + self.decls.enums.get(tbase, []))]
        rel = [f_.split('/repo/')[-1] for f_ in files]
        good = [i for i in meth if any(('<impl at ' + r + ':') in self.ix.offsets[i][0] for r in rel)]
        if len(good) > 1:
            # several impl blocks in that file: keep those whose callee name suffix matches exactly
            good = [i for i in good if M.header_name(self.ix.offsets[i][0]).endswith('::' + base)]
    if len(good) > 1 and len({self.ix.offsets[i][0] for i in good}) == 1:
        good = good[:1]        # a `const fn` is dumped twice (runtime and const-eval MIR) with the same header
    if len(good) == 1:
        return self.ix.get(good[0])
    if len(good) > 1:
        # prefer the receiver type match over a return type match
        g2 = [i for i in good if re.search(r'\b%s\b' % re.escape(tbase), self.ix.get(i).params[0][1] if self.ix.get(i).params else '')]
        if len(g2) == 1:
            return self.ix.get(g2[0])
        # use the module path of the callee's type as a hint (e.g. channelmonitor::OnchainEventEntry)
        segs = [x for x in re.sub(r'<.*$', '', tyname).split('::')[:-1] if x and x not in ('crate', 'self', 'super')]
        if segs:
            g3 = [i for i in (g2 or good) if all(sg in self.ix.offsets[i][0] for sg in segs[-1:])]
            if len(g3) == 1:
                return self.ix.get(g3[0])
        # a binary operator trait implemented for several right-hand types by one macro (`impl BitOr for X` next to
        # `impl BitOr<Y> for X`): the trait's generic argument - Self when there is none - is the second parameter's type
        mt = re.match(r'^<(.+) as (?:[\w:]+::)?\w+(?:<(.+)>)?>::\w+$', func.strip())
        if mt:
            rhs = mt.group(2) if mt.group(2) else mt.group(1)
            rb = re.sub(r'<.*$', '', rhs).split('::')[-1].strip('&').strip()
            g4 = [i for i in (g2 or good) if len(self.ix.get(i).params) >= 2 and re.sub(r'<.*$', '', self.ix.get(i).params[1][1]).split('::')[-1].strip('&').strip() == rb]
            if len(g4) > 1 and len({self.ix.offsets[i][0] for i in g4}) == 1:
                g4 = g4[:1]
            if len(g4) == 1:
                return self.ix.get(g4[0])
        raise Unsupported('ambiguous method %s (%d candidates)' % (func[:100], len(good)))
    return None


Engine.resolve = _resolve


def _call_closure(self, clo, args, guard, mem):
    """invoke closure value `clo` with the given argument values"""
    if isinstance(clo, Ref):
        target = self.read_path(mem[clo.cell], clo.path, mem, guard, 'closure')
        return self.call_closure(target, args, guard, mem)
    if not isinstance(clo, Clo):
        raise Unsupported('call of non-closure %r' % (clo,))
    idxs = self.ix.closures.get(clo.key)
    if not idxs:
        # function item used as a closure
        fn = self.resolve(clo.key, args)
        if fn is None:
            raise Unsupported('closure body not found: ' + clo.key)
        return self.call_fn(fn, args, guard, mem)
    fn = None
    for i in idxs:
        f = self.ix.get(i)
        if f.nargs == len(args) + 1:
            fn = f
            break
    if fn is None:
        # closures taking a tuple of args
        fn = self.ix.get(idxs[0])
    p1 = fn.params[0][1]
    if p1.startswith('&'):
        c = self.new_cell()
        mem[c] = clo
        self_arg = Ref(c)
    else:
        self_arg = clo
    return self.call_fn(fn, [self_arg] + list(args), guard, mem)


Engine.call_closure = _call_closure


def _cond_call_closure(self, clo, args, guard, cond, mem):
    """call a closure that only runs when `cond` holds (cond is not part of the caller's guard):
    memory effects are merged in under cond.  Returns result value or DIVERGE."""
    g = simp(And(guard, cond))
    if g is False:
        return DIVERGE
    if cond is True:
        return self.call_closure(clo, args, g, mem)
    snap = dict(mem)
    res = self.call_closure(clo, args, g, mem)
    for k in list(mem):
        if k in snap and mem[k] is not snap[k]:
            mem[k] = self.merge(cond, mem[k], snap[k])
    return res


Engine.cond_call_closure = _cond_call_closure
