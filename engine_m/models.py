"""Models of callees that live outside the dumped crate (core/alloc/std and a few
lightning-types items).  Each handler: h(E, match, func, argv, guard, mem, dest_ty, caller)."""
import re
import z3
from .exec import (I, B, Tup, Adt, En, Ref, Clo, Seq, It, Opaque, UNIT, DIVERGE, Unsupported, Abs, ABS_HASH,
                   INT_TYS, And, Or, Not, If, zint, zbool, simp, split_generic)
from . import mir as M


def deref(E, v, mem, guard):
    while isinstance(v, Ref):
        v = E.read_path(mem[v.cell], v.path, mem, guard, 'model')
    return v


def opt_none(name='Option'):
    return En('Option', 0, {})


def opt_some(v):
    return En('Option', 1, {1: [v]})


def mk_opt(E, cond, v):
    """Some(v) if cond else None"""
    if cond is True:
        return opt_some(v)
    if cond is False:
        return En('Option', 0, {1: [v]})
    return En('Option', If(cond, 1, 0), {1: [v]})


def is_some(en):
    if isinstance(en.d, int):
        return en.d == 1
    return en.d == 1


def payload(E, en, vi, k=0, ty=None, mem=None):
    pl = en.vs.get(vi)
    if pl is None or len(pl) <= k or pl[k] is None:
        # same symbol names as a direct MIR downcast read (Engine.en_payload)
        return E.en_payload(en, E.variant_name(en.name, vi), vi, k, ty, mem, 'model')
    return pl[k]


def install(E):
    def reg(rx, h):
        E.models.append((re.compile(rx), h))

    # ---- panics ------------------------------------------------------------
    def h_panic(E, m, func, argv, guard, mem, dty, caller):
        E.panic(guard, 'explicit panic: ' + func[:60], caller.fn.name if caller else '?')
        return DIVERGE
    reg(r'^(core|std)::panicking::|^panic$|^panic_fmt$|^panic_display::<|^panic_nounwind|^panic_explicit$|^unreachable_display|^core::option::(unwrap|expect)_failed|^core::result::unwrap_failed|'
        r'^std::rt::begin_panic|^core::slice::index::slice_\w+_fail|^core::str::slice_error_fail', h_panic)

    # ---- integer methods ---------------------------------------------------
    def h_intop(E, m, func, argv, guard, mem, dty, caller):
        ty, mode, op = m.group(1), m.group(2), m.group(3)
        a, b = argv
        if isinstance(a, Opaque) or isinstance(b, Opaque):
            E.unsup(guard, 'opaque operand in ' + func)
            return Opaque('intop')
        x, y = a.t, b.t
        r = x + y if op == 'add' else (x - y if op == 'sub' else x * y)
        ok = E.in_range(r, ty)
        if mode == 'checked':
            # the payload is only meaningful when Some, i.e. when r is in range
            return mk_opt(E, ok, I(r, ty))
        if mode == 'wrapping':
            return I(E.wrap(r, ty), ty)
        if mode == 'overflowing':
            return Tup([I(E.wrap(r, ty), ty), B(Not(ok))])
        if mode == 'saturating':
            if ok is True:
                return I(r, ty)
            if ok is False:
                return I(E.tmax(ty) if r > E.tmax(ty) else E.tmin(ty), ty)
            hi = zint(r) > E.tmax(ty)
            return I(If(ok, r, If(hi, E.tmax(ty), E.tmin(ty))), ty)
        if mode == 'strict' or mode == 'unchecked':
            E.panic(And(guard, Not(ok)), 'overflow in ' + func, caller.fn.name)
            return I(E.wrap(r, ty), ty)
        return NotImplemented
    reg(r'^core::num::<impl (\w+)>::(checked|saturating|wrapping|overflowing|strict|unchecked)_(add|sub|mul)$', h_intop)

    def h_int_misc(E, m, func, argv, guard, mem, dty, caller):
        ty, name = m.group(1), m.group(2)
        vals = [deref(E, a, mem, guard) for a in argv]
        if any(isinstance(v, Opaque) for v in vals):
            E.unsup(guard, 'opaque operand in ' + func)
            return Opaque('intmisc')
        if name == 'checked_div':
            a, b = vals
            nz = zint(b.t) != 0 if not isinstance(b.t, int) else b.t != 0
            safe = If(nz, b.t, 1)
            return mk_opt(E, simp(nz), E.binop('Div', a, I(safe, ty), guard, func))
        if name in ('overflowing_div', 'overflowing_rem', 'wrapping_div', 'wrapping_rem', 'div_euclid', 'rem_euclid') and not INT_TYS[ty][1]:
            a, b = vals
            zero = (b.t == 0) if isinstance(b.t, int) else (zint(b.t) == 0)
            E.panic(And(guard, zero), 'division by zero', caller.fn.name)
            r = E.binop('Div' if 'div' in name else 'Rem', a, b, guard, func)
            return Tup([r, B(False)]) if name.startswith('overflowing') else r
        if name == 'div_ceil':
            a, b = vals
            zero = (b.t == 0) if isinstance(b.t, int) else (zint(b.t) == 0)
            E.panic(And(guard, zero), 'division by zero in div_ceil', caller.fn.name)
            q = E.binop('Div', a, b, guard, func)
            r = E.binop('Rem', a, b, guard, func)
            return I(If(simp(zint(r.t) > 0), zint(q.t) + 1, q.t), ty)
        if name == 'abs_diff':
            a, b = vals
            return I(If(simp(zint(a.t) >= zint(b.t)), zint(a.t) - zint(b.t), zint(b.t) - zint(a.t)), ty)
        if name == 'pow':
            a, b = vals
            if isinstance(b.t, int):
                r = 1
                for _ in range(b.t):
                    r = r * a.t
                ok = E.in_range(r, ty)
                E.panic(And(guard, Not(ok)), 'overflow in pow', caller.fn.name)
                return I(E.wrap(r, ty), ty)
        if name in ('leading_zeros', 'trailing_zeros', 'count_ones'):
            a = vals[0]
            w, s = INT_TYS[ty]
            if isinstance(a.t, int):
                v = a.t % (1 << w)
                if name == 'leading_zeros':
                    r = w - v.bit_length()
                elif name == 'trailing_zeros':
                    r = w if v == 0 else (v & -v).bit_length() - 1
                else:
                    r = bin(v).count('1')
                return I(r, 'u32')
            if name == 'trailing_zeros':
                r = w
                for k in range(w - 1, -1, -1):
                    r = If(zint(a.t) % (1 << (k + 1)) >= (1 << k), If(zint(a.t) % (1 << k) == 0, k, r), r)
                # simpler exact form: smallest k with bit k set
                r = w
                for k in range(w - 1, -1, -1):
                    r = If((zint(a.t) / (1 << k)) % 2 == 1, k, r)
                return I(r, 'u32')
            if name == 'leading_zeros':
                r = w
                for k in range(w):
                    r = If(zint(a.t) >= (1 << k), w - 1 - k, r)
                return I(r, 'u32')
        if name in ('to_be_bytes', 'to_le_bytes'):
            a = vals[0]
            w, s = INT_TYS[ty]
            n = w // 8
            if isinstance(a.t, int):
                bs = [I((a.t >> (8 * ((n - 1 - k) if name == 'to_be_bytes' else k))) & 0xff, 'u8') for k in range(n)]
                return Tup(bs)
            # definitional encoding: fresh byte symbols with  x == sum b_k * 256^k  (linear; the bytes of a
            # value are unique, so this loses nothing and spares the solver div/mod reasoning)
            key = ('bytes', a.t.get_id())
            if key not in E._const_cache:
                sy = [E.int_sym('byte!%d' % next(E.nfresh), 'u8') for _ in range(n)]     # little-endian order
                tot = 0
                for k, b in enumerate(sy):
                    tot = tot + b.t * (1 << (8 * k))
                val = zint(a.t) if not s else zint(a.t) + (1 << w) * If(zint(a.t) < 0, 1, 0)
                E.assume(val == tot)
                E._const_cache[key] = (sy, a.t)
            sy = E._const_cache[key][0]
            return Tup(list(reversed(sy)) if name == 'to_be_bytes' else list(sy))
        if name in ('from_be_bytes', 'from_le_bytes'):
            a = vals[0]
            n = len(a.fs)
            tot = 0
            for k, bv in enumerate(a.fs):
                sh = (n - 1 - k) if name == 'from_be_bytes' else k
                tot = tot + zint(bv.t) * (1 << (8 * sh)) if not isinstance(bv.t, int) or not isinstance(tot, int) else tot + bv.t * (1 << (8 * sh))
            return I(tot, ty)
        if name in ('min', 'max'):
            a, b = vals
            return h_minmax_vals(E, name, a, b)
        if name == 'is_power_of_two':
            return NotImplemented
        if name == 'checked_shr' or name == 'checked_shl':
            a, b = vals
            w, s = INT_TYS[ty]
            ok = simp(zint(b.t) < w) if not isinstance(b.t, int) else b.t < w
            r = E.binop('Shr' if name.endswith('shr') else 'Shl', a, I(If(ok, b.t, 0), b.ty), guard, func)
            return mk_opt(E, ok, r)
        return NotImplemented
    reg(r'^core::num::<impl (\w+)>::(\w+)$', h_int_misc)

    def h_minmax_vals(E, name, a, b):
        if isinstance(a, I) and isinstance(b, I):
            if isinstance(a.t, int) and isinstance(b.t, int):
                return I(min(a.t, b.t) if name == 'min' else max(a.t, b.t), a.ty)
            le = zint(a.t) <= zint(b.t)
            return I(If(le, a.t, b.t) if name == 'min' else If(le, b.t, a.t), a.ty)
        raise Unsupported('min/max of %r' % (a,))

    def h_minmax(E, m, func, argv, guard, mem, dty, caller):
        a, b = argv
        if isinstance(a, Opaque) or isinstance(b, Opaque):
            E.unsup(guard, 'opaque operand in ' + func)
            return Opaque('minmax')
        if isinstance(a, I):
            return h_minmax_vals(E, m.group(1), a, b)
        return NotImplemented
    reg(r'^(?:std|core)::cmp::(min|max)::<', h_minmax)
    reg(r'^<\w+ as Ord>::(min|max)$', h_minmax)
    reg(r'^(?:std|core)::cmp::Ord::(min|max)$', h_minmax)

    # ---- conversions -------------------------------------------------------
    def h_from_int(E, m, func, argv, guard, mem, dty, caller):
        dst = m.group(1)
        v = argv[0]
        if isinstance(v, (I, B)):
            return E.cast_int(v, dst)
        return NotImplemented
    reg(r'^<(u8|u16|u32|u64|u128|usize|i8|i16|i32|i64|i128|isize) as (?:std::convert::|core::convert::)?From<\w+>>::from$', h_from_int)

    def h_into_int(E, m, func, argv, guard, mem, dty, caller):
        v = argv[0]
        if isinstance(v, (I, B)) and m.group(2) in INT_TYS:
            return E.cast_int(v, m.group(2))
        if m.group(1) == m.group(2):
            return v
        return NotImplemented
    reg(r'^<([\w:]+) as (?:std::convert::|core::convert::)?Into<([\w:]+)>>::into$', h_into_int)

    def h_try_from_int(E, m, func, argv, guard, mem, dty, caller):
        dst = m.group(1)
        v = argv[0]
        if not isinstance(v, I):
            return NotImplemented
        ok = E.in_range(v.t, dst)
        val = I(v.t, dst)   # only meaningful when Ok
        if ok is True:
            return En('Result', 0, {0: [val], 1: [UNIT]})
        return En('Result', If(ok, 0, 1), {0: [val], 1: [UNIT]})
    reg(r'^<(u8|u16|u32|u64|u128|usize|i8|i16|i32|i64|i128|isize) as (?:std::convert::|core::convert::)?TryFrom<\w+>>::try_from$', h_try_from_int)

    def h_try_into_int(E, m, func, argv, guard, mem, dty, caller):
        return h_try_from_int(E, re.match(r'(.*)', m.group(2)), func, argv, guard, mem, dty, caller)
    reg(r'^<(\w+) as (?:std::convert::|core::convert::)?TryInto<(u8|u16|u32|u64|u128|usize|i8|i16|i32|i64|i128|isize)>>::try_into$',
        lambda E, m, func, argv, guard, mem, dty, caller: h_try_from_int(E, re.match(r'(\w+)', m.group(2)), func, argv, guard, mem, dty, caller))

    def h_clone(E, m, func, argv, guard, mem, dty, caller):
        v = deref(E, argv[0], mem, guard)
        if isinstance(v, (I, B, Tup, En, Adt)):
            return v
        return NotImplemented
    reg(r'^<.* as Clone>::clone$', h_clone)

    # ---- Option --------------------------------------------------------------
    def h_option(E, m, func, argv, guard, mem, dty, caller):
        name = m.group(1)
        o = argv[0]
        o = deref(E, o, mem, guard) if name in ('is_some', 'is_none') else o
        if isinstance(o, Opaque):
            E.unsup(guard, 'opaque option in ' + func)
            return Opaque('option')
        if not isinstance(o, En):
            return NotImplemented
        some = simp(is_some(o))
        tys = split_generic(re.sub(r'::\w+(::<.*>)?$', '', func))[1]
        inner_ty = tys[0] if tys else None

        def val():
            return payload(E, o, 1, 0, inner_ty, mem)
        if name == 'is_some':
            return B(some)
        if name == 'is_none':
            return B(Not(some))
        if name in ('unwrap', 'expect'):
            E.panic(And(guard, Not(some)), 'unwrap on None', caller.fn.name)
            g2 = simp(And(guard, some))
            if g2 is False:
                return DIVERGE
            return (val(), g2)
        if name == 'unwrap_or':
            if some is False:
                return argv[1]
            return E.merge(some, val(), argv[1])
        if name == 'unwrap_or_default':
            if some is False:
                d0 = argv[1] if len(argv) > 1 else None
                if inner_ty in INT_TYS:
                    return I(0, inner_ty)
                if inner_ty == 'bool':
                    return B(False)
                return NotImplemented
            v = val()
            if isinstance(v, I):
                return I(If(some, v.t, 0), v.ty)
            if isinstance(v, B):
                return B(If(some, v.t, False))
            return NotImplemented
        if name == 'ok_or':
            if some is False:
                return En('Result', 1, {1: [argv[1]]})
            return En('Result', If(some, 0, 1), {0: [val()], 1: [argv[1]]})
        if name in ('and_then', 'map', 'map_or', 'map_or_else', 'unwrap_or_else', 'ok_or_else', 'filter', 'or_else', 'is_some_and', 'is_none_or'):
            if some is False:
                r = None
            else:
                gi = simp(And(guard, some))
            if name in ('and_then', 'map', 'filter', 'is_some_and', 'is_none_or'):
                clo = argv[1]
                if some is False:
                    if name == 'is_some_and':
                        return B(False)
                    if name == 'is_none_or':
                        return B(True)
                    return opt_none()
                carg = val()
                if name == 'filter':
                    c = E.new_cell(); mem[c] = carg; carg_in = Ref(c)
                else:
                    carg_in = carg
                res = E.call_closure(clo, [carg_in], gi, mem)
                if res is DIVERGE:
                    return opt_none() if name not in ('is_some_and', 'is_none_or') else B(name == 'is_none_or')
                rv, _ = res
                if name == 'and_then':
                    if not isinstance(rv, En):
                        raise Unsupported('and_then closure returned %r' % (rv,))
                    return En('Option', If(some, rv.d, 0), rv.vs)
                if name == 'map':
                    return En('Option', If(some, 1, 0), {1: [rv]})
                if name == 'filter':
                    return En('Option', If(And(some, rv.t), 1, 0), {1: [carg]})
                if name == 'is_some_and':
                    return B(And(some, rv.t))
                if name == 'is_none_or':
                    return B(Or(Not(some), rv.t))
            if name == 'map_or':
                dflt, clo = argv[1], argv[2]
                if some is False:
                    return dflt
                res = E.call_closure(clo, [val()], gi, mem)
                if res is DIVERGE:
                    return dflt
                return E.merge(some, res[0], dflt)
            if name in ('unwrap_or_else', 'ok_or_else', 'or_else', 'map_or_else'):
                clo = argv[1]
                gn = simp(And(guard, Not(some)))
                if gn is False:
                    dv = None
                else:
                    res = E.call_closure(clo, [], gn, mem)
                    dv = None if res is DIVERGE else res[0]
                if name == 'unwrap_or_else':
                    if dv is None:
                        return (val(), simp(And(guard, some)))
                    return E.merge(some, val(), dv)
                if name == 'ok_or_else':
                    return En('Result', If(some, 0, 1), {0: [val()], 1: [dv if dv is not None else UNIT]})
                if name == 'or_else':
                    if dv is None:
                        return o
                    return E.merge(some, o, dv)
                if name == 'map_or_else':
                    res = E.call_closure(argv[2], [val()], gi, mem) if some is not False else DIVERGE
                    if res is DIVERGE:
                        return dv
                    if dv is None:
                        return res[0]
                    return E.merge(some, res[0], dv)
        if name == 'or':
            return E.merge(some, o, argv[1])
        if name == 'xor':
            return NotImplemented
        if name == 'as_ref' or name == 'as_mut':
            return NotImplemented
        if name in ('copied', 'cloned'):
            if some is False:
                return opt_none()
            return En('Option', o.d, {1: [deref(E, val(), mem, guard)]})
        if name == 'take':
            return NotImplemented
        return NotImplemented
    reg(r'^(?:std::option::|core::option::)?Option::<.*>::(\w+)(?:::<.*>)?$', h_option)

    def h_option_as_ref(E, m, func, argv, guard, mem, dty, caller):
        r = argv[0]
        if not isinstance(r, Ref):
            return NotImplemented
        o = deref(E, r, mem, guard)
        if not isinstance(o, En):
            return NotImplemented
        # Some(&payload): reference into the option's own storage
        return En('Option', o.d, {1: [Ref(r.cell, r.path + (('v', 'Some'), ('f', 0, '?')))]})
    reg(r'^(?:std::option::|core::option::)?Option::<.*>::as_(?:ref|mut)$', h_option_as_ref)

    def h_option_as_deref(E, m, func, argv, guard, mem, dty, caller):
        o = deref(E, argv[0], mem, guard)
        if not isinstance(o, En):
            return NotImplemented
        if simp(is_some(o)) is False:
            return opt_none()
        pl = o.vs.get(1)
        if pl is None:
            return NotImplemented
        return En('Option', o.d, {1: [pl[0]]})
    reg(r'^(?:std::option::|core::option::)?Option::<.*>::as_deref(?:_mut)?$', h_option_as_deref)

    # ---- Result --------------------------------------------------------------
    def h_result(E, m, func, argv, guard, mem, dty, caller):
        name = m.group(1)
        r = argv[0]
        r = deref(E, r, mem, guard) if name in ('is_ok', 'is_err') else r
        if isinstance(r, Opaque):
            E.unsup(guard, 'opaque result in ' + func)
            return Opaque('result')
        if not isinstance(r, En):
            return NotImplemented
        ok = simp(r.d == 0) if not isinstance(r.d, int) else r.d == 0
        if name == 'is_ok':
            return B(ok)
        if name == 'is_err':
            return B(Not(ok))
        if name in ('unwrap', 'expect'):
            E.panic(And(guard, Not(ok)), 'unwrap on Err', caller.fn.name)
            g2 = simp(And(guard, ok))
            if g2 is False:
                return DIVERGE
            return (payload(E, r, 0), g2)
        if name == 'ok':
            return En('Option', If(ok, 1, 0), {1: [payload(E, r, 0)]} if 0 in r.vs else {})
        if name == 'err':
            return En('Option', If(ok, 0, 1), {1: [payload(E, r, 1)]} if 1 in r.vs else {})
        if name == 'map_err':
            ge = simp(And(guard, Not(ok)))
            if ge is False:
                return En('Result', r.d, {0: r.vs.get(0, [UNIT])})
            res = E.call_closure(argv[1], [payload(E, r, 1)] if 1 in r.vs else [UNIT], ge, mem)
            ev = Opaque('diverged') if res is DIVERGE else res[0]
            vs = {1: [ev]}
            if 0 in r.vs:
                vs[0] = r.vs[0]
            return En('Result', r.d, vs)
        if name == 'map':
            go = simp(And(guard, ok))
            if go is False:
                return r
            res = E.call_closure(argv[1], [payload(E, r, 0)], go, mem)
            vs = dict(r.vs)
            vs[0] = [Opaque('diverged') if res is DIVERGE else res[0]]
            return En('Result', r.d, vs)
        if name == 'unwrap_or':
            return E.merge(ok, payload(E, r, 0), argv[1])
        if name in ('or_else', 'and_then'):
            sel = Not(ok) if name == 'or_else' else ok
            gs = simp(And(guard, sel))
            if gs is False:
                return r
            res = E.call_closure(argv[1], [payload(E, r, 1 if name == 'or_else' else 0)], gs, mem)
            if res is DIVERGE:
                return r
            return E.merge(sel, res[0], r)
        return NotImplemented
    reg(r'^(?:std::result::|core::result::)?Result::<.*>::(\w+)(?:::<.*>)?$', h_result)

    # ---- ? operator ------------------------------------------------------------
    def h_branch(E, m, func, argv, guard, mem, dty, caller):
        v = argv[0]
        if isinstance(v, Opaque):
            E.unsup(guard, 'opaque in Try::branch')
            return Opaque('branch')
        if not isinstance(v, En):
            return NotImplemented
        head = v.name.split('<')[0].split('::')[-1]
        if head == 'Option':
            some = is_some(v)
            vs = {1: [En('Option', 0, {})]}
            if 1 in v.vs:
                vs[0] = v.vs[1]
            return En('ControlFlow', If(some, 0, 1), vs)
        if head == 'Result':
            ok = (v.d == 0)
            vs = {1: [En('Result', 1, {1: v.vs.get(1, [UNIT])})]}
            if 0 in v.vs:
                vs[0] = v.vs[0]
            return En('ControlFlow', If(ok, 0, 1), vs)
        return NotImplemented
    reg(r'^<.* as (?:std::ops::|core::ops::)?Try>::branch$', h_branch)

    def h_from_residual(E, m, func, argv, guard, mem, dty, caller):
        v = argv[0]
        if not isinstance(v, En):
            return NotImplemented
        mm = re.match(r'^<(.*) as (?:std::ops::|core::ops::)?FromResidual<(.*)>>::from_residual$', func)
        if mm:
            dst, src = mm.group(1), mm.group(2)
            dh, da = split_generic(dst)
            sh, sa = split_generic(src)
            if dh == 'Result' and sh == 'Result':
                if da[1].split('::')[-1] != sa[1].split('::')[-1]:
                    # error conversion through From: leave payload opaque
                    return En('Result', 1, {1: [Opaque('converted error')]})
                return En('Result', 1, {1: v.vs.get(1, [UNIT])})
            if dh == 'Option':
                return En('Option', 0, {})
            if dh == 'Result' and sh == 'Option':
                return NotImplemented
        return NotImplemented
    reg(r'FromResidual<.*>>::from_residual$', h_from_residual)

    # ---- bool -------------------------------------------------------------------
    def h_then_some(E, m, func, argv, guard, mem, dty, caller):
        b, v = argv
        return mk_opt(E, b.t, v)
    reg(r'^(?:core::)?bool::(?:<impl bool>::)?then_some::<', h_then_some)

    def h_then(E, m, func, argv, guard, mem, dty, caller):
        b, clo = argv
        gi = simp(And(guard, b.t))
        if gi is False:
            return opt_none()
        res = E.call_closure(clo, [], gi, mem)
        if res is DIVERGE:
            return opt_none()
        return mk_opt(E, b.t, res[0])
    reg(r'^(?:core::)?bool::(?:<impl bool>::)?then::<', h_then)

    # ---- slices / Vec / iterators ---------------------------------------------------
    def seq_ref(E, v, mem, guard):
        """resolve v (Ref to Seq / Seq / Ref to Vec) to (Ref or None, Seq)"""
        r = v
        while isinstance(r, Ref):
            t = E.read_path(mem[r.cell], r.path, mem, guard, 'seq')
            if isinstance(t, Ref):
                r = t
                continue
            if isinstance(t, (Seq, Tup)):
                return r, t
            raise Unsupported('expected sequence, got %r' % (t,))
        if isinstance(r, (Seq, Tup)):
            c = E.new_cell()
            mem[c] = r
            return Ref(c), r
        raise Unsupported('expected sequence, got %r' % (r,))

    def seq_len(s):
        if isinstance(s, Seq) and s.n is None:
            # not a prefix sequence (after retain / a collected filter): the length is the number of present slots
            ps = [simp(p) for p in s.pres]
            if all(isinstance(p, bool) for p in ps):
                return sum(1 for p in ps if p)
            return sum([If(zbool(p), 1, 0) for p in ps])
        return s.n if isinstance(s, Seq) else len(s.fs)

    def seq_elems(s):
        return s.elems if isinstance(s, Seq) else s.fs

    def h_slice_iter(E, m, func, argv, guard, mem, dty, caller):
        r, s = seq_ref(E, argv[0], mem, guard)
        return It('slice', inner=r, extra=0)
    reg(r'^core::slice::<impl \[.*\]>::iter(?:_mut)?$', h_slice_iter)
    reg(r'^<&(?:mut )?(?:std::vec::)?Vec<.*> as IntoIterator>::into_iter$', h_slice_iter)
    reg(r'^<&(?:mut )?\[.*\] as IntoIterator>::into_iter$', h_slice_iter)
    reg(r'^<(?:std::slice::|core::slice::)?Iter<.*> as IntoIterator>::into_iter$', lambda E, m, f, a, g, mem, d, c: a[0])
    reg(r'^<(?:std::vec::)?Vec<.*> as IntoIterator>::into_iter$', h_slice_iter)
    reg(r'^<.* as IntoIterator>::into_iter$',
        lambda E, m, f, a, g, mem, d, c: a[0] if isinstance(a[0], It) else NotImplemented)

    def h_len(E, m, func, argv, guard, mem, dty, caller):
        r, s = seq_ref(E, argv[0], mem, guard)
        if m.group(1) == 'len':
            return I(seq_len(s), 'usize')
        n = seq_len(s)
        return B(n == 0)
    reg(r'^core::slice::<impl \[.*\]>::(len|is_empty)$', h_len)
    reg(r'^(?:std::vec::|alloc::vec::)?Vec::<.*>::(len|is_empty)$', h_len)

    def h_slice_get(E, m, func, argv, guard, mem, dty, caller):
        """<[T]>::get / get_mut with a usize index -> Option<&T>"""
        r, s = seq_ref(E, argv[0], mem, guard)
        if isinstance(s, Seq) and not s.prefix:
            return NotImplemented
        idx = argv[1]
        if not isinstance(idx, I):
            return NotImplemented
        n = seq_len(s)
        inb = simp(zint(idx.t) < zint(n)) if not (isinstance(idx.t, int) and isinstance(n, int)) else (idx.t < n)
        if inb is False:
            return En('Option', 0, {})
        return En('Option', 1 if inb is True else If(inb, 1, 0), {1: [Ref(r.cell, r.path + (('i', idx.t),))]})
    reg(r'^core::slice::<impl \[.*\]>::(get|get_mut)::<usize>$', h_slice_get)

    def h_first_last(E, m, func, argv, guard, mem, dty, caller):
        """<[T]>::first / last -> Option<&T> (prefix sequences only)"""
        r, s = seq_ref(E, argv[0], mem, guard)
        if isinstance(s, Seq) and not s.prefix:
            return NotImplemented
        n = seq_len(s)
        idx = 0 if m.group(1) == 'first' else n - 1
        if isinstance(n, int) and n == 0:
            return En('Option', 0, {})
        return En('Option', If(zint(n) > 0, 1, 0) if not isinstance(n, int) else 1, {1: [Ref(r.cell, r.path + (('i', idx),))]})
    reg(r'^core::slice::<impl \[.*\]>::(first|last)$', h_first_last)

    def h_vec_deref(E, m, func, argv, guard, mem, dty, caller):
        r, s = seq_ref(E, argv[0], mem, guard)
        return r
    reg(r'^<(?:std::vec::)?Vec<.*> as (?:std::ops::)?Deref(?:Mut)?>::deref(?:_mut)?$', h_vec_deref)
    reg(r'^(?:std::vec::)?Vec::<.*>::as_(?:mut_)?slice$', h_vec_deref)

    def h_adaptor(E, m, func, argv, guard, mem, dty, caller):
        kind = m.group(1)
        it = argv[0]
        if not isinstance(it, It):
            return NotImplemented
        if kind in ('filter', 'map', 'filter_map'):
            return It(kind, inner=it, clo=argv[1])
        if kind in ('rev', 'copied', 'cloned', 'enumerate', 'by_ref'):
            return It(kind, inner=it)
        if kind in ('chain', 'zip'):
            return It(kind, inner=it, extra=argv[1])
        return NotImplemented
    reg(r' as Iterator>::(filter|map|filter_map|rev|copied|cloned|chain|enumerate|zip)(?:::<.*>)?$', h_adaptor)

    def items(E, it, guard, mem):
        """enumerate an iterator: list of (present_cond, value)"""
        if it.kind == 'slice':
            s = deref(E, it.inner, mem, guard)
            out = []
            for i in range(it.extra, len(seq_elems(s))):
                pres = True if isinstance(s, Tup) else simp(s.pres[i])
                if pres is False:
                    continue
                out.append((pres, Ref(it.inner.cell, it.inner.path + (('i', i),))))
            return out
        if it.kind == 'range':
            lo, hi, ty = it.extra
            if not (isinstance(lo, int)):
                raise Unsupported('symbolic range start')
            out = []
            if isinstance(hi, int):
                return [(True, I(i, ty)) for i in range(lo, hi)]
            for i in range(lo, lo + E.unwind + 1):
                pres = simp(zint(hi) > i)
                if pres is False:
                    break
                out.append((pres, I(i, ty)))
            else:
                pass
            # bound check: the range may not be longer than the unrolling
            E.unwinds.append((simp(And(guard, zint(hi) > lo + E.unwind + 0)), 'range iterator longer than unwind')) if simp(And(guard, zint(hi) > lo + E.unwind)) is not False else None
            return out
        if it.kind == 'list':
            its, pos = it.extra
            return list(its[pos:])
        inner = items(E, it.inner, guard, mem)
        if it.kind in ('copied', 'cloned'):
            return [(p, deref(E, v, mem, guard)) for p, v in inner]
        if it.kind == 'rev':
            return list(reversed(inner))
        if it.kind == 'zip':
            # pairs of prefix sequences: pair i exists iff both i-th elements exist
            other = it.extra
            if not isinstance(other, It):
                r, s = seq_ref(E, other, mem, guard)
                other = It('slice', inner=r, extra=0)
            oth = items(E, other, guard, mem)
            return [(simp(And(p, q)), Tup([v, w])) for (p, v), (q, w) in zip(inner, oth)]
        if it.kind == 'enumerate':
            # position depends on presence of previous elements only for filtered inners;
            # supported when all inner presence conditions are prefix-closed (slices)
            return [(p, Tup([I(i, 'usize'), v])) for i, (p, v) in enumerate(inner)]
        if it.kind == 'chain':
            other = it.extra
            if not isinstance(other, It):
                r, s = seq_ref(E, other, mem, guard)
                other = It('slice', inner=r, extra=0)
            return inner + items(E, other, guard, mem)
        out = []
        for p, v in inner:
            gi = simp(And(guard, p))
            if gi is False:
                continue
            if it.kind == 'filter':
                c = E.new_cell()
                mem[c] = v
                res = E.cond_call_closure(it.clo, [Ref(c)], guard, p, mem)
                if res is DIVERGE:
                    continue
                out.append((simp(And(p, res[0].t)), v))
            elif it.kind == 'map':
                res = E.cond_call_closure(it.clo, [v], guard, p, mem)
                if res is DIVERGE:
                    continue
                out.append((p, res[0]))
            elif it.kind == 'filter_map':
                res = E.cond_call_closure(it.clo, [v], guard, p, mem)
                if res is DIVERGE:
                    continue
                o = res[0]
                if not isinstance(o, En):
                    raise Unsupported('filter_map closure returned %r' % (o,))
                some = simp(is_some(o))
                if some is False:
                    continue
                out.append((simp(And(p, some)), payload(E, o, 1)))
            else:
                raise Unsupported('iterator kind ' + it.kind)
        return out
    E.iter_items = items

    def h_consume(E, m, func, argv, guard, mem, dty, caller):
        name = m.group(1)
        it = argv[0]
        if isinstance(it, Ref):
            it = deref(E, it, mem, guard)
        if not isinstance(it, It):
            return NotImplemented
        if name == 'next':
            return NotImplemented
        its = items(E, it, guard, mem)
        if name == 'count':
            tot = 0
            for p, v in its:
                tot = tot + If(p, 1, 0)
            r = simp(tot) if not isinstance(tot, int) else tot
            E.set_range(r, 0, len(its))
            return I(r, 'usize')
        if name == 'sum':
            mm = re.search(r'::sum::<(\w+)>$', func)
            ty = mm.group(1) if mm else (dty or 'u64')
            tot = 0
            for p, v in its:
                v = deref(E, v, mem, guard)
                tot = tot + If(p, v.t, 0)
                # `Sum for uN` inherits the caller's overflow checks: panics in the dev profile
                E.panic(And(guard, Not(E.in_range(tot, ty))), 'attempt to add with overflow (iter::sum)', caller.fn.name)
            # overflow panics (recorded above), so the exact sum stands for the result
            return I(tot, ty)
        if name in ('any', 'all'):
            clo = argv[1]
            acc = (name == 'all')
            for p, v in its:
                gi = simp(And(guard, p))
                if gi is False:
                    continue
                res = E.cond_call_closure(clo, [v], guard, p, mem)
                if res is DIVERGE:
                    continue
                if name == 'any':
                    acc = Or(acc, And(p, res[0].t))
                else:
                    acc = And(acc, Or(Not(p), res[0].t))
            return B(acc)
        if name in ('min', 'max'):
            best = None
            have = False
            for p, v in its:
                v = deref(E, v, mem, guard)
                if best is None:
                    best, have = v, p
                    continue
                better = (zint(v.t) < zint(best.t)) if name == 'min' else (zint(v.t) >= zint(best.t))
                take = And(p, Or(Not(have), better))
                best = I(If(take, v.t, best.t), v.ty)
                have = Or(have, p)
            if best is None:
                return opt_none()
            return mk_opt(E, simp(have), best)
        if name == 'fold':
            acc = argv[1]
            clo = argv[2]
            for p, v in its:
                gi = simp(And(guard, p))
                if gi is False:
                    continue
                res = E.call_closure(clo, [acc, v], gi, mem)
                if res is DIVERGE:
                    continue
                acc = E.merge(p, res[0], acc)
            return acc
        if name == 'for_each':
            clo = argv[1]
            for p, v in its:
                gi = simp(And(guard, p))
                if gi is False:
                    continue
                snapshot = dict(mem)
                res = E.call_closure(clo, [v], gi, mem)
                # effects only apply when the element is present
                if p is not True:
                    for k in list(mem):
                        if k in snapshot and mem[k] is not snapshot[k]:
                            mem[k] = E.merge(p, mem[k], snapshot[k])
            return UNIT
        return NotImplemented
    reg(r' as Iterator>::(count|sum|any|all|min|max|fold|next|for_each)(?:::<.*>)?$', h_consume)

    def h_find_map(E, m, func, argv, guard, mem, dty, caller):
        name = m.group(1)
        it = argv[0]
        if isinstance(it, Ref):
            it = deref(E, it, mem, guard)
        if not isinstance(it, It):
            return NotImplemented
        clo = argv[1]
        its = items(E, it, guard, mem)
        # first element (in order) for which the closure yields Some / true
        found = False
        result = None
        notyet = True            # no earlier element matched
        for p, v in its:
            if name == 'find':
                c0 = E.new_cell(); mem[c0] = v
                res = E.cond_call_closure(clo, [Ref(c0)], guard, And(p, notyet), mem)
            else:
                res = E.cond_call_closure(clo, [v], guard, And(p, notyet), mem)
            if res is DIVERGE:
                continue
            r = res[0]
            if name == 'find_map':
                if not isinstance(r, En):
                    raise Unsupported('find_map closure returned %r' % (r,))
                hit = simp(And(p, notyet, is_some(r)))
                val = payload(E, r, 1) if 1 in r.vs else None
            else:
                hit = simp(And(p, notyet, r.t))
                val = v
            if hit is False:
                continue
            if result is None:
                result = val
            elif val is not None:
                result = E.merge(hit, val, result)
            found = Or(found, hit)
            notyet = And(notyet, Not(hit))
        if result is None:
            return opt_none()
        return mk_opt(E, simp(found), result)
    reg(r' as Iterator>::(find_map|find)(?:::<.*>)?$', h_find_map)

    def h_opt_eq(E, m, func, argv, guard, mem, dty, caller):
        a, b = deref(E, argv[0], mem, guard), deref(E, argv[1], mem, guard)
        if not (isinstance(a, En) and isinstance(b, En)):
            return NotImplemented
        sa, sb = simp(is_some(a)), simp(is_some(b))
        both = And(sa, sb)
        if simp(both) is False:
            eqp = True
        else:
            ity = m.group(1)
            pa, pb = payload(E, a, 1, 0, ity, mem), payload(E, b, 1, 0, ity, mem)
            if isinstance(pa, I) and isinstance(pb, I):
                eqp = zint(pa.t) == zint(pb.t)
            elif isinstance(pa, B) and isinstance(pb, B):
                eqp = zbool(pa.t) == zbool(pb.t)
            else:
                # delegate to the payload type's own PartialEq (crate code or another model)
                ca, cb = E.new_cell(), E.new_cell()
                mem[ca], mem[cb] = pa, pb
                res = E.call('<%s as PartialEq>::eq' % ity, [Ref(ca), Ref(cb)], simp(And(guard, both)), mem, 'bool', caller)
                if res is DIVERGE or not isinstance(res[0], B):
                    return NotImplemented
                eqp = zbool(res[0].t)
        r = Or(And(Not(sa), Not(sb)), And(both, eqp))
        return B(simp(r) if m.group(2) == 'eq' else simp(Not(r)))
    reg(r'^<(?:std::option::)?Option<(.+)> as PartialEq>::(eq|ne)$', h_opt_eq)

    def h_option_into_iter(E, m, func, argv, guard, mem, dty, caller):
        """Option<T>::into_iter: an iterator of zero or one item"""
        o = argv[0]
        if not isinstance(o, En):
            return NotImplemented
        some = simp(is_some(o))
        if some is False:
            return It('list', extra=([], 0))
        return It('list', extra=([(some, payload(E, o, 1, 0, None, mem))], 0))
    reg(r'^<(?:std::option::)?Option<.*> as IntoIterator>::into_iter$', h_option_into_iter)

    def h_box_new_uninit(E, m, func, argv, guard, mem, dty, caller):
        """Box::<[T; N]>::new_uninit(): the allocation `vec![a, b, ..]` expands to. A heap cell holding an arbitrary
        (uninitialised) MaybeUninit value; the box is Box { 0: Unique { 0: <pointer to the cell> } }."""
        c = E.new_cell()
        mem[c] = Adt('MaybeUninit', {}, base='uninit!%d' % next(E.nfresh))
        E.box_cells = getattr(E, 'box_cells', set())
        E.box_cells.add(c)
        return Adt('Box', {0: Adt('Unique', {0: Ref(c)})})
    reg(r'Box::<\[.*; \d+\]>::new_uninit$', h_box_new_uninit)

    def h_box_into_vec(E, m, func, argv, guard, mem, dty, caller):
        """box_assume_init_into_vec_unsafe::<T, N>(Box<MaybeUninit<[T; N]>>): the vector of the N array elements"""
        b = argv[0]
        r = b.fs.get(0) if isinstance(b, Adt) else None
        r = r.fs.get(0) if isinstance(r, Adt) else None
        if not isinstance(r, Ref) or r.cell not in getattr(E, 'box_cells', ()):
            return NotImplemented
        arr = E.read_path(mem[r.cell], r.path + (('f', 1, '?'), ('f', 0, '?'), ('f', 0, '?')), mem, guard, 'vec literal')
        if not isinstance(arr, Tup):
            return NotImplemented
        return Seq(list(arr.fs), len(arr.fs), None)
    reg(r'box_assume_init_into_vec_unsafe::<', h_box_into_vec)

    def h_option_iter(E, m, func, argv, guard, mem, dty, caller):
        """Option::<T>::iter(&self): at most one item, a reference into the option's own storage"""
        r = argv[0]
        if not isinstance(r, Ref):
            return NotImplemented
        o = deref(E, r, mem, guard)
        if not isinstance(o, En):
            return NotImplemented
        some = simp(is_some(o))
        if some is False:
            return It('list', extra=([], 0))
        return It('list', extra=([(some, Ref(r.cell, r.path + (('v', 'Some'), ('f', 0, '?'))))], 0))
    reg(r'^(?:std::option::|core::option::)?Option::<.*>::iter$', h_option_iter)

    def h_collect_vec(E, m, func, argv, guard, mem, dty, caller):
        """Iterator::collect::<Vec<T>>: the items with their presence conditions (not a prefix sequence in general)"""
        it = argv[0]
        if not isinstance(it, It):
            return NotImplemented
        its = items(E, it, guard, mem)
        return Seq([deref(E, v, mem, guard) if isinstance(v, Ref) and it.kind in ('copied', 'cloned') else v for p, v in its], None, None, pres=[simp(p) for p, v in its])
    reg(r' as Iterator>::collect::<(?:std::vec::|alloc::vec::)?Vec<', h_collect_vec)

    def compact_items(E, its, guard):
        """`next()` on a materialised list steps through SLOTS and stops at the first absent one, which is right only
        when presence is prefix-shaped (slot i+1 present => slot i present).  A filter / filter_map / chain can leave
        holes: re-index so that slot j holds the j-th PRESENT item (present iff at least j+1 items are)."""
        its = [(simp(p), v) for p, v in its if simp(p) is not False]
        if all(p is True for p, v in its):
            return its
        shaped = True
        for i in range(len(its) - 1):
            hole = simp(And(guard, zbool(its[i + 1][0]), Not(zbool(its[i][0]))))
            if hole is not False and E.reachable(hole):
                shaped = False
                break
        if shaped:
            return its
        n = len(its)
        # before[i] = number of present items among its[0..i)
        before = [0]
        for p, v in its:
            before.append(before[-1] + If(zbool(p), 1, 0))
        out = []
        for j in range(n):
            val = None
            for i in range(n - 1, j - 1, -1):
                here = simp(And(zbool(its[i][0]), before[i] == j))
                val = its[i][1] if val is None else E.merge(here, its[i][1], val)
            out.append((simp(before[n] >= j + 1), val))
        return out

    def h_iter_next(E, m, func, argv, guard, mem, dty, caller):
        r = argv[0]
        if not isinstance(r, Ref):
            return NotImplemented
        it = deref(E, r, mem, guard)
        if not isinstance(it, It):
            return NotImplemented
        if it.kind == 'slice':
            s = deref(E, it.inner, mem, guard)
            i = it.extra
            elems = seq_elems(s)
            if i >= len(elems):
                pres = False
                if isinstance(s, Seq):
                    # more iterations than the sequence bound: impossible
                    pass
                return opt_none()
            pres = True if isinstance(s, Tup) else simp(zint(s.n) > i)
            mem[r.cell] = E.write_path(mem[r.cell], r.path, It('slice', inner=it.inner, extra=i + 1), mem, guard, 'next')
            return mk_opt(E, pres, Ref(it.inner.cell, it.inner.path + (('i', i),)))
        if it.kind == 'range':
            lo, hi, ty = it.extra
            if not isinstance(lo, int):
                raise Unsupported('symbolic range start in next')
            pres = simp(zint(hi) > lo) if not isinstance(hi, int) else lo < hi
            mem[r.cell] = E.write_path(mem[r.cell], r.path, It('range', extra=(lo + 1, hi, ty)), mem, guard, 'next')
            return mk_opt(E, pres, I(lo, ty))
        if it.kind in ('copied', 'cloned', 'enumerate', 'rev', 'map', 'filter', 'filter_map', 'chain', 'zip'):
            # general adaptors: materialise the remaining items once, then step through them
            its = compact_items(E, items(E, it, guard, mem), guard)
            mem[r.cell] = E.write_path(mem[r.cell], r.path, It('list', extra=(its, 0)), mem, guard, 'next')
            return h_iter_next(E, m, func, argv, guard, mem, dty, caller)
        if it.kind == 'list':
            its, pos = it.extra
            # next present element: the first element at index >= pos whose presence holds.
            # With symbolic presence this needs a search; encode as: result = first present.
            if pos >= len(its):
                return opt_none()
            # position pointer becomes symbolic -> keep `pos` as the number of *slots* consumed
            # and return slot `pos` if present else skip (recursive ite over remaining slots)
            p, v = its[pos]
            mem[r.cell] = E.write_path(mem[r.cell], r.path, It('list', extra=(its, pos + 1)), mem, guard, 'next')
            # elements of a drained / materialised prefix sequence: slot `pos` is present iff p; when it
            # is absent all later slots are absent too (prefix sequences), so the loop ends here
            return mk_opt(E, p, v)
        return NotImplemented
    reg(r' as Iterator>::next$', h_iter_next)

    def h_range_into_iter(E, m, func, argv, guard, mem, dty, caller):
        v = argv[0]
        if isinstance(v, Adt) and len(v.fs) == 2 and isinstance(v.fs[0], I):
            return It('range', extra=(v.fs[0].t, v.fs[1].t, v.fs[0].ty))
        return NotImplemented
    reg(r'^<(?:std::ops::|core::ops::)?Range<\w+> as IntoIterator>::into_iter$', h_range_into_iter)

    def h_retain(E, m, func, argv, guard, mem, dty, caller):
        r, s = seq_ref(E, argv[0], mem, guard)
        if not isinstance(s, Seq):
            return NotImplemented
        clo = argv[1]
        keep = []
        for i in range(len(s.elems)):
            p = simp(s.pres[i])
            if p is False:
                keep.append(False)
                continue
            res = E.cond_call_closure(clo, [Ref(r.cell, r.path + (('i', i),))], guard, p, mem)
            if res is DIVERGE:
                keep.append(False)
                continue
            keep.append(simp(And(p, res[0].t)))
        cur = deref(E, r, mem, guard)
        mem[r.cell] = E.write_path(mem[r.cell], r.path, Seq(cur.elems, None, cur.ety, pres=keep), mem, guard, 'retain')
        return UNIT
    reg(r'^(?:std::vec::|alloc::vec::)?Vec::<.*>::retain::<', h_retain)

    def h_fill(E, m, func, argv, guard, mem, dty, caller):
        r, t = arr_ref(E, argv[0], mem, guard)
        mem[r.cell] = E.write_path(mem[r.cell], r.path, Tup([argv[1]] * len(t.fs)), mem, guard, 'fill')
        return UNIT
    reg(r'^core::slice::<impl \[.*\]>::fill$', h_fill)

    def h_drain_full(E, m, func, argv, guard, mem, dty, caller):
        """Vec::drain(..): yields every element by value and leaves the vector empty"""
        r, s = seq_ref(E, argv[0], mem, guard)
        if not isinstance(s, Seq):
            return NotImplemented
        its = []
        for i in range(len(s.elems)):
            p = simp(s.pres[i])
            if p is False:
                continue
            its.append((p, s.elems[i]))
        mem[r.cell] = E.write_path(mem[r.cell], r.path, Seq(s.elems, 0, s.ety), mem, guard, 'drain')
        return It('list', extra=(its, 0))
    reg(r'^(?:std::vec::|alloc::vec::)?Vec::<.*>::drain::<(?:std::ops::)?RangeFull>$', h_drain_full)

    def h_push(E, m, func, argv, guard, mem, dty, caller):
        r, s = seq_ref(E, argv[0], mem, guard)
        if not (isinstance(s, Seq) and s.prefix):
            return NotImplemented
        n = s.n
        elems = list(s.elems) + [argv[1]]
        if isinstance(n, int):
            elems = list(s.elems[:n]) + [argv[1]] + list(s.elems[n + 1:])
            while len(elems) < len(s.elems):
                elems.append(s.elems[len(elems)])
            new = Seq(elems, n + 1, s.ety)
        else:
            out = []
            for i in range(len(s.elems)):
                out.append(E.merge(simp(zint(n) == i), argv[1], s.elems[i]))
            out.append(argv[1])      # position len(elems) is only reached when n == len(elems)
            new = Seq(out, zint(n) + 1, s.ety)
        mem[r.cell] = E.write_path(mem[r.cell], r.path, new, mem, guard, 'push')
        return UNIT
    reg(r'^(?:std::vec::|alloc::vec::)?Vec::<(?!u8>).*>::push$', h_push)

    def h_coroutine_poll(E, m, func, argv, guard, mem, dty, caller):
        """<{async block@F:L:C: L:C} as Future>::poll(pin, cx): run the block's own state-machine function"""
        key = m.group(1)
        c = getattr(E, '_poll_fns', {}).get(key)
        if c is None:
            pat = 'Pin<&mut {async block@%s}>' % key
            cands = [i for i in range(len(E.ix.offsets)) if pat in E.ix.offsets[i][0]]
            if len(cands) != 1:
                return NotImplemented
            c = E.ix.get(cands[0])
            E._poll_fns = dict(getattr(E, '_poll_fns', {}), **{key: c})
        r = E.call_fn(c, argv, guard, mem)
        if r is DIVERGE:
            return DIVERGE
        return r
    reg(r'^<\{async block@([^}]*)\} as (?:std::future::)?Future>::poll$', h_coroutine_poll)

    def h_vec_new(E, m, func, argv, guard, mem, dty, caller):
        return Seq([], 0, m.group(1))
    reg(r'^(?:std::vec::|alloc::vec::)?Vec::<(?!u8>)(.*)>::(?:new|with_capacity)$', h_vec_new)

    def h_index(E, m, func, argv, guard, mem, dty, caller):
        r, s = seq_ref(E, argv[0], mem, guard)
        idx = argv[1]
        if not isinstance(idx, I):
            return NotImplemented
        n = seq_len(s)
        E.panic(And(guard, Not(simp(zint(idx.t) < zint(n)))), 'index out of bounds', caller.fn.name)
        return Ref(r.cell, r.path + (('i', idx.t),))
    reg(r'^<(?:std::vec::)?Vec<.*> as (?:std::ops::)?Index(?:Mut)?<usize>>::index(?:_mut)?$', h_index)
    reg(r'^<\[.*\] as (?:std::ops::)?Index(?:Mut)?<usize>>::index(?:_mut)?$', h_index)

    # ---- abstract byte arrays (secrets / hashes) ------------------------------------------
    def h_abs_hash(E, m, func, argv, guard, mem, dty, caller):
        v = deref(E, argv[0], mem, guard)
        if isinstance(v, Abs):
            return Abs(ABS_HASH(v.t), 32)
        return NotImplemented
    reg(r'sha256::Hash as (?:\w+::)*Hash>::hash$|^<Hash as Hash>::hash$', h_abs_hash)

    def h_abs_to_bytes(E, m, func, argv, guard, mem, dty, caller):
        v = argv[0]
        if isinstance(v, Abs):
            return v
        return NotImplemented
    reg(r'Hash>::to_byte_array$|::to_byte_array$|::into_inner$', h_abs_to_bytes)

    def h_array_eq(E, m, func, argv, guard, mem, dty, caller):
        a, b = deref(E, argv[0], mem, guard), deref(E, argv[1], mem, guard)
        if isinstance(a, Abs) or isinstance(b, Abs):
            e = E.abs_eq(a, b)
        elif isinstance(a, Tup) and isinstance(b, Tup) and len(a.fs) == len(b.fs):
            e = E.binop('Eq', a, b, guard, func).t
        else:
            return NotImplemented
        return B(e if m.group(1) == 'eq' else Not(e))
    reg(r'^<\[\w+; \d+\] as PartialEq>::(eq|ne)$', h_array_eq)

    # ---- fixed arrays / byte slices ---------------------------------------------------
    def arr_ref(E, v, mem, guard):
        """resolve to (Ref, Tup) for arrays / fixed-length slices"""
        r = v
        while isinstance(r, Ref):
            t = E.read_path(mem[r.cell], r.path, mem, guard, 'arr')
            if isinstance(t, Ref):
                r = t
                continue
            if isinstance(t, Tup):
                return r, t
            if isinstance(t, Seq) and t.prefix and isinstance(t.n, int):
                return r, Tup(t.elems[:t.n])
            raise Unsupported('expected array, got %r' % (t,))
        if isinstance(r, Tup):
            c = E.new_cell()
            mem[c] = r
            return Ref(c), r
        raise Unsupported('expected array, got %r' % (r,))

    def range_bounds(rng, n, kind=None):
        """(lo, hi) of a Range / RangeTo / RangeFrom / RangeFull / RangeInclusive aggregate"""
        name = kind or getattr(rng, 'name', '')
        fs = rng.fs if isinstance(rng, Adt) else {}
        def c(v):
            if not isinstance(v, I) or not isinstance(v.t, int):
                raise Unsupported('symbolic slice range bound')
            return v.t
        if name.endswith('RangeTo'):
            return 0, c(fs[0])
        if name.endswith('RangeFrom'):
            return c(fs[0]), n
        if name.endswith('RangeFull'):
            return 0, n
        if name.endswith('Range'):
            return c(fs[0]), c(fs[1])
        raise Unsupported('range kind ' + name)

    def h_index_range(E, m, func, argv, guard, mem, dty, caller):
        r, t = arr_ref(E, argv[0], mem, guard)
        lo, hi = range_bounds(argv[1], len(t.fs), m.group(1))
        if not (0 <= lo <= hi <= len(t.fs)):
            E.panic(guard, 'slice range out of bounds', caller.fn.name)
            return DIVERGE
        return Ref(r.cell, r.path + (('sub', lo, hi),))
    reg(r'^<\[.*\] as (?:std::ops::|core::ops::)?Index(?:Mut)?<(?:std::ops::|core::ops::)?(Range\w*)(?:<usize>)?>>::index(?:_mut)?$', h_index_range)

    def h_copy_from_slice(E, m, func, argv, guard, mem, dty, caller):
        dr, dt = arr_ref(E, argv[0], mem, guard)
        sr, st = arr_ref(E, argv[1], mem, guard)
        if len(dt.fs) != len(st.fs):
            E.panic(guard, 'copy_from_slice length mismatch', caller.fn.name)
            return DIVERGE
        mem[dr.cell] = E.write_path(mem[dr.cell], dr.path, Tup(st.fs), mem, guard, 'copy_from_slice')
        return UNIT
    reg(r'^core::slice::<impl \[.*\]>::(?:copy|clone)_from_slice$', h_copy_from_slice)

    def h_split_at(E, m, func, argv, guard, mem, dty, caller):
        r, t = arr_ref(E, argv[0], mem, guard)
        k = argv[1]
        if not isinstance(k.t, int):
            raise Unsupported('symbolic split point')
        if k.t > len(t.fs):
            E.panic(guard, 'split_at out of bounds', caller.fn.name)
            return DIVERGE
        return Tup([Ref(r.cell, r.path + (('sub', 0, k.t),)), Ref(r.cell, r.path + (('sub', k.t, len(t.fs)),))])
    reg(r'^core::slice::<impl \[.*\]>::split_at(?:_mut)?$', h_split_at)

    def h_slice_to_array(E, m, func, argv, guard, mem, dty, caller):
        v = argv[0]
        n = int(m.group(1))
        if isinstance(v, Ref):
            r, t = arr_ref(E, v, mem, guard)
        elif isinstance(v, Tup):
            t = v
        else:
            return NotImplemented
        ok = len(t.fs) == n
        if m.group(2):   # returns a reference to the array
            val = v if isinstance(v, Ref) else t
        else:
            val = Tup(t.fs)
        return En('Result', 0 if ok else 1, {0: [val], 1: [UNIT]})
    reg(r'^<&?(?:mut )?\[\w+\] as (?:std::convert::|core::convert::)?TryInto<(?:&(?:mut )?)?\[\w+; (\d+)\]>>::try_into()$', h_slice_to_array)
    reg(r'^<\[\w+; (\d+)\] as (?:std::convert::|core::convert::)?TryFrom<&(?:mut )?\[\w+\]>>::try_from()$', h_slice_to_array)

    def h_array_identity(E, m, func, argv, guard, mem, dty, caller):
        v = argv[0]
        if isinstance(v, Tup):
            return v
        return NotImplemented
    reg(r'^<\[(\w+); (\d+)\] as (?:std::convert::|core::convert::)?(?:Into|From)<\[\1; \2\]>>::(?:into|from)$', h_array_identity)
    reg(r'^<\[\w+; \d+\] as (?:std::convert::|core::convert::)?TryInto<\[\w+; \d+\]>>::try_into$',
        lambda E, m, func, argv, guard, mem, dty, caller: En('Result', 0, {0: [argv[0]], 1: [UNIT]}) if isinstance(argv[0], Tup) else NotImplemented)

    # ---- channel type features (lightning-types) -------------------------------------
    def h_features(E, m, func, argv, guard, mem, dty, caller):
        kind, flag = m.group(1), m.group(2)
        r = argv[0]
        v = deref(E, r, mem, guard)
        if isinstance(v, Adt) and v.base is not None:
            fm = E.feature_model.get(v.base)
            if fm is not None:
                key = '%s_%s' % (kind, flag)
                if key not in fm:
                    raise Unsupported('feature %s not in the feature model of %s' % (key, v.base))
                return B(fm[key])
            return B(z3.Bool('%s.%s_%s' % (v.base, kind, flag)))
        return NotImplemented
    reg(r'Features<.*>>::(supports|requires)_(\w+)$', h_features)

    # ---- logging / formatting: opaque sinks ----------------------------------------------
    def h_opaque(E, m, func, argv, guard, mem, dty, caller):
        return Opaque('fmt/log')
    reg(r'^core::fmt::|^std::fmt::|^alloc::fmt::|^core::fmt::rt::|Arguments::<.*>::new|^Arguments::<.*>::|^std::fmt::Arguments|'
        r'^alloc::fmt::format|Record::<.*>::new|as (?:[\w]+::)*Logger>::log$|^util::logger::Record|'
        r'^<.* as ToString>::to_string$|^<.* as (?:std::fmt::|core::fmt::)?(?:Display|Debug)>::fmt$|'
        r'WithContext|^std::string::String|^std::slice::<impl \[u8\]>::to_vec$|^core::slice::<impl \[u8\]>::to_vec$|^(?:std::vec::|alloc::vec::)?Vec::<u8>::(?:new|with_capacity|extend_from_slice|push)$|^(?:std::vec::|alloc::vec::)from_elem::<u8>$|^<str as (?:std::borrow::|alloc::borrow::)?ToOwned>::to_owned|^<&?str as Into<String>>::into|'
        r'^<String as From<&str>>::from', h_opaque)

    def h_deref_ref(E, m, func, argv, guard, mem, dty, caller):
        r = argv[0]
        if isinstance(r, Ref):
            v = E.read_path(mem[r.cell], r.path, mem, guard, 'deref')
            if isinstance(v, Ref):
                return v
        return NotImplemented
    reg(r'^<&.* as (?:std::ops::)?Deref>::deref$', h_deref_ref)

    # ---- Fn* traits: calling a closure through a reference ------------------------------
    def h_fn_call(E, m, func, argv, guard, mem, dty, caller):
        clo, args = argv[0], argv[1]
        if not isinstance(args, Tup):
            return NotImplemented
        if isinstance(clo, Ref) and clo.cell not in mem:
            # a capture-less closure is zero-sized: MIR never assigns the local it is borrowed from
            mk = re.match(r'^<&?(?:mut )?(\{closure@[^}]*\}) as ', func)
            if mk:
                mem[clo.cell] = Clo(mk.group(1), [])
        return E.call_closure(clo, list(args.fs), guard, mem)
    reg(r' as (?:std::ops::|core::ops::)?Fn(?:Mut|Once)?<\(.*\)>>::call(?:_mut|_once)?$', h_fn_call)

    # ---- locks: guards are plain references to the protected value ---------------------
    def h_lock(E, m, func, argv, guard, mem, dty, caller):
        r = argv[0]
        lockv = deref(E, r, mem, guard)
        if not (isinstance(lockv, Adt) and lockv.base is not None):
            return NotImplemented
        key = lockv.base
        if key not in E.lock_cells:
            inner_ty = m.group(2)
            c = E.new_cell()
            mem[c] = E.sym(key + '.inner', inner_ty, mem)
            E.lock_cells[key] = c
        c = E.lock_cells[key]
        if c not in mem:
            mem[c] = E.sym(key + '.inner', m.group(2), mem)
        return En('Result', 0, {0: [Ref(c)]})
    reg(r'^(?:std::sync::|sync::\w+::|crate::sync::)?(RwLock|Mutex)::<(.*)>::(?:read|write|lock)$', h_lock)

    def h_guard_deref(E, m, func, argv, guard, mem, dty, caller):
        v = deref(E, argv[0], mem, guard) if isinstance(argv[0], Ref) else argv[0]
        g = argv[0]
        # &guard -> guard (a Ref to the protected value)
        if isinstance(g, Ref):
            inner = E.read_path(mem[g.cell], g.path, mem, guard, 'guard')
            if isinstance(inner, Ref):
                return inner
        return NotImplemented
    reg(r'^<(?:std::sync::)?(?:RwLockReadGuard|RwLockWriteGuard|MutexGuard)<.*> as (?:std::ops::)?Deref(?:Mut)?>::deref(?:_mut)?$', h_guard_deref)

    # ---- bitcoin::Amount as a u64 newtype ----------------------------------------------------
    def h_amount(E, m, func, argv, guard, mem, dty, caller):
        v = argv[0]
        if m.group(1) == 'from_sat':
            return v if isinstance(v, I) else NotImplemented
        if isinstance(v, I):
            return v
        if isinstance(v, Adt) and v.base is not None:
            return E.sym(v.base + '.sat', 'u64')
        return NotImplemented
    reg(r'Amount::(to_sat|from_sat)$', h_amount)

    # ---- mem ------------------------------------------------------------------------
    def h_mem(E, m, func, argv, guard, mem, dty, caller):
        name = m.group(1)
        if name == 'swap':
            a, b = argv
            va, vb = deref(E, a, mem, guard), deref(E, b, mem, guard)
            mem[a.cell] = E.write_path(mem[a.cell], a.path, vb, mem, guard, 'swap')
            mem[b.cell] = E.write_path(mem[b.cell], b.path, va, mem, guard, 'swap')
            return UNIT
        if name == 'replace':
            a, nv = argv
            old = deref(E, a, mem, guard)
            mem[a.cell] = E.write_path(mem[a.cell], a.path, nv, mem, guard, 'replace')
            return old
        return NotImplemented
    reg(r'^(?:std|core)::mem::(swap|replace)::<', h_mem)
    reg(r'^(?:std|core)::mem::(?:drop|forget)::<', lambda *a: UNIT)

    def h_fixed_time_eq(E, m, func, argv, guard, mem, dty, caller):
        return NotImplemented
