#!/bin/bash
# usage: tools_confirm_mutant.sh <prop> <mK> <demo test filter> [crate]
# Confirms in the scratch worktree /tmp/mut/<prop>: demo fails with the patch, the crate's existing
# lib tests pass with the patch, demo passes without it.  Writes /tmp/mut/<prop>-out/<mK>/confirm.log
prop=$1; m=$2; filter=$3; crate=${4:-lightning}
wt=/tmp/mut/$prop; out=/tmp/mut/$prop-out/$m; log=$out/confirm.log
cd $wt || exit 9
git checkout -q -- . ; git clean -fdq
export CARGO_NET_OFFLINE=true
{
echo "== apply patch + demo"; git apply $out/patch.diff && git apply $out/demo.diff || { echo APPLY-FAILED; exit 1; }
echo "== demo WITH patch (expect FAIL)"; cargo test -p $crate --offline ${TESTKIND:---lib} -- "$filter" 2>&1 | tail -15
echo "== existing tests WITH patch (expect ok apart from the demo)"; cargo test -p $crate --offline ${SUITEKIND:---lib} -- --test-threads 6 --skip "$filter" 2>&1 | grep -E "^test result|FAILED|failed|panicked" | head -20
echo "== revert patch, keep demo"; git apply -R $out/patch.diff
echo "== demo WITHOUT patch (expect ok)"; cargo test -p $crate --offline ${TESTKIND:---lib} -- "$filter" 2>&1 | tail -6
git checkout -q -- . ; git clean -fdq
echo "== done"
} > $log 2>&1
