#!/bin/bash
# usage: tools_run_mutant.sh <patch.diff> <prop> [more props...]  -- apply to /repo, run quick checks, revert
patch=$1; shift
cd /repo || exit 9
if ! git diff --quiet; then echo "repo dirty"; exit 9; fi
git apply "$patch" || { echo "PATCH DOES NOT APPLY"; exit 8; }
for prop in "$@"; do
  cd /verif && VERIF_ONLY="${VERIF_ONLY:-}" ./verif check "$prop" > /tmp/mutrun_$prop.log 2>&1
  rc=$?
  echo "[$prop] rc=$rc $(grep -cE 'counterexample' /tmp/mutrun_$prop.log) cex; $(grep -E '^VIOLATION|^INCONCLUSIVE|^PASS' /tmp/mutrun_$prop.log | cut -c1-160 | head -4 | tr '\n' '|')"
done
cd /repo && git checkout -- .
