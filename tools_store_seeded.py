#!/usr/bin/env python3
"""copies a confirmed mutant from /tmp/mut/<prop>-out/<m>/ to /verif/seeded/<prop>-<m>/ with meta.json
usage: tools_store_seeded.py <prop> <m> <detected_by or ''> <needs text> [<status note>]"""
import sys, os, json, shutil, re
prop, m, detected, needs = sys.argv[1:5]
note = sys.argv[5] if len(sys.argv) > 5 else ''
src = '/tmp/mut/%s-out/%s' % (prop, m)
dst = '/verif/seeded/%s-%s' % (prop, m)
os.makedirs(dst, exist_ok=True)
for f in ('patch.diff', 'demo.diff', 'notes.md', 'confirm.log'):
    if os.path.exists(os.path.join(src, f)):
        shutil.copy(os.path.join(src, f), dst)
conf = open(os.path.join(src, 'confirm.log')).read() if os.path.exists(os.path.join(src, 'confirm.log')) else ''
res = re.findall(r'test result: (\w+)\. (\d+) passed; (\d+) failed', conf)
demo = re.findall(r'^\+\s*fn (\w+)\(\)', open(os.path.join(src, 'demo.diff')).read(), re.M)
files = re.findall(r'^diff --git a/(\S+)', open(os.path.join(src, 'patch.diff')).read(), re.M)
meta = {
    'id': '%s-%s' % (prop, m), 'breaks_property': prop[:3], 'files_changed': files,
    'needs_to_manifest': needs,
    'demonstration': {'kind': 'rust #[test] added by demo.diff', 'tests': demo,
                      'command': 'cargo test -p lightning --offline --lib -- <test name>'},
    'confirmed_by_me': {
        'how': 'tools_confirm_mutant.sh in a scratch worktree of /repo (round 7: the final tree 1474601) (/tmp/mut/%s, removed afterwards): apply patch+demo, run demo (must fail), run the whole lightning lib suite with the patch (must pass), revert patch, run demo (must pass)' % prop,
        'demo_with_patch': res[0][0] if len(res) > 0 else '?',
        'lib_suite_with_patch': ('%s passed, %s failed' % (res[1][1], res[1][2])) if len(res) > 1 else '?',
        'demo_without_patch': res[2][0] if len(res) > 2 else '?'},
    'detected_by': [d for d in detected.split(',') if d],
    'detection_note': note,
    'source': 'independent sub-agent given only the property text and a scratch worktree',
}
json.dump(meta, open(os.path.join(dst, 'meta.json'), 'w'), indent=1)
print(dst, meta['confirmed_by_me'], meta['detected_by'])
