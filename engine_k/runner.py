"""engine K: Kani harness runner (filled in as harnesses land)"""


def setup():
    return 0


def replay(rep):
    print('kani replay not available yet')
    return 2
