"""engine K: runs the Kani proof harnesses of /verif/harness against /repo's working tree.

Harnesses are registered in engine_k/harnesses.json.  A harness counts as discharged only if Kani
reports VERIFICATION:- SUCCESSFUL with unwinding assertions on and every kani::cover! satisfied.
A FAILED harness is replayed natively (concrete playback) before it is reported as a violation;
timeouts, out-of-memory, failed unwinding assertions and unsatisfied covers are inconclusive."""
import os, re, json, time, subprocess, shutil, threading, hashlib

HERE = os.path.dirname(os.path.abspath(__file__))
VERIF = os.path.dirname(HERE)
HARNESS = os.path.join(VERIF, 'harness')
CACHE = os.path.join(VERIF, '.cache')
REPO = os.environ.get('VERIF_REPO', '/repo')


def load_registry():
    p = os.path.join(HERE, 'harnesses.json')
    if not os.path.exists(p):
        return []
    return json.load(open(p))


def _env():
    e = dict(os.environ)
    e['CARGO_NET_OFFLINE'] = 'true'
    e.pop('RUSTFLAGS', None)
    return e


def _ensure_lock():
    dst = os.path.join(HARNESS, 'Cargo.lock')
    if not os.path.exists(dst):
        shutil.copy(os.path.join(REPO, 'Cargo.lock'), dst)


def kani_cmd(harnesses, target_dir, extra=()):
    cmd = ['cargo', 'kani', '--target-dir', target_dir, '--exact']
    for h in harnesses:
        cmd += ['--harness', '%s::%s' % (h.split('_')[0], h)]
    cmd += list(extra)
    return cmd


def parse_log(text):
    """split a cargo-kani log into per-harness results"""
    res = {}
    parts = re.split(r'^Checking harness ([\w:]+)\.\.\.', text, flags=re.M)
    # parts: [preamble, name1, body1, name2, body2, ...]
    for i in range(1, len(parts) - 1, 2):
        name = parts[i].split('::')[-1]
        body = parts[i + 1]
        r = {'status': 'unknown'}
        if 'VERIFICATION:- SUCCESSFUL' in body:
            r['status'] = 'success'
        elif 'VERIFICATION:- FAILED' in body:
            r['status'] = 'failed'
        # covers: the optimiser may duplicate a cover!() block; a cover location counts as witnessed
        # when at least one of its copies is SATISFIED
        cov = {}
        for mm in re.finditer(r'Check \d+: \S+\.cover\.\d+\s*\n\s*- Status: (\w+)\s*\n\s*- Description: "([^"]*)"\s*\n\s*- Location: (\S+)', body):
            key = (mm.group(3), mm.group(2))
            cov[key] = cov.get(key, False) or (mm.group(1) == 'SATISFIED')
        if cov:
            r['covers'] = (sum(1 for v in cov.values() if v), len(cov))
            r['uncovered'] = [k[1] for k, v in cov.items() if not v]
        else:
            m = re.search(r'\*\* (\d+) of (\d+) cover properties satisfied', body)
            if m:
                r['covers'] = (int(m.group(1)), int(m.group(2)))
        m = re.search(r'\*\* (\d+) of (\d+) failed', body)
        if m:
            r['failed_checks'] = int(m.group(1))
        fails = re.findall(r'Failed Checks: (.*)', body)
        r['failed'] = fails[:8]
        r['unwind_fail'] = any('unwinding assertion' in f for f in fails)
        m = re.search(r'Verification Time: ([\d.]+)s', body)
        if m:
            r['time_s'] = float(m.group(1))
        m = re.search(r'size of program expression: (\d+) steps', body)
        if m:
            r['steps'] = int(m.group(1))
        m = re.search(r'Generated (\d+) VCC\(s\), (\d+) remaining after simplification', body)
        if m:
            r['vccs'] = int(m.group(1))
            r['vccs_remaining'] = int(m.group(2))
        m = re.search(r'(\d+) variables, (\d+) clauses', body)
        if m:
            r['sat_variables'], r['sat_clauses'] = int(m.group(1)), int(m.group(2))
        if 'Status: ERROR' in body or 'out of memory' in body.lower() or 'CBMC failed' in body:
            r['status'] = 'error'
        res[name] = r
    return res


class Job(threading.Thread):
    def __init__(self, idx, harnesses, timeout, extra=()):
        super().__init__()
        self.idx, self.harnesses, self.timeout, self.extra = idx, harnesses, timeout, extra
        self.log = ''
        self.rc = None
        self.wall = 0

    def run(self):
        t = time.time()
        tdir = os.path.join(CACHE, 'kani-target-%d' % self.idx)
        os.makedirs(CACHE, exist_ok=True)
        logp = os.path.join(CACHE, 'kani-log-%d.txt' % self.idx)
        mem_kb = int(os.environ.get('VERIF_KANI_MEM_GB', '12')) * 1024 * 1024
        cmd = kani_cmd(self.harnesses, tdir, self.extra)
        sh = 'ulimit -v %d; exec %s' % (mem_kb * 2, ' '.join("'%s'" % c for c in cmd))
        with open(logp, 'wb') as out:
            try:
                p = subprocess.Popen(['bash', '-c', sh], cwd=HARNESS, env=_env(), stdout=out, stderr=subprocess.STDOUT,
                                     start_new_session=True)
                p.wait(timeout=self.timeout)
                self.rc = p.returncode
            except subprocess.TimeoutExpired:
                try:
                    os.killpg(p.pid, 9)
                except Exception:
                    pass
                self.rc = 'timeout'
        self.log = open(logp, errors='replace').read()
        self.wall = time.time() - t


def setup():
    """pre-build the harness crate's dependencies under Kani (first compile ~70 s per target dir)"""
    reg = load_registry()
    if not reg:
        return 0
    _ensure_lock()
    # warm the four Kani target dirs (compiles lightning + deps under Kani's toolchain once each)
    njobs = int(os.environ.get('VERIF_KANI_JOBS', '4'))
    jobs = [Job(k, ['c14_layout_constants'], 1500) for k in range(njobs)]
    for j in jobs:
        j.start()
    for j in jobs:
        j.join()
    bad = [j for j in jobs if 'VERIFICATION:- SUCCESSFUL' not in j.log]
    if bad:
        print('kani warm-up failed:\n' + bad[0].log[-2000:])
        return 1
    return 0


def run_property(S, prop):
    """run the registered harnesses of `prop` for the session's tier and record them in S"""
    reg = [h for h in load_registry() if h['property'] == prop and (S.tier == 'thorough' or h.get('tier', 'quick') == 'quick')]
    only = os.environ.get('VERIF_ONLY')
    if only:
        reg = [h for h in reg if re.search(only, h['id'])]
    if os.environ.get('VERIF_NO_KANI'):       # development aid (the run is then not recorded as evidence)
        reg = []
    if not reg:
        return
    _ensure_lock()
    # harnesses that need extra CBMC options (e.g. a larger field-sensitivity array size so that
    # concrete bytes of a >64-byte buffer are constant-propagated) run in their own cargo-kani
    # invocations; the rest are balanced by expected time over the job slots
    special = {}
    for h in reg:
        if h.get('cbmc_args'):
            special.setdefault(tuple(h['cbmc_args']), []).append(h)
    plain = [h for h in reg if not h.get('cbmc_args')]
    nslots = int(os.environ.get('VERIF_KANI_JOBS', '4'))
    groups = []          # (harness list, extra args)
    stub = ['-Z', 'stubbing'] if any(h.get('stubbing') for h in reg) else []
    for key, hs in special.items():
        groups.append((hs, stub + ['-Z', 'unstable-options', '--cbmc-args'] + list(key)))
    nplain = max(1, min(nslots - len(groups), len(plain))) if plain else 0
    pg = [[] for _ in range(nplain)]
    load = [0] * nplain
    for h in sorted(plain, key=lambda h: -h.get('expect_s', 60)):
        k = load.index(min(load))
        pg[k].append(h)
        load[k] += h.get('expect_s', 60)
    groups += [(g, stub) for g in pg if g]
    jobs = []
    pending = list(enumerate(groups))
    running = []
    free = list(range(nslots))
    while pending or running:
        while pending and free:
            _, (g, extra) = pending.pop(0)
            slot = free.pop(0)
            to = sum(h.get('timeout_s', 600) for h in g) + 400
            j = Job(slot, [h['harness'] for h in g], to, extra)
            j.start()
            running.append(j)
            jobs.append((j, g))
        for j in list(running):
            j.join(timeout=1)
            if not j.is_alive():
                running.remove(j)
                free.append(j.idx)
    S.build_s += 0
    for j, g in jobs:
        res = parse_log(j.log)
        for h in g:
            r = res.get(h['harness'])
            rec = {'obligation': h['id'], 'kind': 'kani', 'desc': h.get('desc', ''), 'harness': h['harness'],
                   'bounds': h.get('bounds', ''), 'functions': h.get('functions', []), 'unwind': h.get('unwind'),
                   'solver_s': (r or {}).get('time_s'), 'engine': 'K (cargo kani / CBMC, cadical)'}
            S.queries += 1
            if r is not None:
                S.k_steps = getattr(S, 'k_steps', 0) + r.get('steps', 0)
                S.k_vccs = getattr(S, 'k_vccs', 0) + r.get('vccs', 0)
                for kk in ('steps', 'vccs', 'vccs_remaining', 'sat_variables', 'sat_clauses'):
                    if kk in r:
                        rec['cbmc_' + kk] = r[kk]
            if r is None:
                rec['verdict'] = 'inconclusive'
                tail = j.log[-600:].replace('\n', ' | ')
                S.inconclusive.append('%s: harness %s produced no result (rc=%s): %s' % (h['id'], h['harness'], j.rc, tail))
            elif r['status'] == 'success':
                cov = r.get('covers')
                if cov and cov[0] < cov[1]:
                    rec['verdict'] = 'vacuous'
                    if h.get('allow_uncovered') and set(r.get('uncovered', [])) <= set(h['allow_uncovered']):
                        rec['verdict'] = 'holds'
                        rec['covers'] = cov
                    else:
                        S.inconclusive.append('%s: %d of %d kani::cover! witnesses unsatisfied: %s' % (h['id'], cov[1] - cov[0], cov[1], r.get('uncovered')))
                else:
                    rec['verdict'] = 'holds'
                    rec['covers'] = cov
            elif r['status'] == 'failed':
                if r.get('unwind_fail') and all('unwinding assertion' in f for f in r['failed']):
                    rec['verdict'] = 'inconclusive'
                    S.inconclusive.append('%s: unwinding bound too small (%s)' % (h['id'], r['failed'][:2]))
                else:
                    rec['verdict'] = 'counterexample'
                    rec['failed_checks'] = r['failed']
                    _handle_failure(S, h, rec)
            else:
                rec['verdict'] = 'inconclusive'
                S.inconclusive.append('%s: kani/cbmc error or resource limit (status %s, rc=%s)' % (h['id'], r['status'], j.rc))
            S.solver_s += (r or {}).get('time_s') or 0
            S.records.append(rec)
            S.log('  [%s] %-28s %-12s %6.1fs  %s' % (S.prop, h['id'], rec['verdict'], (r or {}).get('time_s') or 0, h.get('desc', '')[:70]))


def _handle_failure(S, h, rec):
    """re-run the failing harness with concrete playback and execute the generated test natively"""
    known = [k for k in S.known_findings if k['property'] == S.prop and k['obligation'] == h['id'] and k['kind'] == 'finding']
    ok, detail, path = playback(S.prop, h)
    rec['replay'] = detail
    if ok:
        if known:
            rec['verdict'] = 'known-finding'
            S.known.append((h['id'], known[0]['what']))
            return
        rec['replay_file'] = path
        S.violations.append((h['id'], path))
    else:
        rec['verdict'] = 'inconclusive'
        S.inconclusive.append('%s: Kani reported FAILED (%s) but the counterexample did not reproduce natively: %s' % (
            h['id'], '; '.join(rec.get('failed_checks', []))[:300], detail[:300]))


def playback(prop, h):
    """returns (reproduced, detail, replay_path)"""
    work = os.path.join(CACHE, 'playback-' + h['harness'])
    shutil.rmtree(work, ignore_errors=True)
    shutil.copytree(HARNESS, work, ignore=shutil.ignore_patterns('target', '.git'))
    tdir = os.path.join(CACHE, 'kani-target-playback')
    extra = ['-Z', 'stubbing'] if h.get('stubbing') else []
    if h.get('cbmc_args'):
        extra += ['-Z', 'unstable-options', '--cbmc-args'] + list(h['cbmc_args'])
    cmd = ['cargo', 'kani', '--target-dir', tdir, '--exact', '--harness', '%s::%s' % (h['harness'].split('_')[0], h['harness']), '-Z', 'concrete-playback', '--concrete-playback=inplace'] + extra
    r = subprocess.run(cmd, cwd=work, env=_env(), stdout=subprocess.PIPE, stderr=subprocess.STDOUT, text=True, timeout=h.get('timeout_s', 600) + 600)
    src_changed = []
    for dp, dn, fn in os.walk(os.path.join(work, 'src')):
        for f in fn:
            p = os.path.join(dp, f)
            if 'kani_concrete_playback' in open(p, errors='replace').read():
                src_changed.append(p)
    if not src_changed:
        return False, 'no concrete playback test was generated: ' + r.stdout[-300:], None
    names = []
    for p in src_changed:
        names += re.findall(r'fn (kani_concrete_playback_\w+)', open(p).read())
    # Kani emits one playback test per satisfied cover and one per failed check: run them all and
    # keep the ones that fail natively
    r2 = subprocess.run(['cargo', 'kani', 'playback', '-Z', 'concrete-playback', '--', 'kani_concrete_playback_' + h['harness']], cwd=work, env=_env(),
                        stdout=subprocess.PIPE, stderr=subprocess.STDOUT, text=True, timeout=1800)
    failing = re.findall(r'test \S*?(kani_concrete_playback_\w+) \.\.\. FAILED', r2.stdout)
    failed = bool(failing)
    os.makedirs(os.path.join(VERIF, 'replays'), exist_ok=True)
    path = os.path.join(VERIF, 'replays', '%s-%s.json' % (prop, h['harness']))
    test_src = ''
    for p in src_changed:
        for m in re.finditer(r'(#\[test\]\s*fn (kani_concrete_playback_\w+).*?\n}\n)', open(p).read(), re.S):
            if m.group(2) in failing or (not failing and not test_src):
                test_src += m.group(1)
    json.dump({'engine': 'kani', 'property': prop, 'obligation': h['id'], 'harness': h['harness'], 'claim': h.get('desc', ''),
               'playback_test': test_src, 'native_output_tail': r2.stdout[-1500:],
               'how': 'cargo kani -Z concrete-playback --concrete-playback=inplace generated the unit test above from the solver model; cargo kani playback ran it natively against /repo'},
              open(path, 'w'), indent=1)
    return failed, ('native playback %s: %s' % ('FAILED as predicted' if failed else 'did not fail', r2.stdout[-400:])), path


def replay(rep):
    print('harness: %s\nclaim: %s\n' % (rep.get('harness'), rep.get('claim')))
    print(rep.get('playback_test', ''))
    reg = [h for h in load_registry() if h['harness'] == rep.get('harness')]
    if not reg:
        print('harness no longer registered')
        return 2
    ok, detail, _ = playback(rep['property'], reg[0])
    print(detail)
    return 1 if ok else 0
