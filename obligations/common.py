"""helpers shared by obligation modules"""
import z3
from engine_m import exec as X
from engine_m.session import Binding

U64 = (1 << 64) - 1
U32 = (1 << 32) - 1
U16 = (1 << 16) - 1


def is_ok(res):
    """Result/Option enum value -> z3 Bool 'is Ok' ('is Some' for idx 1 of Option handled by caller)"""
    return X.zint(res.d) == 0


def reason_parser(decls, enum='LocalHTLCFailureReason'):
    def parse(toks):
        if toks[0] == 'Ok':
            return [0, None]
        return [1, decls.variant_index(enum, toks[1])]
    return parse


def err_payload(res, k=0):
    return res.vs[1][k]


def field(E, decls, struct, fname, adt_value, ty, mem=None, hint=None):
    idx = decls.field_index(struct, fname, hint)
    return E.read_path(adt_value, (('f', idx, ty),), mem or {}, True, 'spec')
