"""C10 — restarting from persisted state: the staleness decisions ChannelManager::read takes per channel (narrow kernels).

C10.a  from_channel_manager_data, region of the per-channel loop body from "the channel has a monitor" to the end of the
       stale-manager branch / the call of on_startup_drop_completed_blocked_mon_updates_through: the channel is
       force-closed (OutdatedChannelManager) iff the manager's view is older than the monitor's in any of the four
       counters, it is never resumed then, the regenerated close update gets the monitor's id + 1 (saturating), and a
       resumed channel drops its blocked updates through the MONITOR's latest id.
C10.b  FundedChannel::on_startup_drop_completed_blocked_mon_updates_through (<= 3 blocked updates): exactly the blocked
       updates whose id is at most the monitor's are dropped, the others are kept in order.
C10.c  the closures of handle_in_flight_updates! (both expansions): an in-flight update counts as completed iff its id
       is at most the monitor's latest id, is replayed (MonitorUpdateRegeneratedOnStartup) iff it is above it, and the
       running maximum is the maximum.
C10.e  from_channel_manager_data, region from "the funded channel's monitor was found" through one expansion of
       handle_in_flight_updates! to the stale-monitor test, with N <= 2 (3) in-flight updates and the real closures: what is
       queued (MonitorUpdatesComplete with the highest id, or one replay per missing update, in order), what stays in
       flight, and DangerousValue iff the channel is ahead of max(monitor id, highest in-flight id).
C10.f  reconcile_pending_htlcs_with_monitor's matching closure: a queued forward is the monitor's HTLC iff it came in over the
       same previous channel (funding outpoint) with the same HTLC id - ids are per channel, not per peer.
C10.g  the closure deciding whether an HTLCIntercepted event must be regenerated at start-up: only an event for THAT
       intercept id counts as already queued.
C10.d  from_channel_manager_data, region of the stale-MONITOR test: DecodeError::DangerousValue iff the channel's latest
       unblocked update id is above max(monitor id, highest in-flight id).
"""
import re
import z3
from engine_m import exec as X
from engine_m.session import Binding
from .common import *

EVIDENCE = dict(assumptions=[
    'kernel only (narrow): the per-channel staleness decisions of ChannelManager deserialisation (from_channel_manager_data regions, the in-flight replay closures, on_startup_drop_completed_blocked_mon_updates_through) - NOT the whole crash/restart property',
    'the getters of the channel and of the monitor are free integers (what they return is not related to a history), maps, mutexes, logging and force_shutdown are stubs with free outcomes; <= 3 blocked / in-flight updates',
    'that the state so restored lets every pending HTLC resolve correctly after reconnection, event re-delivery, the rebuild of payments from monitors (C03.e covers insert_from_monitor_on_startup), repeated crashes during recovery and the serialisation round-trip itself are outside the claim (the native battery samples them: restart_battery)'])


def battery_binding(claim):
    """replay binding shared by the C10 obligations (oracle_tu restart_battery): a payment flow between two live nodes is
    cut at every quiescent point; the node restarts from the ChannelManager of point k and the ChannelMonitor of point
    j >= k, for all pairs: reading must succeed, the channel must be force-closed (OutdatedChannelManager) iff the
    monitor saw an update the manager did not, otherwise it must be resumed and the payment completes after reconnection"""
    c = claim if z3.is_expr(claim) else X.zbool(claim)
    return Binding('restart_battery', [z3.IntVal(1)], [z3.If(c, 0, 1)], parse=lambda t: [0 if t[0] == '0' else 1], line_fn=lambda v: '1',
                   which='oracle_tu', via_solver=True, domain=[(1, 1)], panic=False)


def prove(S, oid, E, pre, claim, desc, **kw):
    return S.prove(oid, E, pre, claim, desc, [battery_binding(claim)], **kw)


def run(S):
    D = S.decls()
    stale_manager(S, D)
    drop_blocked(S, D)
    in_flight_closures(S, D)
    stale_monitor(S, D)
    in_flight_region(S, D)
    forward_match(S, D)
    intercept_regeneration(S, D)


LOG_STUBS = [
    (r'Arguments::<.*>::from_str$|Arguments::<.*>::new', lambda *a: X.Opaque('fmt args')),
    (r'Record::<.*>::new', lambda *a: X.Opaque('log record')),
    (r' as Logger>::log$|Logger>::log$', lambda *a: X.UNIT),
    (r'^format$|^must_use::<', lambda *a: X.Opaque('string')),
    (r'Argument::<.*>::new_', lambda *a: X.Opaque('fmt arg')),
    (r'^std::mem::drop::<', lambda *a: X.UNIT),
]


def _fcmd(S):
    return S.fn('from_channel_manager_data')


def _calls(f, rx):
    r = re.compile(rx)
    return [b for b, (body, t) in f.blocks.items() if t[0] == 'call' and r.search(t[2])]


def stale_manager(S, D):
    ids = ['C10.a.closed_iff_stale', 'C10.a.close_update_id', 'C10.a.resumed_drops_through_monitor_id', 'C10.a.witness.closed', 'C10.a.witness.resumed']
    if all(S._skip(o) for o in ids):
        return
    f = _fcmd(S)
    E = S.engine(unwind=1)
    mem = {}
    start = _calls(f, r'FundedChannel::<.*>::get_cur_holder_commitment_transaction_number$')
    if not start:
        raise X.Unsupported('from_channel_manager_data: no holder-commitment comparison')
    start = min(start)
    ch = {k: E.sym('channel.' + k, 'u64') for k in ('holder_commitment_number', 'revoked_counterparty_commitment_number', 'counterparty_commitment_number', 'latest_monitor_update_id')}
    mo = {k: E.sym('monitor.' + k, 'u64') for k in ('holder_commitment_number', 'min_seen_secret', 'counterparty_commitment_number', 'latest_update_id')}
    closed, dropped, pushed, inserted = [], [], [], []
    batch = z3.Bool('shutdown.unbroadcasted_batch_funding')
    has_upd = z3.Bool('shutdown.has_monitor_update')
    CU = D.struct_fields('ChannelMonitorUpdate')
    upd0 = E.sym('shutdown.update.update_id', 'u64')

    def h_force_shutdown(E_, m, func, argv, guard, mem_, dty, caller):
        closed.append(X.zbool(guard))
        SR = D.struct_fields('ShutdownResult')
        upd = X.Adt('ChannelMonitorUpdate', {CU.index('update_id'): upd0}, base='close_update')
        flds = {SR.index('unbroadcasted_batch_funding_txid'): X.En('Option', z3.If(batch, 1, 0), {1: [X.Opaque('txid')]}),
                SR.index('monitor_update'): X.En('Option', z3.If(has_upd, 1, 0), {1: [X.Tup([X.Opaque('counterparty'), X.Opaque('funding txo'), X.Opaque('channel id'), upd])]}),
                SR.index('dropped_outbound_htlcs'): X.Seq([], 0, 'dropped htlc')}
        return X.Adt('ShutdownResult', flds, base='shutdown_result')

    def h_drop(E_, m, func, argv, guard, mem_, dty, caller):
        dropped.append((X.zbool(guard), argv[2]))
        return X.UNIT

    def h_push(E_, m, func, argv, guard, mem_, dty, caller):
        pushed.append((X.zbool(guard), argv[1]))
        return X.UNIT

    def h_or_insert(E_, m, func, argv, guard, mem_, dty, caller):
        inserted.append((X.zbool(guard), argv[1]))
        return X.Opaque('&mut u64')

    for rx, h in LOG_STUBS + [
        (r'FundedChannel::<.*>::get_cur_holder_commitment_transaction_number$', lambda *a: ch['holder_commitment_number']),
        (r'FundedChannel::<.*>::get_revoked_counterparty_commitment_transaction_number$', lambda *a: ch['revoked_counterparty_commitment_number']),
        (r'FundedChannel::<.*>::get_cur_counterparty_commitment_transaction_number$', lambda *a: ch['counterparty_commitment_number']),
        (r'ChannelContext::<.*>::get_latest_monitor_update_id$', lambda *a: ch['latest_monitor_update_id']),
        (r'ChannelMonitor::<.*>::get_cur_holder_commitment_number$', lambda *a: mo['holder_commitment_number']),
        (r'ChannelMonitor::<.*>::get_min_seen_secret$', lambda *a: mo['min_seen_secret']),
        (r'ChannelMonitor::<.*>::get_cur_counterparty_commitment_number$', lambda *a: mo['counterparty_commitment_number']),
        (r'ChannelMonitor::<.*>::get_latest_update_id$', lambda *a: mo['latest_update_id']),
        (r'FundedChannel::<.*>::force_shutdown$', h_force_shutdown),
        (r'FundedChannel::<.*>::on_startup_drop_completed_blocked_mon_updates_through::<', h_drop),
        (r'HashMap::<.*PublicKey, .*Mutex<PeerState<.*>>.*>::entry$', lambda *a: X.Opaque('peer entry')),
        (r'hash_map::Entry::<.*PeerState<.*>::or_insert_with::<', lambda *a: X.Opaque('peer mutex')),
        (r'Mutex::<PeerState<.*>>::lock$', lambda *a: X.En('Result', 0, {0: [X.Opaque('peer guard')]})),
        (r'MutexGuard<.*PeerState<.*>> as (?:std::ops::)?DerefMut>::deref_mut$', lambda E_, m, func, argv, guard, mem_, dty, caller: _peer_ref(E_, mem_)),
        (r'BTreeMap::<.*ChannelId, u64>::entry$', lambda *a: X.Opaque('closed-ids entry')),
        (r'btree_map::Entry::<.*ChannelId, u64>::and_modify::<', lambda *a: X.Opaque('closed-ids entry')),
        (r'btree_map::Entry::<.*ChannelId, u64>::or_insert$', h_or_insert),
        (r'Vec::<BackgroundEvent>::push$', h_push),
    ]:
        E.models.insert(0, (re.compile(rx), h))
    stop_closed = _calls(f, r'Vec<\(.*HTLCSource, .*PaymentHash, .*PublicKey, .*ChannelId\)> as IntoIterator>::into_iter$')
    stop_resumed = []
    for b in _calls(f, r'on_startup_drop_completed_blocked_mon_updates_through'):
        stop_resumed.append(_ret_target(f.blocks[b][1]))
    err_blocks = [b for b, (bd, t) in f.blocks.items() if any('DecodeError::InvalidValue' in str(st) for st in bd)]
    args = [X.Opaque('data'), X.Opaque('args')]
    runr = X.FnRun(E, f, args, True, mem)
    mon_c = E.new_cell()
    mem[mon_c] = X.Opaque('monitor')
    mref_c = E.new_cell()
    mem[mref_c] = X.Ref(mon_c)
    init = {}
    # the Option being matched is the local whose discriminant was switched on just before `start`
    opt_local = _matched_option_local(f, start)
    init[opt_local] = X.En('Option', 1, {1: [X.Ref(mref_c)]})
    E.depth += 1
    stops = set(stop_closed[:1]) | set(stop_resumed) | set(err_blocks)
    rv, ret, m2 = runr.run(start_bb=start, init=init, stop_bbs=tuple(stops))
    E.depth -= 1
    was_closed = z3.Or(*closed) if closed else z3.BoolVal(False)
    was_dropped = z3.Or(*[g for g, v in dropped]) if dropped else z3.BoolVal(False)
    stale = z3.Or(ch['holder_commitment_number'].t > mo['holder_commitment_number'].t,
                  ch['revoked_counterparty_commitment_number'].t > mo['min_seen_secret'].t,
                  ch['counterparty_commitment_number'].t > mo['counterparty_commitment_number'].t,
                  ch['latest_monitor_update_id'].t < mo['latest_update_id'].t)
    prove(S, ids[0], E, [], z3.And(was_closed == stale, was_dropped == z3.Not(stale)),
          'a channel is force-closed (OutdatedChannelManager, from the monitor\'s state) exactly when the manager\'s copy is older than its monitor in any counter - holder commitment number (counting down), revoked counterparty commitment number, counterparty commitment number, monitor update id - and is resumed only when it is not older in any of them',
          bounds='region of from_channel_manager_data (per-channel loop body, channel with a monitor); the eight counters are free u64 values; logging, maps and force_shutdown stubbed')
    sat1 = z3.If(mo['latest_update_id'].t >= U64, U64, mo['latest_update_id'].t + 1)
    ev_ok = []
    BE = lambda n: D.variant_index('BackgroundEvent', n)
    for g, v in pushed:
        uid = E.read_path(v, (('v', 'MonitorUpdateRegeneratedOnStartup'), ('f', 3, 'ChannelMonitorUpdate'), ('f', CU.index('update_id'), 'u64')), m2, True, 'spec')
        ev_ok.append(z3.Implies(g, z3.And(X.zint(v.d) == BE('MonitorUpdateRegeneratedOnStartup'), uid.t == sat1)))
    n_push = z3.Sum([z3.If(g, 1, 0) for g, v in pushed]) if pushed else z3.IntVal(0)
    n_ins = z3.Sum([z3.If(g, 1, 0) for g, v in inserted]) if inserted else z3.IntVal(0)
    prove(S, ids[1], E, [], z3.And(n_push == z3.If(z3.And(stale, z3.Not(batch), has_upd), 1, 0), n_ins == n_push, *ev_ok,
                                   *[z3.Implies(g, X.zint(v.t) == sat1) for g, v in inserted]),
          'the close of a stale channel is replayed as a MonitorUpdateRegeneratedOnStartup whose id is the MONITOR\'s latest id + 1 (saturating) - not the stale manager\'s - and that id is recorded as the closed channel\'s latest update id',
          bounds='same region; ShutdownResult free (batch funding / monitor update present or not)')
    prove(S, ids[2], E, [], z3.And(*[z3.Implies(g, X.zint(v.t) == mo['latest_update_id'].t) for g, v in dropped]),
          'a resumed channel drops its blocked monitor updates through the id the monitor actually reached')
    S.witness(ids[3], E, [stale, z3.Not(batch), has_upd], n_push == 1)
    S.witness(ids[4], E, [z3.Not(stale)], was_dropped)


def _ret_target(term):
    return term[4]


def _peer_ref(E, mem_):
    c = E.new_cell()
    mem_[c] = X.Adt('PeerState', {}, base='peer_state')
    return X.Ref(c)


def _matched_option_local(f, start):
    for b, (bd, t) in f.blocks.items():
        if t[0] == 'switch' and start in t[2].values():
            for st in reversed(bd):
                if st[0] == 'assign' and st[2][0] == 'discr' and st[2][1][0] == 'local':
                    return st[2][1][1]
    raise X.Unsupported('the Option matched before bb%d was not found' % start)


def drop_blocked(S, D):
    """C10.b"""
    for N in ((0, 1, 2, 3) if S.tier == 'quick' else (0, 1, 2, 3, 4)):
        tag = 'C10.b.n%d' % N
        ids = [tag + '.drops_exactly_completed', tag + '.nopanic', tag + '.witness']
        if all(S._skip(o) for o in ids):
            continue
        f = S.fn('on_startup_drop_completed_blocked_mon_updates_through')
        E = S.engine(unwind=N + 1)
        mem = {}
        CC = D.struct_fields('ChannelContext')
        FC = D.struct_fields('FundedChannel')
        CU = D.struct_fields('ChannelMonitorUpdate')
        PU = D.struct_fields('PendingChannelMonitorUpdate')
        uid = [E.sym('blocked%d.update_id' % i, 'u64') for i in range(N)]
        ups = X.Seq([X.Adt('PendingChannelMonitorUpdate', {PU.index('update'): X.Adt('ChannelMonitorUpdate', {CU.index('update_id'): uid[i]}, base='upd%d' % i)}, base='pend%d' % i) for i in range(N)], N, 'PendingChannelMonitorUpdate')
        ctx = X.Adt('ChannelContext', {CC.index('blocked_monitor_updates'): ups}, base='ctx')
        chan_c = E.new_cell()
        mem[chan_c] = X.Adt('FundedChannel', {FC.index('context'): ctx}, base='chan')
        loaded = E.sym('monitor.latest_update_id', 'u64')
        for rx, h in LOG_STUBS:
            E.models.insert(0, (re.compile(rx), h))
        S.call(E, f, [X.Ref(chan_c), X.Opaque('logger'), loaded], mem)
        ctx2 = E.read_path(mem[chan_c], (('f', FC.index('context'), 'ChannelContext'),), mem, True, 'spec')
        after = E.read_path(ctx2, (('f', CC.index('blocked_monitor_updates'), 'Vec'),), mem, True, 'spec')
        if not isinstance(after, X.Seq):
            raise X.Unsupported('blocked updates after the call: %r' % (after,))
        kept = []
        els = list(zip(after.elems, after.pres if not after.prefix else [X.simp(X.zint(after.n) > i) for i in range(len(after.elems))]))
        for i in range(N):
            present = X.zbool(els[i][1]) if i < len(els) else z3.BoolVal(False)
            u = E.read_path(els[i][0], (('f', PU.index('update'), 'ChannelMonitorUpdate'), ('f', CU.index('update_id'), 'u64')), mem, True, 'spec') if i < len(els) else None
            kept.append(z3.And(present == (uid[i].t > loaded.t), z3.Implies(present, u.t == uid[i].t) if u is not None else True))
        prove(S, ids[0], E, [], z3.And(*kept) if kept else z3.BoolVal(True),
              'a channel resumed from a stale manager forgets exactly the blocked monitor updates the monitor already contains (id <= the monitor\'s latest id); the ones it does not contain stay blocked, in order - none is dropped unapplied and none is applied twice',
              bounds='%d blocked updates with arbitrary ids, arbitrary monitor id' % N)
        S.no_panic(ids[1], E, [], 'total')
        S.witness(ids[2], E, [uid[0].t > loaded.t] if N else [], z3.BoolVal(True))


def _closures(S, rx_param, must_call):
    ix = S.mir()
    out = []
    for i in range(len(ix.offsets)):
        h = ix.offsets[i][0]
        if re.search(r'::from_channel_manager_data::\{closure#\d+\}\(', h) and re.search(rx_param, h):
            f = ix.get(i)
            if any(t[0] == 'call' and re.search(must_call, t[2]) for b, (bd, t) in f.blocks.items()):
                out.append(f)
    return out


def in_flight_closures(S, D):
    """C10.c"""
    CU = D.struct_fields('ChannelMonitorUpdate')
    filt = _closures(S, r'_2: &&ChannelMonitorUpdate\) -> bool', r'ChannelMonitor::<.*>::get_latest_update_id$')
    keep = _closures(S, r'_2: &ChannelMonitorUpdate\) -> bool', r'Vec::<BackgroundEvent>::push$')
    if len(filt) < 2 or len(keep) < 2:
        raise X.Unsupported('handle_in_flight_updates!: %d completed-filters, %d retain closures (expected 2 + 2 or more)' % (len(filt), len(keep)))
    for k, f in enumerate(filt):
        tag = 'C10.c.completed%d' % k
        ids = [tag + '.iff_monitor_has_it', tag + '.witness']
        if all(S._skip(o) for o in ids):
            continue
        E = S.engine(unwind=1)
        mem = {}
        uid, latest, max0 = E.sym('update.update_id', 'u64'), E.sym('monitor.latest_update_id', 'u64'), E.sym('max_so_far', 'u64')
        E.models.insert(0, (re.compile(r'ChannelMonitor::<.*>::get_latest_update_id$'), lambda *a: latest))
        max_c, mon_c, upd_c, ref_c, env_c = [E.new_cell() for _ in range(5)]
        mem[max_c] = max0
        mem[mon_c] = X.Opaque('monitor')
        mem[upd_c] = X.Adt('ChannelMonitorUpdate', {CU.index('update_id'): uid}, base='update')
        mem[ref_c] = X.Ref(upd_c)
        names = [n for n, _ in f.debug_all] if hasattr(f, 'debug_all') else []
        # captured variables in declaration order: max_in_flight_update_id (by &mut), monitor (by &)
        mem[env_c] = X.Clo(re.search(r'\{closure@[^{}]*\}', f.params[0][1]).group(0), [X.Ref(max_c), X.Ref(mon_c)])
        rv = S.call(E, f, [X.Ref(env_c), X.Ref(ref_c)], mem)
        new_max = mem[max_c]
        prove(S, ids[0], E, [], z3.And(X.zbool(rv.t) == (uid.t <= latest.t), X.zint(new_max.t) == z3.If(max0.t >= uid.t, max0.t, uid.t)),
              'on start-up an in-flight monitor update counts as completed exactly when the monitor that was loaded already contains it (its id is at most the monitor\'s latest id), and the highest in-flight id seen is tracked as the running maximum',
              bounds='closure `%s`, arbitrary ids' % f.name[-40:])
        S.witness(ids[1], E, [], X.zbool(rv.t))
    BE = lambda n: D.variant_index('BackgroundEvent', n)
    for k, f in enumerate(keep):
        tag = 'C10.c.replay%d' % k
        ids = [tag + '.iff_monitor_lacks_it', tag + '.witness']
        if all(S._skip(o) for o in ids):
            continue
        E = S.engine(unwind=1)
        mem = {}
        uid, latest = E.sym('update.update_id', 'u64'), E.sym('monitor.latest_update_id', 'u64')
        pushed = []
        upd_c, env_c, mon_c, vec_c = [E.new_cell() for _ in range(4)]
        mem[upd_c] = X.Adt('ChannelMonitorUpdate', {CU.index('update_id'): uid}, base='update')
        mem[mon_c] = X.Opaque('monitor')
        mem[vec_c] = X.Opaque('events')

        def h_push(E_, m, func, argv, guard, mem_, dty, caller, pushed=pushed):
            pushed.append((X.zbool(guard), argv[1]))
            return X.UNIT
        for rx, h in LOG_STUBS + [
            (r'ChannelMonitor::<.*>::get_latest_update_id$', lambda *a: latest),
            (r'ChannelMonitor::<.*>::channel_id$', lambda *a: X.Opaque('channel id')),
            (r'ChannelMonitorUpdate as Clone>::clone$', lambda E_, m, func, argv, guard, mem_, dty, caller: _deref_all(E_, argv[0], mem_)),
            (r'Vec::<BackgroundEvent>::push$', h_push),
        ]:
            E.models.insert(0, (re.compile(rx), h))
        # captured: monitor, logger, pending_background_events, counterparty id, funding_txo (declaration order read off the debug info)
        caps = _captures(f)
        env = []
        for nm in caps:
            if nm == 'monitor':
                env.append(X.Ref(mon_c))
            elif nm == 'pending_background_events':
                env.append(X.Ref(vec_c))
            else:
                c = E.new_cell()
                mem[c] = X.Opaque(nm)
                env.append(X.Ref(c))
        mem[env_c] = X.Clo(re.search(r'\{closure@[^{}]*\}', f.params[0][1]).group(0), env)
        rv = S.call(E, f, [X.Ref(env_c), X.Ref(upd_c)], mem)
        replay = uid.t > latest.t
        n_push = z3.Sum([z3.If(g, 1, 0) for g, v in pushed]) if pushed else z3.IntVal(0)
        ev_ok = []
        for g, v in pushed:
            u2 = E.read_path(v, (('v', 'MonitorUpdateRegeneratedOnStartup'), ('f', 3, 'ChannelMonitorUpdate'), ('f', CU.index('update_id'), 'u64')), mem, True, 'spec')
            ev_ok.append(z3.Implies(g, z3.And(X.zint(v.d) == BE('MonitorUpdateRegeneratedOnStartup'), u2.t == uid.t)))
        prove(S, ids[0], E, [], z3.And(X.zbool(rv.t) == replay, n_push == z3.If(replay, 1, 0), *ev_ok),
              'an in-flight monitor update the loaded monitor does not contain (id above the monitor\'s latest id) is kept in flight and replayed - exactly once, as itself - through MonitorUpdateRegeneratedOnStartup; one the monitor already contains is neither replayed nor kept',
              bounds='closure `%s`, arbitrary ids' % f.name[-40:])
        S.witness(ids[1], E, [], X.zbool(rv.t))


def _captures(f):
    """names of the captured variables of a closure, in field order (debug info `debug x => (*((*_1).K: ..))`)"""
    out = {}
    for nm, place in f.debug_all:
        m = re.search(r'\(\*_1\)\.(\d+):', str(place))
        if m:
            out[int(m.group(1))] = nm
    if sorted(out) != list(range(len(out))):
        raise X.Unsupported('closure captures: %r' % (out,))
    return [out[i] for i in range(len(out))]


def _payload(E, D, v, variant, path, mem):
    """field of a variant's payload, None when the value cannot be that variant"""
    if not isinstance(v, X.En) or D.variant_index(v.name, variant) not in v.vs:
        return None
    return E.read_path(v, (('v', variant),) + tuple(path), mem, True, 'spec')


def _deref_all(E, v, mem_):
    while isinstance(v, X.Ref):
        v = E.read_path(mem_[v.cell], v.path, mem_, True, 'clone')
    return v


CMP = ('Gt', 'Ge', 'Lt', 'Le', 'Eq', 'Ne')


def stale_monitor(S, D):
    """C10.d"""
    ids = ['C10.d.dangerous_iff_monitor_behind', 'C10.d.witness.dangerous', 'C10.d.witness.ok']
    if all(S._skip(o) for o in ids):
        return
    f = _fcmd(S)
    E = S.engine(unwind=1)
    mem = {}
    danger = [b for b, (bd, t) in f.blocks.items() if any('DecodeError::DangerousValue' in str(st) for st in bd)]
    starts = []
    for b in _calls(f, r'FundedChannel::<.*>::get_latest_unblocked_monitor_update_id$'):
        nxt = f.blocks[_ret_target(f.blocks[b][1])]
        if nxt[1][0] == 'switch' and any(st[0] == 'assign' and st[2][0] == 'binop' and st[2][1] in CMP for st in nxt[0] if len(st) > 2 and isinstance(st[2], tuple)):
            starts.append(b)
    if len(danger) != 1 or len(starts) != 1:
        raise X.Unsupported('from_channel_manager_data: %d DangerousValue returns, %d stale-monitor tests' % (len(danger), len(starts)))
    start = starts[0]
    nb, nt = f.blocks[_ret_target(f.blocks[start][1])]
    gt = [st for st in nb if st[0] == 'assign' and st[2][0] == 'binop' and st[2][1] in CMP][0]
    # the right operand of the comparison is a copy of max_in_flight_update_id made in the same block
    rhs = gt[2][3]
    src = None
    for st in nb:
        if st[0] == 'assign' and st[1] == rhs[1] and st[2][0] == 'use':
            src = st[2][1][1]
    if src is None or src[0] != 'local':
        raise X.Unsupported('stale-monitor test: right operand %r' % (rhs,))
    unblocked = E.sym('channel.latest_unblocked_monitor_update_id', 'u64')
    maxv = E.sym('max(monitor.latest_update_id, highest in-flight id)', 'u64')
    for rx, h in LOG_STUBS + [(r'FundedChannel::<.*>::get_latest_unblocked_monitor_update_id$', lambda *a: unblocked),
                              (r'ChannelMonitor::<.*>::get_latest_update_id$', lambda *a: E.sym('monitor.latest!%d' % next(E.nfresh), 'u64'))]:
        E.models.insert(0, (re.compile(rx), h))
    ok_stop = _calls(f, r'FundedChannel::<.*>::blocked_monitor_updates_pending$')
    runr = X.FnRun(E, f, [X.Opaque('data'), X.Opaque('args')], True, mem)
    E.depth += 1
    runr.run(start_bb=start, init={src[1]: maxv}, stop_bbs=tuple(set(danger) | set(ok_stop)))
    E.depth -= 1
    reach = lambda bs: z3.Or(*[X.zbool(g) for b in bs for (g, m_) in runr.stop_states.get(b, [])]) if any(runr.stop_states.get(b) for b in bs) else z3.BoolVal(False)
    is_danger, is_ok_ = reach(danger), reach(ok_stop)
    prove(S, ids[0], E, [], z3.And(is_danger == (unblocked.t > maxv.t), is_ok_ == z3.Not(unblocked.t > maxv.t)),
          'reading fails with DangerousValue exactly when the manager\'s channel is ahead of everything its monitor can be brought to (latest unblocked update id above both the monitor\'s latest id and the highest in-flight update id): a monitor older than the manager is never silently accepted, and a monitor that is merely ahead never refuses to load',
          bounds='region of from_channel_manager_data from the stale-monitor test to the DangerousValue return / the next step; both ids free u64')
    S.witness(ids[1], E, [], is_danger)
    S.witness(ids[2], E, [], is_ok_)
    S.validate('C10.validate', E, battery_binding(z3.BoolVal(True)), n=1, extra_vectors=[(1,)])


def in_flight_region(S, D):
    """C10.e"""
    CU = D.struct_fields('ChannelMonitorUpdate')
    for N in ((0, 1, 2) if S.tier == 'quick' else (0, 1, 2, 3)):
        tag = 'C10.e.n%d' % N
        ids = [tag + '.queued_and_kept', tag + '.dangerous_iff_behind', tag + '.witness']
        if all(S._skip(o) for o in ids):
            continue
        f = _fcmd(S)
        E = S.engine(unwind=N + 2)
        mem = {}
        danger = [b for b, (bd, t) in f.blocks.items() if any('DecodeError::DangerousValue' in str(st) for st in bd)]
        invalid = [b for b, (bd, t) in f.blocks.items() if any('DecodeError::InvalidValue' in str(st) for st in bd)]
        ok_stop = _calls(f, r'FundedChannel::<.*>::blocked_monitor_updates_pending$')
        # start: the block that reads the monitor's latest update id right after the monitor was looked up (`expect`)
        exp = [b for b in _calls(f, r'Option::<&&.*ChannelMonitor<.*>>::expect$')]
        starts = [_ret_target(f.blocks[b][1]) for b in exp if f.blocks[_ret_target(f.blocks[b][1])][1][0] == 'call' and f.blocks[_ret_target(f.blocks[b][1])][1][2].endswith('::get_latest_update_id')]
        if len(starts) != 1:
            raise X.Unsupported('from_channel_manager_data: %d monitor look-ups of funded channels' % len(starts))
        start = starts[0]
        mon_local = f.blocks[exp[[ _ret_target(f.blocks[b][1]) for b in exp].index(start)]][1][1][1]
        latest, unblocked = E.sym('monitor.latest_update_id', 'u64'), E.sym('channel.latest_unblocked_monitor_update_id', 'u64')
        has = z3.Bool('in_flight.entry_present')
        uid = [E.sym('in_flight%d.update_id' % i, 'u64') for i in range(N)]
        ups = X.Seq([X.Adt('ChannelMonitorUpdate', {CU.index('update_id'): uid[i]}, base='upd%d' % i) for i in range(N)], N, 'ChannelMonitorUpdate')
        dup_entry = z3.Bool('in_flight.duplicate_entry')
        pushed, inserted, recorded = [], [], []

        def h_push(E_, m, func, argv, guard, mem_, dty, caller):
            pushed.append((X.zbool(guard), argv[1]))
            return X.UNIT

        def h_insert(E_, m, func, argv, guard, mem_, dty, caller):
            inserted.append((X.zbool(guard), argv[2], dict(mem_)))
            return X.En('Option', z3.If(dup_entry, 1, 0), {1: [X.Opaque('previous entry')]})

        def h_or_insert(E_, m, func, argv, guard, mem_, dty, caller):
            recorded.append((X.zbool(guard), argv[1]))
            return X.Opaque('&mut u64')
        mon_c, mref_c = E.new_cell(), E.new_cell()
        mem[mon_c] = X.Opaque('monitor')
        mem[mref_c] = X.Ref(mon_c)
        for rx, h in LOG_STUBS + [
            (r'ChannelMonitor::<.*>::get_latest_update_id$', lambda *a: latest),
            (r'ChannelMonitor::<.*>::(?:get_funding_txo|channel_id)$', lambda *a: X.Opaque('monitor data')),
            (r'FundedChannel::<.*>::get_latest_unblocked_monitor_update_id$', lambda *a: unblocked),
            (r'HashMap::<\(.*PublicKey, .*ChannelId\), .*Vec<ChannelMonitorUpdate>.*>::remove::<', lambda *a: X.En('Option', z3.If(has, 1, 0), {1: [ups]})),
            (r'ChannelMonitorUpdate as Clone>::clone$', lambda E_, m, func, argv, guard, mem_, dty, caller: _deref_all(E_, argv[0], mem_)),
            (r'Vec::<BackgroundEvent>::push$', h_push),
            (r'BTreeMap::<.*ChannelId, u64>::entry$', lambda *a: X.Opaque('closed-ids entry')),
            (r'btree_map::Entry::<.*ChannelId, u64>::and_modify::<', lambda *a: X.Opaque('closed-ids entry')),
            (r'btree_map::Entry::<.*ChannelId, u64>::or_insert$', h_or_insert),
            (r'BTreeMap::<.*ChannelId, \(.*OutPoint, .*Vec<ChannelMonitorUpdate>\)>::insert$', h_insert),
        ]:
            E.models.insert(0, (re.compile(rx), h))
        runr = X.FnRun(E, f, [X.Opaque('data'), X.Opaque('args')], True, mem)
        E.depth += 1
        runr.run(start_bb=start, init={mon_local: X.Ref(mref_c)}, stop_bbs=tuple(set(danger) | set(ok_stop) | set(invalid)))
        E.depth -= 1
        reach = lambda bs: z3.Or(*[X.zbool(g) for b in bs for (g, m_) in runr.stop_states.get(b, [])]) if any(runr.stop_states.get(b) for b in bs) else z3.BoolVal(False)
        is_danger, is_ok_, is_invalid = reach(danger), reach(ok_stop), reach(invalid)
        done = [uid[i].t <= latest.t for i in range(N)]
        all_done = z3.And(*done) if N else z3.BoolVal(True)
        hi = z3.IntVal(0)
        for i in range(N):
            hi = z3.If(uid[i].t > hi, uid[i].t, hi)
        BE = lambda n: D.variant_index('BackgroundEvent', n)
        n_push = z3.Sum([z3.If(g, 1, 0) for g, v in pushed]) if pushed else z3.IntVal(0)
        want_push = z3.If(z3.Not(has), 0, z3.If(all_done, 1, z3.Sum([z3.If(d, 0, 1) for d in done]) if N else 0))
        shape = []
        for g, v in pushed:
            d = X.zint(v.d)
            hv = _payload(E, D, v, 'MonitorUpdatesComplete', (('f', 2, 'u64'),), mem)
            uv = _payload(E, D, v, 'MonitorUpdateRegeneratedOnStartup', (('f', 3, 'ChannelMonitorUpdate'), ('f', CU.index('update_id'), 'u64')), mem)
            shape.append(z3.Implies(g, z3.If(all_done, z3.And(d == BE('MonitorUpdatesComplete'), hv.t >= hi) if hv is not None else False,
                                             z3.And(d == BE('MonitorUpdateRegeneratedOnStartup'), uv.t > latest.t, z3.Or(*[uv.t == uid[i].t for i in range(N)]) if N else False) if uv is not None else False)))
        # replays are queued in the order of the in-flight list: for two replayed updates i < j the push for i comes first
        order = []
        regen = [(g, _payload(E, D, v, 'MonitorUpdateRegeneratedOnStartup', (('f', 3, 'ChannelMonitorUpdate'), ('f', CU.index('update_id'), 'u64')), mem)) for g, v in pushed]
        regen = [(z3.And(g, X.zint(v.d) == BE('MonitorUpdateRegeneratedOnStartup')), u.t) for (g, u), (g_, v) in zip(regen, pushed) if u is not None]
        for a_ in range(len(regen)):
            for b_ in range(a_ + 1, len(regen)):
                for i in range(N):
                    for j in range(N):
                        if i > j:
                            order.append(z3.Not(z3.And(z3.Not(all_done), regen[a_][0], regen[b_][0], regen[a_][1] == uid[i].t, regen[b_][1] == uid[j].t, uid[i].t != uid[j].t)))
        kept = []
        n_ins = z3.Sum([z3.If(g, 1, 0) for g, v, m_ in inserted]) if inserted else z3.IntVal(0)
        for g, v, m_ in inserted:
            lst = E.read_path(v, (('f', 1, 'Vec'),), m_, True, 'spec') if isinstance(v, X.Tup) else None
            if not isinstance(lst, X.Seq):
                raise X.Unsupported('in-flight list handed to insert: %r' % (v,))
            els = list(zip(lst.elems, lst.pres if not lst.prefix else [X.simp(X.zint(lst.n) > i) for i in range(len(lst.elems))]))
            for i in range(N):
                present = X.zbool(els[i][1]) if i < len(els) else z3.BoolVal(False)
                kept.append(z3.Implies(g, present == z3.Or(all_done, z3.Not(done[i]))))
        n_rec = z3.Sum([z3.If(g, 1, 0) for g, v in recorded]) if recorded else z3.IntVal(0)
        incr = [uid[i].t < uid[i + 1].t for i in range(N - 1)]          # in-flight updates are listed in the order their ids were handed out
        prove(S, ids[0], E, incr, z3.And(n_push == want_push, *shape, *order, n_ins == z3.If(has, 1, 0), *kept,
                                       n_rec == z3.If(z3.And(has, z3.Not(all_done)), 1, 0), *[z3.Implies(g, X.zint(v.t) == hi) for g, v in recorded],
                                       is_invalid == z3.And(has, dup_entry)),
              'for a funded channel read back with N in-flight monitor updates: if the loaded monitor contains them all, one MonitorUpdatesComplete covering the highest in-flight id is queued and the list is kept until that event is processed; otherwise exactly the updates the monitor lacks are replayed (MonitorUpdateRegeneratedOnStartup, once each, in list order) and stay in flight while the others are dropped, and the highest id is recorded',
              bounds='region of from_channel_manager_data through one expansion of handle_in_flight_updates!, %d in-flight updates with arbitrary increasing ids, real closures; maps / logging stubbed' % N)
        top = z3.If(has, z3.If(hi > latest.t, hi, latest.t), latest.t)
        prove(S, ids[1], E, [z3.Not(z3.And(has, dup_entry))], z3.And(is_danger == (unblocked.t > top), is_ok_ == z3.Not(unblocked.t > top)),
              'the manager refuses to load (DangerousValue) exactly when its channel is ahead of everything its monitor can be brought to - the monitor\'s latest id and the highest in-flight update - and loads otherwise')
        S.witness(ids[2], E, incr + [has] + ([z3.Not(all_done)] if N else []), is_ok_)


def _ident(v):
    if getattr(v, 'alt', None) is not None:
        c_, a, b = v.alt
        return z3.If(X.zbool(c_), _ident(a), _ident(b))
    if getattr(v, 'base', None) is None:
        raise X.Unsupported('identity of %r' % (v,))
    return z3.Int('ident.' + v.base)


def _ident_eq_stubs(E):
    def h_eq(E_, m, func, argv, guard, mem_, dty, caller):
        a, b = _deref_all(E_, argv[0], mem_), _deref_all(E_, argv[1], mem_)
        if isinstance(a, X.En) and a.name == 'Option':
            pa = a.vs[1][0] if 1 in a.vs else None
            pb = b.vs[1][0] if 1 in b.vs else None
            same = _ident(_deref_all(E_, pa, mem_)) == _ident(_deref_all(E_, pb, mem_)) if pa is not None and pb is not None else z3.BoolVal(True)
            return X.B(z3.And(X.zint(a.d) == X.zint(b.d), z3.Implies(X.zint(a.d) == 1, same)))
        return X.B(_ident(a) == _ident(b))
    E.models.insert(0, (re.compile(r'^<&*(?:Option<)?(?:\w+::)*(?:InterceptId|OutPoint|PublicKey|ChannelId)>? as PartialEq>::eq$'), h_eq))


def _closure_env(E, f, mem, given):
    """environment of a closure: one value per captured variable, `given[name]` where supplied, otherwise a fresh symbolic
    value of the captured type (read off the debug info)"""
    caps = {}
    for nm, place in f.debug_all:
        m = re.search(r'\(\*_1\)\.(\d+): (.*?)\)\)*$', str(place))
        if m:
            caps[int(m.group(1))] = (nm, m.group(2))
    env = []
    for i in range(len(caps)):
        if i not in caps:
            raise X.Unsupported('closure captures: %r' % (caps,))
        nm, ty = caps[i]
        env.append(given[nm] if nm in given else E.sym('captured.' + nm, ty, mem))
    c = E.new_cell()
    mem[c] = X.Clo(re.search(r'\{closure@[^{}]*\}', f.params[0][1]).group(0), env)
    return X.Ref(c)


def forward_match(S, D):
    """C10.f"""
    ids = ['C10.f.same_channel_and_htlc_id', 'C10.f.witness']
    if all(S._skip(o) for o in ids):
        return
    ix = S.mir()
    c = [i for i in range(len(ix.offsets)) if re.search(r'reconcile_pending_htlcs_with_monitor::\{closure#\d+\}\(_1: &\{closure@[^{}]*\}, _2: &(?:\w+::)*PendingAddHTLCInfo\) -> bool', ix.offsets[i][0])]
    if len(c) != 1:
        raise X.Unsupported('reconcile_pending_htlcs_with_monitor: %d closures matching a queued forward' % len(c))
    f = ix.get(c[0])
    E = S.engine(unwind=1)
    mem = {}
    _ident_eq_stubs(E)
    PI = D.struct_fields('PendingAddHTLCInfo')
    info_c, hid_c, op_c, node_c = [E.new_cell() for _ in range(4)]
    f_id, m_id = E.sym('forward.prev_htlc_id', 'u64'), E.sym('monitor_htlc.htlc_id', 'u64')
    mem[info_c] = X.Adt('PendingAddHTLCInfo', {PI.index('prev_htlc_id'): f_id, PI.index('prev_funding_outpoint'): X.Opaque('outpoint', base='forward.prev_funding_outpoint') if False else X.Adt('OutPoint', {}, base='forward.prev_funding_outpoint'),
                                               PI.index('prev_counterparty_node_id'): X.Adt('PublicKey', {}, base='forward.prev_counterparty_node_id')}, base='forward')
    mem[hid_c] = m_id
    mem[op_c] = X.Adt('OutPoint', {}, base='monitor_htlc.outpoint')
    peer_known = z3.Bool('monitor_htlc.counterparty_known')
    mem[node_c] = X.En('Option', z3.If(peer_known, 1, 0), {1: [X.Adt('PublicKey', {}, base='monitor_htlc.counterparty_node_id')]})
    env = _closure_env(E, f, mem, {'prev_hop_data__htlc_id': X.Ref(hid_c), 'prev_hop_data__outpoint': X.Ref(op_c), 'prev_hop_data__counterparty_node_id': X.Ref(node_c)})
    rv = S.call(E, f, [env, X.Ref(info_c)], mem)
    same_chan = z3.Int('ident.forward.prev_funding_outpoint') == z3.Int('ident.monitor_htlc.outpoint')
    prove(S, ids[0], E, [], X.zbool(rv.t) == z3.And(same_chan, f_id.t == m_id.t),
          'at start-up a queued forward is taken to be the HTLC a (closed channel\'s) monitor still shows - and is then dropped from the queue, the monitor resolving it - exactly when it came in over the same previous channel with the same HTLC id; HTLC ids are unique per channel only, so an HTLC of another channel of the same peer with the same id must stay queued',
          bounds='the matching closure of reconcile_pending_htlcs_with_monitor; outpoints / node ids as abstract identities')
    S.witness(ids[1], E, [], X.zbool(rv.t))


def intercept_regeneration(S, D):
    """C10.g"""
    ids = ['C10.g.only_the_same_intercept_id', 'C10.g.witness']
    if all(S._skip(o) for o in ids):
        return
    ix = S.mir()
    EV = D.variant_index('Event', 'HTLCIntercepted')
    c = []
    for i in range(len(ix.offsets)):
        h = ix.offsets[i][0]
        if re.search(r'::from_channel_manager_data::\{closure#\d+\}\(', h) and re.search(r'_2: &\((?:\w+::)*Event, Option<(?:\w+::)*EventCompletionAction>\)\) -> bool', h):
            f_ = ix.get(i)
            # the closure that looks at the KIND of the queued event (the other one with this signature compares completion actions)
            if any(st[0] == 'assign' and st[2][0] == 'discr' and re.search(r"\('field', \('deref', \('local', 2\)\), 0,", str(st[2][1])) for b, (bd, t) in f_.blocks.items() for st in bd):
                c.append(f_)
    if len(c) != 1:
        raise X.Unsupported('from_channel_manager_data: %d closures looking for a queued HTLCIntercepted event' % len(c))
    f = c[0]
    E = S.engine(unwind=1)
    mem = {}
    _ident_eq_stubs(E)
    kind = E.sym('queued_event.kind', 'u8')
    nvar = len(D.enum_variants('Event'))
    E.assume(z3.And(kind.t >= 0, kind.t < nvar))
    ev_c, id_c, idref_c = [E.new_cell() for _ in range(3)]
    payload = {EV: [X.Adt('InterceptId', {}, base='queued_event.intercept_id')] + [X.Opaque('event field %d' % k) for k in range(8)]}
    mem[ev_c] = X.Tup([X.En('Event', kind.t, payload, base='queued_event'), X.Opaque('completion action')])
    mem[id_c] = X.Adt('InterceptId', {}, base='held_htlc.intercept_id')
    mem[idref_c] = X.Ref(id_c)
    env = _closure_env(E, f, mem, {'id': X.Ref(idref_c)})
    rv = S.call(E, f, [env, X.Ref(ev_c)], mem)
    same = z3.Int('ident.queued_event.intercept_id') == z3.Int('ident.held_htlc.intercept_id')
    prove(S, ids[0], E, [], X.zbool(rv.t) == z3.And(kind.t == EV, same),
          'at start-up the HTLCIntercepted event of a held HTLC counts as still queued - and is therefore not generated again - only if an event for that very intercept id is in the persisted queue; an event for another held HTLC does not stand in for it (HTLCIntercepted is persisted until handled: every HTLC still held is announced again)',
          bounds='the closure scanning the persisted events for a held HTLC; intercept ids as abstract identities, the queued event of any kind')
    S.witness(ids[1], E, [], X.zbool(rv.t))
