"""C20 — the chain-sync client (lightning-block-sync): the header checks and the notification logic, from the MIR of
the crate.  Most of the client is `async`; an async fn / block is executed through its state-machine ("poll") function
with a coroutine state value (engine_m.exec.Cor) whose awaited sub-futures are stubs that are always ready, so one poll
runs the body from its entry to its end.  Block hashes are abstract identities, chain work is a mathematical integer,
proof of work and header hashing are outside (bitcoin crate)."""
import re
import z3
from engine_m import exec as X
from engine_m.session import Binding
from .common import *

CR = 'lightning-block-sync'
# bitcoin::block::Header { version, prev_blockhash, merkle_root, time, bits, nonce }: the field indices its MIR uses
H_PREV, H_BITS = 1, 4

EVIDENCE = dict(assumptions=[
    'block hashes, targets and compact targets are abstract identities (equality only), chain work is a mathematical integer (Work + Work = integer addition, comparison = integer comparison); Header::work / Header::target are uninterpreted functions of the header\'s bits',
    'header hashing, proof-of-work validation, merkle / witness-commitment checks (bitcoin crate) and the HTTP / RPC block sources are outside the claim',
    'async bodies are run through their poll function with every awaited future immediately ready (a block source / poller answer is an arbitrary value of its type, or an error); suspension and wake-ups are not modelled',
    'the header cache is a stub: look-ups are free (hit with an arbitrary header that really is the requested one, or miss)'])


def hv(E, name):
    return X.I(z3.Int(name), 'u64')


def mk_header(E, D, tag, block_hash=None, prev=None, height=None, work=None, bits=None):
    VH, BD = D.struct_fields('ValidatedBlockHeader'), D.struct_fields('BlockHeaderData')
    block_hash = block_hash if block_hash is not None else hv(E, tag + '.hash')
    prev = prev if prev is not None else hv(E, tag + '.prev_hash')
    height = height if height is not None else E.sym(tag + '.height', 'u32')
    work = work if work is not None else hv(E, tag + '.chainwork')
    bits = bits if bits is not None else hv(E, tag + '.bits')
    hdr = X.Adt('Header', {H_PREV: prev, H_BITS: bits}, base=tag + '.header')
    inner = X.Adt('BlockHeaderData', {BD.index('header'): hdr, BD.index('height'): height, BD.index('chainwork'): work})
    return X.Adt('ValidatedBlockHeader', {VH.index('block_hash'): block_hash, VH.index('inner'): inner}), dict(hash=block_hash.t, prev=prev.t, height=height.t, work=work.t, bits=bits.t)


def ident(E, v, mem):
    while isinstance(v, X.Ref):
        v = E.read_path(mem[v.cell], v.path, mem, True, 'ident')
    if isinstance(v, X.I):
        return v.t
    if isinstance(v, X.Adt) and v.alt is not None:
        c_, x, y = v.alt
        return z3.If(X.zbool(c_), ident(E, x, mem), ident(E, y, mem))
    if isinstance(v, X.Adt) and v.base is not None and not v.fs:
        return z3.Int('ident.' + v.base)          # a lazily symbolic value nobody looked into: its name is its identity
    raise X.Unsupported('identity of %r' % (v,))


WORK_OF = z3.Function('header_work', z3.IntSort(), z3.IntSort())
TARGET_OF = z3.Function('header_target', z3.IntSort(), z3.IntSort())


BATTERY = '3 4'


def battery_binding(claim):
    """replay binding shared by all C20 obligations: the native battery runs the real SpvClient over 2000 fork shapes x
    source behaviours x tip changes and validates every notification sequence the way the property states it; the encoding predicts
    `no bad scenario` exactly when the claim holds"""
    c = claim if z3.is_expr(claim) else X.zbool(claim)
    return Binding('spv_battery', [z3.IntVal(1)], [z3.If(c, 0, 1)], parse=lambda t: [0 if t[0] == '0' else 1], line_fn=lambda v: BATTERY,
                   via_solver=True, domain=[(1, 1)], panic=False)


def prove(S, oid, E, pre, claim, desc, **kw):
    return S.prove(oid, E, pre, claim, desc, [battery_binding(claim)], **kw)


def base_stubs(E):
    def cmp(op):
        def h(E_, m, func, argv, guard, mem_, dty, caller):
            a, b = ident(E, argv[0], mem_), ident(E, argv[1], mem_)
            return X.B({'eq': a == b, 'ne': a != b, 'gt': a > b, 'lt': a < b, 'ge': a >= b, 'le': a <= b}[op])
        return h

    def h_work(E_, m, func, argv, guard, mem_, dty, caller):
        hd = argv[0]
        while isinstance(hd, X.Ref):
            hd = E.read_path(mem_[hd.cell], hd.path, mem_, guard, 'work')
        bits = E.read_path(hd, (('f', H_BITS, 'CompactTarget'),), mem_, guard, 'work')
        fn_ = WORK_OF if m.group(1) == 'work' else TARGET_OF
        return X.I(fn_(ident(E, bits, mem_)), 'u64')
    out = []
    for ty in ('BlockHash', 'Work', 'Target', 'CompactTarget'):
        for op in ('eq', 'ne', 'gt', 'lt', 'ge', 'le'):
            out.append((r'<(?:bitcoin::)?(?:\w+::)*%s as Partial(?:Eq|Ord)>::%s$' % (ty, op), cmp(op)))
    out += [
        (r'Header::(work|target)$', h_work),
        (r'<(?:bitcoin::)?(?:\w+::)*Work as (?:std::ops::)?Add>::add$', lambda E_, m, func, argv, guard, mem_, dty, caller: X.I(ident(E, argv[0], mem_) + ident(E, argv[1], mem_), 'u64')),
        (r'Target::min_transition_threshold$', lambda E_, m, func, argv, guard, mem_, dty, caller: X.I(z3.Function('min_transition', z3.IntSort(), z3.IntSort())(ident(E, argv[0], mem_)), 'u64')),
        (r'Target::max_transition_threshold_unchecked$', lambda E_, m, func, argv, guard, mem_, dty, caller: X.I(z3.Function('max_transition', z3.IntSort(), z3.IntSort())(ident(E, argv[0], mem_)), 'u64')),
        (r'BlockSourceError::persistent::<|BlockSourceError::transient::<', lambda *a: X.Opaque('block source error')),
        # map_err with a function item (BlockSourceError::persistent) as the mapper: same outcome, error repackaged
        (r'^Result::<.*ValidationError>::map_err::<BlockSourceError, fn\(', lambda E_, m, func, argv, guard, mem_, dty, caller: X.En('Result', argv[0].d, {0: argv[0].vs.get(0, [None]), 1: [X.Opaque('block source error')]})),
    ]
    return [(re.compile(rx), h) for rx, h in out]


def run(S):
    D = S.decls()
    builds_on(S, D)
    find_difference(S, D)
    connect_blocks(S, D)
    synchronize_listener(S, D)
    tip_updates(S, D)
    chain_poller(S, D)


def builds_on(S, D):
    """C20.a: ValidatedBlockHeader::check_builds_on - what ChainPoller demands of every parent header a source serves."""
    ids = ['C20.a.connects', 'C20.a.accepts_valid', 'C20.a.mainnet_difficulty', 'C20.a.nopanic', 'C20.a.witness']
    if all(S._skip(o) for o in ids):
        return
    f = S.fn('check_builds_on', crate=CR)
    E = S.engine(crate=CR)
    mem = {}
    child, c = mk_header(E, D, 'child')
    parent, p = mk_header(E, D, 'parent')
    cc, pc = E.new_cell(), E.new_cell()
    mem[cc], mem[pc] = child, parent
    net = X.En('Network', E.sym('network', 'u8').t, {})      # a field-less enum of the bitcoin crate: only its discriminant matters
    for rx, h in base_stubs(E):
        E.models.insert(0, (rx, h))
    rv = S.call(E, f, [X.Ref(cc), X.Ref(pc), net], mem)
    ok = X.zint(rv.d) == 0
    mainnet = X.zint(net.d) == 0            # bitcoin::Network::Bitcoin is the first variant
    connects = z3.And(c['prev'] == p['hash'], c['height'] == p['height'] + 1, c['work'] == p['work'] + WORK_OF(c['bits']))
    pre = [p['height'] < (1 << 32) - 1, c['work'] >= 0, p['work'] >= 0]
    prove(S, ids[0], E, pre, z3.Implies(ok, connects),
            'a header is accepted as building on another only if it names that header\'s hash as its parent, is exactly one higher, and claims exactly the parent\'s chain work plus its own work', bounds='all headers (hashes / targets as identities, work as integers), all networks')
    prove(S, ids[1], E, pre + [z3.Not(mainnet)], z3.Implies(connects, ok), 'off mainnet nothing else is demanded: a header that connects is accepted')
    mn = z3.Function('min_transition', z3.IntSort(), z3.IntSort())
    mx = z3.Function('max_transition', z3.IntSort(), z3.IntSort())
    tc, tp = TARGET_OF(c['bits']), TARGET_OF(p['bits'])
    prove(S, ids[2], E, pre + [mainnet], ok == z3.And(connects, z3.If(c['height'] % 2016 == 0, z3.And(tc <= mx(tp), tc >= mn(tp)), c['bits'] == p['bits'])),
            'on mainnet the difficulty may change only at a retarget height and only within the transition thresholds of the parent\'s target')
    S.no_panic(ids[3], E, pre, 'no overflow for parents below the maximum height')
    S.witness(ids[4], E, pre + [mainnet, c['height'] % 2016 == 0], ok)


# ---------------------------------------------------------------------------------------------------------------
# async bodies
def closure_fn(S, name, k=0):
    """the poll function of the async body of `name` (`name::{closure#k}`)"""
    ix = S.mir(CR)
    c = [i for i in range(len(ix.offsets)) if re.search(r'::%s::\{closure#%d\}\(' % (re.escape(name), k), ix.offsets[i][0])]
    if len(c) != 1:
        raise X.Unsupported('async body of %s: %d candidates' % (name, len(c)))
    return ix.get(c[0])


def poll_once(S, E, f, ups, mem):
    """run the async body from its start; every awaited future is a stub that is ready at once, so the body runs to its
    end (or to a `return`) within this one poll.  Returns the body's output value and the coroutine state cell."""
    st = E.new_cell()
    mem[st] = X.Cor(0, ups)
    rv = S.call(E, f, [X.Adt('Pin', {0: X.Ref(st)}), X.Opaque('task context')], mem)
    if isinstance(rv, X.En):
        return E.en_payload(rv, 'Ready', 0, 0, None, mem, 'poll'), st
    if isinstance(rv, X.Adt):
        return E.read_path(rv, (('f', 0, '?'),), mem, True, 'poll'), st
    raise X.Unsupported('poll result %r' % (rv,))


def ready(v):
    return X.En('Poll', 0, {0: [v]})


def future_stubs(E, futures):
    """`futures`: list of (regex of the call that creates the future, handler(argv, guard, mem) -> output value).  The
    created future is a marker remembering its output; IntoFuture / Pin::new_unchecked pass it through; poll returns
    Ready(output)."""
    out = []
    for rx, mkout in futures:
        def h_create(E_, m, func, argv, guard, mem_, dty, caller, mkout=mkout):
            return X.Adt('ReadyFuture', {0: mkout(argv, guard, mem_)})
        out.append((re.compile(rx), h_create))

    def h_poll(E_, m, func, argv, guard, mem_, dty, caller):
        v = argv[0]
        for _ in range(6):
            if isinstance(v, X.Ref):
                v = E.read_path(mem_[v.cell], v.path, mem_, guard, 'poll')
            elif isinstance(v, X.Adt) and v.name == 'Pin':
                v = v.fs[0]
            else:
                break
        if isinstance(v, X.Cor):
            return NotImplemented          # a real async block: the engine runs its own poll function
        if not (isinstance(v, X.Adt) and v.name == 'ReadyFuture'):
            raise X.Unsupported('poll of an unknown future %r' % (v,))
        return ready(v.fs[0])
    out += [
        (re.compile(r' as IntoFuture>::into_future$'), lambda E_, m, func, argv, *a: argv[0]),
        (re.compile(r'^Pin::<&mut .*>::new_unchecked$'), lambda E_, m, func, argv, *a: X.Adt('Pin', {0: argv[0]})),
        (re.compile(r' as (?:std::future::)?Future>::poll$'), h_poll),
    ]
    return out


def connect_blocks(S, D):
    """C20.c: ChainNotifier::connect_blocks (async body) for N = 0..3 blocks."""
    for N in ((0, 1, 2, 3) if S.tier == 'quick' else (0, 1, 2, 3, 4, 5)):
        tag = 'C20.c.n%d' % N
        ids = [tag + s for s in ('.ascending_order', '.stops_at_error', '.nopanic', '.witness')]
        if all(S._skip(o) for o in ids):
            continue
        f = closure_fn(S, 'connect_blocks')
        E = S.engine(crate=CR, unwind=N + 1)
        mem = {}
        hs = [mk_header(E, D, 'blk%d' % i) for i in range(N)]        # as find_difference returns them: newest first
        tip0, t0 = mk_header(E, D, 'tip0')
        notifier = E.sym('notifier', "&mut ChainNotifier<'_, L>", mem)
        poller = X.Opaque('poller')
        notes, cached = [], []
        fetch_ok = [z3.Bool('src.fetch%d_ok' % i) for i in range(N)]
        BDV = lambda n: D.variant_index('BlockData', n)

        def which(v, mem_):
            hsh = ident(E, E.read_path(v if not isinstance(v, X.Ref) else mem_[v.cell], (() if not isinstance(v, X.Ref) else v.path) + (('f', D.struct_fields('ValidatedBlockHeader').index('block_hash'), 'BlockHash'),), mem_, True, 'which'), mem_)
            return hsh

        def mk_fetch(argv, guard, mem_):
            hsh = which(argv[1], mem_)
            ok = z3.Or(*[z3.And(hsh == hs[i][1]['hash'], fetch_ok[i]) for i in range(N)]) if N else z3.BoolVal(False)
            VB = D.struct_fields('ValidatedBlock')
            full = z3.Bool('src.full_block!%d' % next(E.nfresh))
            data = X.En('BlockData', z3.If(full, BDV('FullBlock'), BDV('HeaderOnly')), {BDV('FullBlock'): [X.Opaque('block')], BDV('HeaderOnly'): [X.Opaque('header')]})
            blk = X.Adt('ValidatedBlock', {VB.index('block_hash'): X.I(hsh, 'u64'), VB.index('inner'): data})
            return X.En('Result', z3.If(ok, 0, 1), {0: [blk], 1: [X.Opaque('fetch error')]})

        def h_drain(E_, m, func, argv, guard, mem_, dty, caller):
            v = E.read_path(mem_[argv[0].cell], argv[0].path, mem_, guard, 'drain')
            return X.It('revdrain', extra=(tuple(v.elems), len(v.elems), False))

        def h_rev(E_, m, func, argv, guard, mem_, dty, caller):
            el, k, _ = argv[0].extra
            return X.It('revdrain', extra=(el, k, True))

        def h_next(E_, m, func, argv, guard, mem_, dty, caller):
            r = argv[0]
            it = E.read_path(mem_[r.cell], r.path, mem_, guard, 'next')
            el, k, rev = it.extra
            if not rev:
                raise X.Unsupported('forward drain')
            if k == 0:
                return X.En('Option', 0, {})
            mem_[r.cell] = E.write_path(mem_[r.cell], r.path, X.It('revdrain', extra=(el, k - 1, True)), mem_, guard, 'next')
            return X.En('Option', 1, {1: [el[k - 1]]})

        def h_note(E_, m, func, argv, guard, mem_, dty, caller):
            notes.append((X.zbool(guard), 'full' if m.group(1) == 'block_connected' else 'filtered', argv[-1].t))
            return X.UNIT

        def h_cache(E_, m, func, argv, guard, mem_, dty, caller):
            cached.append((X.zbool(guard), ident(E, argv[1], mem_), which(argv[2], mem_)))
            return X.UNIT
        for rx, h in base_stubs(E) + future_stubs(E, [(r' as (?:poll::)?Poll>::fetch_block$', mk_fetch)]) + [(re.compile(a), b) for a, b in [
            (r'Vec::<.*ValidatedBlockHeader>::drain::<', h_drain),
            (r'Drain<.*ValidatedBlockHeader> as Iterator>::rev$', h_rev),
            (r'Rev<.*Drain<.*ValidatedBlockHeader>> as IntoIterator>::into_iter$', lambda E_, m, func, argv, *a: argv[0]),
            (r'Rev<.*Drain<.*ValidatedBlockHeader>> as Iterator>::next$', h_next),
            (r' as (?:chain::)?Listen>::(block_connected|filtered_block_connected)$', h_note),
            (r'HeaderCache::block_connected$', h_cache),
        ]]:
            E.models.insert(0, (rx, h))
        out, st = poll_once(S, E, f, {0: notifier, 1: tip0, 2: X.Seq([h[0] for h in hs], N, 'ValidatedBlockHeader'), 3: poller}, mem)
        is_ok = X.zint(out.d) == 0
        # expected: blocks are taken oldest first (the list reversed); the first failed fetch ends the run
        order = list(range(N - 1, -1, -1))
        alive = z3.BoolVal(True)
        exp_notes = []
        for i in order:
            alive = z3.And(alive, fetch_ok[i])
            exp_notes.append((alive, hs[i][1]['height'], hs[i][1]['hash']))
        all_ok = alive
        pre = [h[1]['height'] < (1 << 32) - 1 for h in hs] + ([z3.Distinct(*([h[1]['hash'] for h in hs] + [t0['hash']]))] if N else [])     # different blocks have different hashes
        if len(notes) % 2 == 1:
            raise X.Unsupported('connect_blocks: expected block_connected / filtered_block_connected in pairs (%d)' % len(notes))
        # one (full | filtered) notification slot per iteration, in program order
        slots = []
        for k in range(0, len(notes), 2):
            a, b = notes[k], notes[k + 1]
            slots.append((z3.Or(a[0], b[0]), z3.If(a[0], a[2], b[2])))
        claim = [is_ok == all_ok, z3.BoolVal(len(slots) == N), z3.BoolVal(len(cached) == N)]
        for (g, hgt), (eg, eh, ehash), (cg, chash, chdr) in zip(slots, exp_notes, cached):
            claim += [g == eg, z3.Implies(eg, hgt == eh), cg == eg, z3.Implies(eg, z3.And(chash == ehash, chdr == ehash))]
        prove(S, ids[0], E, pre, z3.And(*claim),
                'the blocks found by the difference walk are fetched and announced oldest first, each once, with its own height, and remembered in the header cache; the call succeeds iff every fetch did', bounds='%d blocks to connect; fetch results free (ok with the requested hash, full block or header only / error)' % N)
        if N:
            # on the first failure the reported tip is the last block that was announced (or the fork point)
            ET = E.en_payload(out, 'Err', 1, 0, '(BlockSourceError, Option<ValidatedBlockHeader>)', mem, 'spec')
            tip_opt = E.read_path(ET, (('f', 1, 'Option'),), mem, True, 'spec')
            tip_hash = ident(E, E.read_path(E.en_payload(tip_opt, 'Some', 1, 0, 'ValidatedBlockHeader', mem, 'spec'), (('f', D.struct_fields('ValidatedBlockHeader').index('block_hash'), 'BlockHash'),), mem, True, 'spec'), mem)
            exp_tip = t0['hash']
            alive = z3.BoolVal(True)
            for i in order:
                alive = z3.And(alive, fetch_ok[i])
                exp_tip = z3.If(alive, hs[i][1]['hash'], exp_tip)
            prove(S, ids[1], E, pre + [z3.Not(all_ok)], z3.And(z3.Not(is_ok), X.zint(tip_opt.d) == 1, tip_hash == exp_tip),
                    'when a fetch fails nothing after it is announced and the error names the last block announced (the fork point if none) as the tip the listeners are at')
        S.no_panic(ids[2], E, pre, 'no panic (the debug assertion on the fetched block\'s hash holds by the poller\'s contract)')
        S.witness(ids[3], E, pre, is_ok)


def hdr_hash(E, D, v, mem):
    VH = D.struct_fields('ValidatedBlockHeader')
    while isinstance(v, X.Ref):
        v = E.read_path(mem[v.cell], v.path, mem, True, 'hdr')
    return ident(E, E.read_path(v, (('f', VH.index('block_hash'), 'BlockHash'),), mem, True, 'hdr'), mem)


def hdr_height(E, D, v, mem):
    VH, BD = D.struct_fields('ValidatedBlockHeader'), D.struct_fields('BlockHeaderData')
    while isinstance(v, X.Ref):
        v = E.read_path(mem[v.cell], v.path, mem, True, 'hdr')
    return E.read_path(v, (('f', VH.index('inner'), 'BlockHeaderData'), ('f', BD.index('height'), 'u32')), mem, True, 'hdr').t


def header_eq_stub(E, D):
    # #[derive(PartialEq)] on ValidatedBlockHeader compares the hash and the header data; a validated header is
    # determined by its hash, so the comparison is the comparison of the hashes
    def h(E_, m, func, argv, guard, mem_, dty, caller):
        same = hdr_hash(E, D, argv[0], mem_) == hdr_hash(E, D, argv[1], mem_)
        return X.B(z3.Not(same) if m.group(1) == 'ne' else same)
    return (re.compile(r'<(?:poll::)?ValidatedBlockHeader as PartialEq>::(eq|ne)$'), h)


def synchronize_listener(S, D):
    """C20.d: ChainNotifier::synchronize_listener (async body) and disconnect_blocks."""
    ids = ['C20.d.disconnect_then_connect', 'C20.d.lookup_failure_touches_nothing', 'C20.d.nopanic', 'C20.d.witness']
    if all(S._skip(o) for o in ids):
        return
    f = closure_fn(S, 'synchronize_listener')
    E = S.engine(crate=CR, unwind=2)
    mem = {}
    new, n = mk_header(E, D, 'new_tip')
    old, o = mk_header(E, D, 'old_tip')
    anc, a = mk_header(E, D, 'ancestor')
    oc = E.new_cell()
    mem[oc] = old
    CN = D.struct_fields('ChainNotifier')
    cache_c = E.new_cell()
    mem[cache_c] = X.Opaque('header cache')
    nc = E.new_cell()
    mem[nc] = X.Adt('ChainNotifier', {CN.index('header_cache'): X.Ref(cache_c), CN.index('chain_listener'): X.Opaque('listener')})
    CDF = D.struct_fields('ChainDifference')
    diff_ok = z3.Bool('walk.ok')
    blocks = X.Opaque('connected blocks')
    events = []          # program order: ('disconnect', guard, hash, height) / ('cache_disconnect', ...) / ('connect', guard, ancestor hash, blocks)
    conn_res = E.sym('connect_result', 'std::result::Result<(), (BlockSourceError, std::option::Option<ValidatedBlockHeader>)>', mem)

    def mk_diff(argv, guard, mem_):
        events.append(('walk', X.zbool(guard), hdr_hash(E, D, argv[1], mem_), hdr_hash(E, D, argv[2], mem_)))
        d = X.Adt('ChainDifference', {CDF.index('common_ancestor'): anc, CDF.index('connected_blocks'): blocks})
        return X.En('Result', z3.If(diff_ok, 0, 1), {0: [d], 1: [X.Opaque('walk error')]})

    def mk_conn(argv, guard, mem_):
        events.append(('connect', X.zbool(guard), hdr_hash(E, D, argv[1], mem_), argv[2]))
        return conn_res

    def h_loc(E_, m, func, argv, guard, mem_, dty, caller):
        return X.Adt('BlockLocator', {0: X.I(ident(E, argv[0], mem_), 'u64'), 1: argv[1]})

    def h_disc(E_, m, func, argv, guard, mem_, dty, caller):
        loc = argv[1]
        events.append(('disconnect', X.zbool(guard), loc.fs[0].t, loc.fs[1].t))
        return X.UNIT

    def h_cache_disc(E_, m, func, argv, guard, mem_, dty, caller):
        events.append(('cache_disconnect', X.zbool(guard), hdr_hash(E, D, argv[1], mem_), hdr_height(E, D, argv[1], mem_)))
        return X.UNIT
    for rx, h in base_stubs(E) + [header_eq_stub(E, D)] + future_stubs(E, [
            (r'ChainNotifier::<.*>::find_difference_from_header::<', mk_diff),
            (r'ChainNotifier::<.*>::connect_blocks::<', mk_conn)]) + [(re.compile(x), y) for x, y in [
            (r'BlockLocator::new$', h_loc),
            (r' as (?:chain::)?Listen>::blocks_disconnected$', h_disc),
            (r'HeaderCache::blocks_disconnected$', h_cache_disc)]]:
        E.models.insert(0, (rx, h))
    out, st = poll_once(S, E, f, {0: X.Ref(nc), 1: new, 2: X.Ref(oc), 3: X.Opaque('poller')}, mem)
    kinds = [e[0] for e in events]
    if kinds != ['walk', 'cache_disconnect', 'disconnect', 'connect']:
        raise X.Unsupported('synchronize_listener: unexpected sequence of effects %s' % kinds)
    walk, cdisc, disc, conn = events
    forked = a['hash'] != o['hash']
    is_err = X.zint(out.d) == 1
    prove(S, ids[0], E, [diff_ok], z3.And(
        walk[1], walk[2] == n['hash'], walk[3] == o['hash'],
        disc[1] == forked, cdisc[1] == forked, z3.Implies(forked, z3.And(disc[2] == a['hash'], disc[3] == a['height'], cdisc[2] == a['hash'])),
        conn[1], conn[2] == a['hash'], z3.BoolVal(conn[3] is blocks),
        X.zint(out.d) == X.zint(conn_res.d)),
        'listeners are told of a disconnection exactly when the common ancestor is not the tip they are at, down to that ancestor (its hash and height), BEFORE any block is connected; then exactly the blocks the walk found are connected on top of the ancestor and the outcome of that is the outcome of the call', bounds='the difference walk and connect_blocks are stubs with free results (C20.b, C20.c)')
    ET = E.en_payload(out, 'Err', 1, 0, '(BlockSourceError, Option<ValidatedBlockHeader>)', mem, 'spec')
    tip_opt = E.read_path(ET, (('f', 1, 'Option'),), mem, True, 'spec')
    prove(S, ids[1], E, [z3.Not(diff_ok)], z3.And(is_err, X.zint(tip_opt.d) == 0, z3.Not(disc[1]), z3.Not(cdisc[1]), z3.Not(conn[1])),
            'if the walk back to the common ancestor fails (a source error, a header that does not connect) no listener and no cache entry is touched and the error carries no new tip')
    S.no_panic(ids[2], E, [], 'total')
    S.witness(ids[3], E, [diff_ok, forked], z3.Not(is_err))


def tip_updates(S, D):
    """C20.e: SpvClient::update_chain_tip and poll_best_tip (async bodies)."""
    ids = ['C20.e.tip_follows_listeners', 'C20.e.only_better_tips', 'C20.e.nopanic', 'C20.e.witness']
    if all(S._skip(o) for o in ids):
        return
    SC = D.struct_fields('SpvClient')
    VH = D.struct_fields('ValidatedBlockHeader')
    # -- update_chain_tip ---------------------------------------------------------------------
    f = closure_fn(S, 'update_chain_tip')
    E = S.engine(crate=CR, unwind=2)
    mem = {}
    cur, c = mk_header(E, D, 'current_tip')
    best, b = mk_header(E, D, 'best_tip')
    part, p = mk_header(E, D, 'partial_tip')
    cl = E.new_cell()
    mem[cl] = X.Adt('SpvClient', {SC.index('chain_tip'): cur, SC.index('chain_poller'): X.Opaque('poller'), SC.index('header_cache'): X.Opaque('cache'),
                                  SC.index('chain_listener'): X.Opaque('listener')})
    sync_ok, has_tip = z3.Bool('sync.ok'), z3.Bool('sync.err_has_tip')
    calls = []

    def mk_sync(argv, guard, mem_):
        calls.append((X.zbool(guard), hdr_hash(E, D, argv[1], mem_), hdr_hash(E, D, argv[2], mem_)))
        err = X.Tup([X.Opaque('error'), X.En('Option', z3.If(has_tip, 1, 0), {1: [part]})])
        return X.En('Result', z3.If(sync_ok, 0, 1), {0: [X.UNIT], 1: [err]})
    for rx, h in base_stubs(E) + [header_eq_stub(E, D)] + future_stubs(E, [(r'ChainNotifier::<.*>::synchronize_listener::<', mk_sync)]) + [
            (re.compile(r' as (?:std::ops::)?Deref>::deref$'), lambda E_, m, func, argv, *a: argv[0])]:
        E.models.insert(0, (rx, h))
    out, st = poll_once(S, E, f, {0: X.Ref(cl), 1: best}, mem)
    tip2 = hdr_hash(E, D, E.read_path(mem[cl], (('f', SC.index('chain_tip'), 'ValidatedBlockHeader'),), mem, True, 'spec'), mem)
    if len(calls) != 1:
        raise X.Unsupported('update_chain_tip: %d calls of synchronize_listener' % len(calls))
    moved = X.zbool(out.t)
    exp_tip = z3.If(sync_ok, b['hash'], z3.If(z3.And(has_tip, p['hash'] != c['hash']), p['hash'], c['hash']))
    prove(S, ids[0], E, [], z3.And(calls[0][0], calls[0][1] == b['hash'], calls[0][2] == c['hash'], tip2 == exp_tip,
                                  moved == z3.Or(sync_ok, z3.And(has_tip, p['hash'] != c['hash']))),
        'the client\'s notion of the chain tip always is the block the listeners were last brought to: the new tip after a complete synchronisation, the tip the synchronisation reports it stopped at when it failed part-way, and unchanged when it failed before anything was connected', bounds='synchronize_listener is a stub with a free result (C20.d)')
    S.no_panic(ids[2], E, [], 'total')
    S.witness(ids[3], E, [z3.Not(sync_ok), has_tip, p['hash'] != c['hash']], moved)
    # -- poll_best_tip ---------------------------------------------------------------------------
    f2 = closure_fn(S, 'poll_best_tip')
    E2 = S.engine(crate=CR, unwind=2)
    mem2 = {}
    cur2, c2 = mk_header(E2, D, 'current_tip')
    cand, k2 = mk_header(E2, D, 'polled_tip')
    cl2 = E2.new_cell()
    mem2[cl2] = X.Adt('SpvClient', {SC.index('chain_tip'): cur2, SC.index('chain_poller'): X.Opaque('poller'), SC.index('header_cache'): X.Opaque('cache'),
                                    SC.index('chain_listener'): X.Opaque('listener')})
    CT = lambda nm: D.variant_index('ChainTip', nm)
    kind = E2.sym('poll.kind', 'u8')
    poll_ok = z3.Bool('poll.ok')
    updates = []

    def mk_poll(argv, guard, mem_):
        tipv = X.En('ChainTip', kind.t, {CT('Better'): [cand], CT('Worse'): [cand]})
        return X.En('Result', z3.If(poll_ok, 0, 1), {0: [tipv], 1: [X.Opaque('poll error')]})

    def mk_upd(argv, guard, mem_):
        updates.append((X.zbool(guard), hdr_hash(E2, D, argv[1], mem_)))
        return X.B(z3.Bool('update.moved'))
    for rx, h in base_stubs(E2) + [header_eq_stub(E2, D)] + future_stubs(E2, [(r' as (?:poll::)?Poll>::poll_chain_tip$', mk_poll), (r'SpvClient::<.*>::update_chain_tip$', mk_upd)]):
        E2.models.insert(0, (rx, h))
    E2.assume(z3.And(kind.t >= 0, kind.t <= 2))
    # what ChainPoller::poll_chain_tip guarantees for its answers (C20.f); poll_best_tip's debug assertions rely on it
    E2.assume(z3.Implies(kind.t == CT('Better'), z3.And(k2['hash'] != c2['hash'], k2['work'] > c2['work'])))
    E2.assume(z3.Implies(kind.t == CT('Worse'), z3.And(k2['hash'] != c2['hash'], k2['work'] <= c2['work'])))
    out2, st2 = poll_once(S, E2, f2, {0: X.Ref(cl2)}, mem2)
    upd = z3.Or(*[g for g, h_ in updates]) if updates else z3.BoolVal(False)
    prove(S, ids[1], E2, [], z3.And(upd == z3.And(poll_ok, kind.t == CT('Better')), *[z3.Implies(g, h_ == k2['hash']) for g, h_ in updates],
                                   (X.zint(out2.d) == 1) == z3.Not(poll_ok)),
            'listeners are moved only to a tip the poller classified as better (more accumulated work than the current tip), and to exactly that tip; a common or worse tip and a failed poll leave them untouched')


def find_difference(S, D):
    """C20.b: ChainNotifier::find_difference_from_header (async body, loop unrolled): the walk back from two tips to
    their most recent common ancestor over an arbitrary block tree (parent and height are uninterpreted functions of
    the hash; every look-up answers with the true parent or fails)."""
    K = 2 if S.tier == 'quick' else 3            # both tips are at most K blocks above the common ancestor
    tag = 'C20.b'
    ids = [tag + s for s in ('.common_ancestor', '.connected_suffix', '.most_recent', '.lookup_error', '.nopanic', '.witness')]
    if all(S._skip(o) for o in ids):
        return
    f = closure_fn(S, 'find_difference_from_header')
    E = S.engine(crate=CR, unwind=2 * K + 1)
    mem = {}
    P = z3.Function('tree.parent', z3.IntSort(), z3.IntSort())
    HT = z3.Function('tree.height', z3.IntSort(), z3.IntSort())
    WK = z3.Function('tree.chainwork', z3.IntSort(), z3.IntSort())

    def header_of(h):
        return mk_header(E, D, 'blk', block_hash=X.I(h, 'u64'), prev=X.I(P(h), 'u64'), height=X.I(HT(h), 'u32'), work=X.I(WK(h), 'u64'))[0]
    n0, o0 = z3.Int('new_tip.hash'), z3.Int('old_tip.hash')
    oc = E.new_cell()
    mem[oc] = header_of(o0)
    lookups = []

    def mk_lookup(argv, guard, mem_):
        h = hdr_hash(E, D, argv[2], mem_)
        ok = z3.Bool('src.lookup%d_ok' % len(lookups))
        lookups.append((X.zbool(guard), h, ok))
        # what Poll::look_up_previous_header / the header cache guarantee for an answer (C20.a, C20.f): the true parent
        E.assume(z3.Implies(z3.And(X.zbool(guard), ok), z3.And(HT(P(h)) == HT(h) - 1, HT(h) >= 1)))
        return X.En('Result', z3.If(ok, 0, 1), {0: [header_of(P(h))], 1: [X.Opaque('lookup error')]})
    for rx, h in base_stubs(E) + [header_eq_stub(E, D)] + future_stubs(E, [(r'ChainNotifier::<.*>::look_up_previous_header::<', mk_lookup)]):
        E.models.insert(0, (rx, h))
    out, st = poll_once(S, E, f, {0: X.Opaque('notifier'), 1: header_of(n0), 2: X.Ref(oc), 3: X.Opaque('poller')}, mem)
    is_ok = X.zint(out.d) == 0
    CDF = D.struct_fields('ChainDifference')
    diff = E.en_payload(out, 'Ok', 0, 0, 'ChainDifference', mem, 'spec')
    anc = hdr_hash(E, D, E.read_path(diff, (('f', CDF.index('common_ancestor'), 'ValidatedBlockHeader'),), mem, True, 'spec'), mem)
    blocks = E.read_path(diff, (('f', CDF.index('connected_blocks'), 'Vec'),), mem, True, 'spec')
    if not isinstance(blocks, X.Seq):
        raise X.Unsupported('connected_blocks is %r' % (blocks,))

    def up(h, k):
        for _ in range(k):
            h = P(h)
        return h
    # the tree around the two tips: heights are consistent along parents, both tips reach a common block within K steps
    meet = z3.Or(*[z3.And(up(n0, i) == up(o0, j)) for i in range(K + 1) for j in range(K + 1)])
    tree = [HT(up(x, k + 1)) == HT(up(x, k)) - 1 for x in (n0, o0) for k in range(K)] + [HT(up(x, K)) >= 1 for x in (n0, o0)] + [HT(n0) < (1 << 31), HT(o0) < (1 << 31)]
    pre = tree + [meet]
    all_ok = z3.And(*[z3.Implies(g, ok) for g, h_, ok in lookups])
    first = lambda i: z3.And(z3.Or(*[up(n0, i) == up(o0, j) for j in range(K + 1)]), *[z3.Not(z3.Or(*[up(n0, i2) == up(o0, j) for j in range(K + 1)])) for i2 in range(i)])
    prove(S, ids[0], E, pre + [all_ok], z3.And(is_ok, z3.Or(*[anc == up(n0, i) for i in range(K + 1)]), z3.Or(*[anc == up(o0, j) for j in range(K + 1)])),
            'the block reported as common ancestor is an ancestor (or the tip itself) of both the new and the old tip', bounds='arbitrary block tree (parent / height / chain work uninterpreted), both tips at most %d blocks above their most recent common ancestor; every look-up answers with the true parent' % K)
    prove(S, ids[1], E, pre + [all_ok], z3.And(*[z3.Implies(first(i), z3.And(blocks.n == i, *[hdr_hash(E, D, blocks.elems[k], mem) == up(n0, k) for k in range(i) if k < len(blocks.elems)])) for i in range(K + 1)]),
            'the blocks to connect are exactly the new tip and its ancestors down to (excluding) the common ancestor, newest first - a contiguous chain, each the parent of the one before')
    prove(S, ids[2], E, pre + [all_ok], z3.And(*[z3.Implies(first(i), anc == up(n0, i)) for i in range(K + 1)]),
            'the common ancestor is the MOST RECENT one: no block above it on the new branch is on the old branch')
    prove(S, ids[3], E, pre + [z3.Not(all_ok)], z3.Not(is_ok), 'a failed look-up (source error, header that does not connect) makes the walk fail')
    S.no_panic(ids[4], E, pre, 'no overflow')
    S.witness(ids[5], E, pre + [all_ok, first(K), z3.Not(z3.Or(*[up(n0, K) == up(o0, j) for j in range(K)]))], is_ok)


def chain_poller(S, D):
    """C20.f: the three async blocks of ChainPoller (poll.rs) - what the client accepts from a block source - and the
    two Validate impls they use.  The source's answers are arbitrary values; the proof-of-work hash of a served header
    (Header::validate_pow) is a free result."""
    ids = ['C20.f.previous_header', 'C20.f.previous_header_errors', 'C20.f.chain_tip', 'C20.f.fetch_block', 'C20.f.nopanic', 'C20.f.witness']
    if all(S._skip(o) for o in ids):
        return
    VH, BD = D.struct_fields('ValidatedBlockHeader'), D.struct_fields('BlockHeaderData')
    CP = D.struct_fields('ChainPoller')

    def pow_stub(E, tagc):
        # Header::validate_pow(header, target) -> Result<BlockHash, ValidationError>: the header's real hash if it meets
        # the target.  One free (ok, hash) pair per served header value
        def h(E_, m, func, argv, guard, mem_, dty, caller):
            k = next(tagc)
            ok, hsh = z3.Bool('pow%d.ok' % k), z3.Int('pow%d.hash' % k)
            h.seen.append((X.zbool(guard), ok, hsh))
            return X.En('Result', z3.If(ok, 0, 1), {0: [X.I(hsh, 'u64')], 1: [X.Opaque('pow error')]})
        h.seen = []
        return h

    def served_header(E, tag):
        hdr = X.Adt('Header', {H_PREV: hv(E, tag + '.prev_hash'), H_BITS: hv(E, tag + '.bits')}, base=tag + '.header')
        d = X.Adt('BlockHeaderData', {BD.index('header'): hdr, BD.index('height'): E.sym(tag + '.height', 'u32'), BD.index('chainwork'): hv(E, tag + '.chainwork')})
        return d, dict(prev=hdr.fs[H_PREV].t, bits=hdr.fs[H_BITS].t, height=d.fs[BD.index('height')].t, work=d.fs[BD.index('chainwork')].t)

    def poller_cell(E, mem):
        c = E.new_cell()
        mem[c] = X.Adt('ChainPoller', {CP.index('block_source'): X.Opaque('source'), CP.index('network'): X.En('Network', E.sym('network', 'u8').t, {})})
        return c
    import itertools
    # ---- look_up_previous_header ---------------------------------------------------------------------------
    f_owner = [i for i in range(len(S.mir(CR).offsets)) if re.search(r'poll::<impl.*>::look_up_previous_header::\{closure#0\}\(', S.mir(CR).offsets[i][0])]
    if len(f_owner) != 1:
        raise X.Unsupported('ChainPoller::look_up_previous_header: %d candidates' % len(f_owner))
    f = S.mir(CR).get(f_owner[0])
    E = S.engine(crate=CR, unwind=2)
    mem = {}
    child, c = mk_header(E, D, 'child')
    cc = E.new_cell()
    mem[cc] = child
    pc = poller_cell(E, mem)
    served, s = served_header(E, 'served')
    src_ok = z3.Bool('src.get_header_ok')
    reqs = []
    powh = pow_stub(E, itertools.count())

    def mk_get_header(argv, guard, mem_):
        hint = argv[2]
        reqs.append((X.zbool(guard), ident(E, argv[1], mem_), X.zint(hint.d) == 1, E.en_payload(hint, 'Some', 1, 0, 'u32', mem_, 'req').t))
        return X.En('Result', z3.If(src_ok, 0, 1), {0: [served], 1: [X.Opaque('source error')]})
    for rx, h in base_stubs(E) + [header_eq_stub(E, D)] + future_stubs(E, [(r' as BlockSource>::get_header$', mk_get_header)]) + [
            (re.compile(r'Header::validate_pow$'), powh), (re.compile(r'<B as (?:std::ops::)?Deref>::deref$'), lambda E_, m, func, argv, *a: argv[0])]:
        E.models.insert(0, (rx, h))
    out, st = poll_once(S, E, f, {0: X.Ref(cc), 1: X.Ref(pc)}, mem)
    is_ok = X.zint(out.d) == 0
    got = E.en_payload(out, 'Ok', 0, 0, 'ValidatedBlockHeader', mem, 'spec')
    g_hash, g_height = hdr_hash(E, D, got, mem), hdr_height(E, D, got, mem)
    g_work = ident(E, E.read_path(got, (('f', VH.index('inner'), 'BlockHeaderData'), ('f', BD.index('chainwork'), 'Work')), mem, True, 'spec'), mem)
    if len(reqs) != 1 or len(powh.seen) != 1:
        raise X.Unsupported('look_up_previous_header: %d header requests, %d proof-of-work checks' % (len(reqs), len(powh.seen)))
    rq, pw = reqs[0], powh.seen[0]
    pre = [c['height'] < (1 << 32) - 1, c['work'] >= 0, s['work'] >= 0]
    prove(S, ids[0], E, pre, z3.Implies(is_ok, z3.And(
        rq[0], rq[1] == c['prev'], rq[2], rq[3] == c['height'] - 1,
        pw[0], pw[1], pw[2] == c['prev'],
        g_hash == c['prev'], g_height == c['height'] - 1, g_height == s['height'], c['work'] == g_work + WORK_OF(c['bits']), c['height'] >= 1)),
        'a parent header is accepted from a block source only if it was asked for by the child\'s prev_blockhash (with the height hint child - 1), the served header\'s proof-of-work hash IS that hash, its height is one less and the child\'s chain work is its chain work plus the child\'s work', bounds='source answer, proof-of-work outcome and network arbitrary')
    prove(S, ids[1], E, pre, z3.And(z3.Implies(c['height'] == 0, z3.And(z3.Not(is_ok), z3.Not(rq[0]))), z3.Implies(z3.Not(src_ok), z3.Not(is_ok)), z3.Implies(z3.And(pw[0], z3.Not(pw[1])), z3.Not(is_ok))),
            'the genesis block has no parent to ask for; a source error and a header failing proof of work are refused')
    # ---- poll_chain_tip -------------------------------------------------------------------------------------
    f2o = [i for i in range(len(S.mir(CR).offsets)) if re.search(r'poll::<impl.*>::poll_chain_tip::\{closure#0\}\(', S.mir(CR).offsets[i][0])]
    if len(f2o) != 1:
        raise X.Unsupported('ChainPoller::poll_chain_tip: %d candidates' % len(f2o))
    f2 = S.mir(CR).get(f2o[0])
    E2 = S.engine(crate=CR, unwind=2)
    mem2 = {}
    best, b = mk_header(E2, D, 'known_tip')
    pc2 = poller_cell(E2, mem2)
    served2, s2 = served_header(E2, 'served')
    best_ok, hdr_ok = z3.Bool('src.get_best_block_ok'), z3.Bool('src.get_header_ok')
    src_hash, src_height = hv(E2, 'src.best_hash'), E2.sym('src.best_height', 'std::option::Option<u32>', mem2)
    reqs2 = []
    powh2 = pow_stub(E2, itertools.count())

    def mk_best(argv, guard, mem_):
        return X.En('Result', z3.If(best_ok, 0, 1), {0: [X.Tup([src_hash, src_height])], 1: [X.Opaque('source error')]})

    def mk_get_header2(argv, guard, mem_):
        reqs2.append((X.zbool(guard), ident(E2, argv[1], mem_)))
        return X.En('Result', z3.If(hdr_ok, 0, 1), {0: [served2], 1: [X.Opaque('source error')]})

    def h_block_hash(E_, m, func, argv, guard, mem_, dty, caller):
        # the hash of the header of a VALIDATED header is its block_hash (that is what validation established)
        r_ = argv[0]
        if not (isinstance(r_, X.Ref) and len(r_.path) >= 2):
            raise X.Unsupported('Header::block_hash of a header that is not part of a validated header')
        owner = E2.read_path(mem_[r_.cell], r_.path[:-2], mem_, guard, 'block_hash')
        return X.I(hdr_hash(E2, D, owner, mem_), 'u64')
    for rx, h in base_stubs(E2) + [header_eq_stub(E2, D)] + future_stubs(E2, [(r' as BlockSource>::get_best_block$', mk_best), (r' as BlockSource>::get_header$', mk_get_header2)]) + [
            (re.compile(r'Header::validate_pow$'), powh2), (re.compile(r'Header::block_hash$'), h_block_hash),
            (re.compile(r'<B as (?:std::ops::)?Deref>::deref$'), lambda E_, m, func, argv, *a: argv[0])]:
        E2.models.insert(0, (rx, h))
    out2, st2 = poll_once(S, E2, f2, {0: X.Ref(pc2), 1: best}, mem2)
    CT = lambda nm: D.variant_index('ChainTip', nm)
    ok2 = X.zint(out2.d) == 0
    tipv = E2.en_payload(out2, 'Ok', 0, 0, 'ChainTip', mem2, 'spec')
    kind = X.zint(tipv.d)
    cand = lambda nm: E2.en_payload(tipv, nm, CT(nm), 0, 'ValidatedBlockHeader', mem2, 'spec')
    same = src_hash.t == b['hash']
    if len(reqs2) != 1 or len(powh2.seen) != 1:
        raise X.Unsupported('poll_chain_tip: %d header requests, %d proof-of-work checks' % (len(reqs2), len(powh2.seen)))
    pw2 = powh2.seen[0]
    accepted = z3.And(hdr_ok, pw2[1], pw2[2] == src_hash.t)
    prove(S, ids[2], E2, [], z3.And(
        z3.Implies(z3.Not(best_ok), z3.Not(ok2)),
        z3.Implies(z3.And(best_ok, same), z3.And(ok2, kind == CT('Common'), z3.Not(reqs2[0][0]))),
        z3.Implies(z3.And(best_ok, z3.Not(same)), z3.And(reqs2[0][0], reqs2[0][1] == src_hash.t, ok2 == accepted,
                   z3.Implies(ok2, z3.And(kind == z3.If(s2['work'] > b['work'], CT('Better'), CT('Worse')),
                                          z3.If(s2['work'] > b['work'], hdr_hash(E2, D, cand('Better'), mem2), hdr_hash(E2, D, cand('Worse'), mem2)) == src_hash.t))))),
        'the source\'s best block is reported Common iff it is the tip already known; otherwise its header must be served and hash (proof of work) to exactly the announced hash, and it is Better only if it carries strictly more accumulated work than the known tip, else Worse')
    # ---- fetch_block ----------------------------------------------------------------------------------------
    # (one run per kind of served data: the Validate impl takes a reference into whichever variant it is, and the
    #  engine does not merge references to different places)
    f3o = [i for i in range(len(S.mir(CR).offsets)) if re.search(r'poll::<impl.*>::fetch_block::\{closure#0\}\(', S.mir(CR).offsets[i][0])]
    if len(f3o) != 1:
        raise X.Unsupported('ChainPoller::fetch_block: %d candidates' % len(f3o))
    f3 = S.mir(CR).get(f3o[0])
    BDV = lambda n: D.variant_index('BlockData', n)
    VB = D.struct_fields('ValidatedBlock')
    for full in (True, False):
        E3 = S.engine(crate=CR, unwind=2)
        mem3 = {}
        want, w = mk_header(E3, D, 'wanted')
        wc = E3.new_cell()
        mem3[wc] = want
        pc3 = poller_cell(E3, mem3)
        blk_ok, merkle_ok, witness_ok = z3.Bool('src.get_block_ok'), z3.Bool('block.merkle_root_ok'), z3.Bool('block.witness_commitment_ok')
        data = X.En('BlockData', BDV('FullBlock') if full else BDV('HeaderOnly'),
                    {BDV('FullBlock'): [X.Adt('Block', {}, base='served_block')]} if full else {BDV('HeaderOnly'): [X.Adt('Header', {}, base='served_header')]})
        reqs3 = []
        powh3 = pow_stub(E3, itertools.count())

        def mk_get_block(argv, guard, mem_, E3=E3, reqs3=reqs3, data=data, blk_ok=blk_ok):
            reqs3.append((X.zbool(guard), ident(E3, argv[1], mem_)))
            return X.En('Result', z3.If(blk_ok, 0, 1), {0: [data], 1: [X.Opaque('source error')]})
        for rx, h in base_stubs(E3) + future_stubs(E3, [(r' as BlockSource>::get_block$', mk_get_block)]) + [
                (re.compile(r'Header::validate_pow$'), powh3), (re.compile(r'Block::check_merkle_root$'), lambda *a, merkle_ok=merkle_ok: X.B(merkle_ok)),
                (re.compile(r'Block::check_witness_commitment$'), lambda *a, witness_ok=witness_ok: X.B(witness_ok)),
                (re.compile(r'<B as (?:std::ops::)?Deref>::deref$'), lambda E_, m, func, argv, *a: argv[0])]:
            E3.models.insert(0, (rx, h))
        out3, st3 = poll_once(S, E3, f3, {0: X.Ref(pc3), 1: X.Ref(wc)}, mem3)
        ok3 = X.zint(out3.d) == 0
        got3 = E3.en_payload(out3, 'Ok', 0, 0, 'ValidatedBlock', mem3, 'spec')
        got3_hash = ident(E3, E3.read_path(got3, (('f', VB.index('block_hash'), 'BlockHash'),), mem3, True, 'spec'), mem3)
        pw3 = z3.Or(*[z3.And(g, ok_, h_ == w['hash']) for g, ok_, h_ in powh3.seen]) if powh3.seen else z3.BoolVal(False)
        if len(reqs3) != 1:
            raise X.Unsupported('fetch_block: %d block requests' % len(reqs3))
        prove(S, ids[3] + ('.full' if full else '.header_only'), E3, [], z3.And(reqs3[0][0], reqs3[0][1] == w['hash'],
                                       ok3 == z3.And(blk_ok, pw3, z3.And(merkle_ok, witness_ok) if full else True), z3.Implies(ok3, got3_hash == w['hash'])),
                'a block is fetched by the hash of the header being connected and accepted only if its header hashes (proof of work) to exactly that hash and - for a full block - the merkle root and the witness commitment check out')
    S.no_panic(ids[4], E, pre, 'no underflow / overflow of a height, whatever the source serves', [battery_binding(z3.Not(z3.Or(*[X.zbool(p_[0]) for p_ in E.panics])) if E.panics else z3.BoolVal(True))])
    S.witness(ids[5], E, pre, is_ok)
    S.validate('C20.f.validate', E, battery_binding(z3.BoolVal(True)), n=1, extra_vectors=[(1,)])
