"""C09 — no state is revealed before its monitor update is durable: the completion bookkeeping (narrow kernels).

C09.a  chain::chainmonitor::ChainMonitor::channel_monitor_updated: the Completed event is raised only when NO update
       of the channel is pending any more, whatever the order of completions (<= 3 pending updates).
C09.b  ChainMonitor::update_channel_internal: an update whose persistence is in progress is remembered as pending; the
       update is applied to the monitor before it is persisted; what the caller is told.
C09.c  ChannelManager::channel_monitor_updated (whole function, callees stubbed): a channel is resumed (or a closed
       channel's blocked actions run) only when no in-flight update above the completed id is left.
C09.d  FundedChannel::monitor_updating_restored (region: from the peer-connected test to the end): only messages that
       were being held are released, the hold flags are cleared, the order is the recorded one.
"""
import re
import z3
from engine_m import exec as X
from engine_m.session import Binding
from .common import *

EVIDENCE = dict(assumptions=[
    'kernel only (narrow): the bookkeeping that decides WHEN a monitor update counts as complete and what is released then - ChainMonitor::channel_monitor_updated / update_channel_internal, ChannelManager::channel_monitor_updated (region), FundedChannel::monitor_updating_restored (region)',
    'maps, mutexes, the monitor, the persister, message construction and signing are stubs with free outcomes; pending-update lists have <= 3 entries',
    'that every state-revealing action in ChannelManager / channel.rs is actually routed through this bookkeeping (the handle_new_monitor_update paths), blocked monitor updates, the deferred ChainMonitor mode and restarts are outside the claim'])


def battery_binding(claim):
    """replay binding shared by the C09 obligations (oracle_tu monitor_update_battery): live nodes whose persister answers
    InProgress - a received commitment_signed must not be answered (no revoke_and_ack / commitment_signed leaves the
    node) until the update is reported complete, and then exactly the held messages leave, in order"""
    c = claim if z3.is_expr(claim) else X.zbool(claim)
    return Binding('monitor_update_battery', [z3.IntVal(1)], [z3.If(c, 0, 1)], parse=lambda t: [0 if t[0] == '0' else 1], line_fn=lambda v: '1',
                   which='oracle_tu', via_solver=True, domain=[(1, 1)], panic=False)


def prove(S, oid, E, pre, claim, desc, **kw):
    return S.prove(oid, E, pre, claim, desc, [battery_binding(claim)], **kw)


def run(S):
    D = S.decls()
    chain_monitor_completion(S, D)
    chain_monitor_update(S, D)
    manager_completion(S, D)
    preimage_update_ids(S, D)
    deferred_flush(S, D)
    channel_restore(S, D)


def _lock_stubs(E, pend_c, holder_c, known, events, latest):
    return [
        (r'RwLock::<.*>::read$', lambda *a: X.En('Result', 0, {0: [X.Opaque('monitors')]})),
        (r'RwLockReadGuard<.*> as (?:std::ops::)?Deref>::deref$', lambda *a: X.Opaque('monitors map')),
        (r'HashMap::<ChannelId, MonitorHolder<.*>.*>::get::<', lambda *a: X.En('Option', z3.If(known, 1, 0), {1: [X.Ref(holder_c)]})),
        (r'Mutex::<Vec<u64>>::lock$', lambda *a: X.En('Result', 0, {0: [X.Ref(pend_c)]})),
        (r'MutexGuard<.*Vec<u64>> as (?:std::ops::)?Deref(?:Mut)?>::deref(?:_mut)?$', lambda *a: X.Ref(pend_c)),
        (r'Mutex::<Vec<\(.*MonitorEvent.*\)>>::lock$', lambda *a: X.En('Result', 0, {0: [X.Opaque('events')]})),
        (r'MutexGuard<.*MonitorEvent.*> as (?:std::ops::)?DerefMut>::deref_mut$', lambda *a: X.Opaque('events vec')),
        (r'Vec::<\(.*MonitorEvent.*\)>::push$', lambda E_, m, func, argv, guard, *a: (events.append((X.zbool(guard), argv[1])), X.UNIT)[1]),
        (r'ChannelMonitor::<.*>::get_latest_update_id$', lambda *a: latest),
        (r'ChannelMonitor::<.*>::(?:get_funding_txo|get_counterparty_node_id|channel_id|persistence_key)$', lambda *a: X.Opaque('monitor data')),
        (r'Notifier::notify$', lambda *a: X.UNIT),
        (r'^format$|^must_use::<', lambda *a: X.Opaque('string')),
        (r'WithChannelMonitor::from::<', lambda *a: X.Opaque('logger')),
        (r'^<[A-Z]\w* as (?:std::ops::)?Deref>::deref$', lambda E_, m, func, argv, *a: argv[0]),
    ]


def run_until_event(S, E, f, args, mem):
    """run f; the blocks that start building a `vec![MonitorEvent::..]` (Box::new_uninit: raw-pointer code the engine
    does not follow) are cut points: reaching one = the event is raised.  Returns (return value or None, return guard,
    memory at return, guard under which an event is raised, memory there)"""
    run = X.FnRun(E, f, args, True, mem)
    cuts = {b for b, (body, t) in f.blocks.items() if t[0] == 'call' and re.search(r'Box::<\[.*MonitorEvent; 1\]>::new_uninit$', t[2])}
    if not cuts:
        raise X.Unsupported('%s: no MonitorEvent construction found' % f.name)
    E.depth += 1
    rv, ret, m2 = run.run(stop_bbs=cuts)
    E.depth -= 1
    sts = [st for b_ in sorted(run.stop_states, key=str) for st in run.stop_states[b_]]
    if sts:
        g_ev, m_ev = E.merge_mem(sts)
    else:
        g_ev, m_ev = False, mem
    return rv, ret, m2, X.zbool(g_ev), m_ev


def chain_monitor_completion(S, D):
    for N in ((0, 1, 2, 3) if S.tier == 'quick' else (0, 1, 2, 3, 4)):
        tag = 'C09.a.n%d' % N
        ids = [tag + '.completed_only_when_none_pending', tag + '.nopanic', tag + '.witness']
        if all(S._skip(o) for o in ids):
            continue
        f = S.fn('channel_monitor_updated', first_param='ChainMonitor')
        E = S.engine(unwind=N + 1)
        mem = {}
        MH = D.struct_fields('MonitorHolder')
        pend = [E.sym('pending%d.update_id' % i, 'u64') for i in range(N)]
        pend_c = E.new_cell()
        mem[pend_c] = X.Seq(pend, N, 'u64')
        holder_c = E.new_cell()
        mem[holder_c] = X.Adt('MonitorHolder', {MH.index('monitor'): X.Opaque('monitor'), MH.index('pending_monitor_updates'): X.Ref(pend_c)})
        known = z3.Bool('monitor.known')
        latest = E.sym('monitor.latest_update_id', 'u64')
        completed = E.sym('completed_update_id', 'u64')
        events = []
        for rx, h in _lock_stubs(E, pend_c, holder_c, known, events, latest):
            E.models.insert(0, (re.compile(rx), h))
        rv, ret, m_ret, raised, m_ev = run_until_event(S, E, f, [E.sym('self', f.params[0][1], mem), X.Opaque('channel id'), completed], mem)
        returned = X.zbool(ret) if rv is not None else z3.BoolVal(False)
        is_err = z3.And(returned, X.zint(rv.d) == 1) if rv is not None else z3.BoolVal(False)
        quiet_ok = z3.And(returned, X.zint(rv.d) == 0) if rv is not None else z3.BoolVal(False)
        after = E.merge(raised, m_ev[pend_c], m_ret[pend_c]) if rv is not None else m_ev[pend_c]
        mem = m_ret if rv is not None else m_ev
        left = [p.t != completed.t for p in pend]                       # which pending updates are still outstanding
        none_left = z3.And(*[z3.Not(l) for l in left]) if N else z3.BoolVal(True)
        # the remaining list: the outstanding ids, in their original order
        kept = []
        if isinstance(after, X.Seq):
            els = list(zip(after.elems, after.pres if not after.prefix else [X.simp(X.zint(after.n) > i) for i in range(len(after.elems))]))
            for i in range(N):
                same_slot = z3.And(*[z3.Implies(X.zbool(els[i][1]) if i < len(els) else False, els[i][0].t == pend[i].t)]) if i < len(els) else z3.BoolVal(True)
                kept.append(z3.And((X.zbool(els[i][1]) if i < len(els) else z3.BoolVal(False)) == left[i], same_slot))
        prove(S, ids[0], E, [], z3.And(is_err == z3.Not(known), raised == z3.And(known, none_left), quiet_ok == z3.And(known, z3.Not(none_left)), z3.Implies(known, z3.And(*kept) if kept else True)),
              'completing one update removes exactly that update from the channel\'s pending list, and the Completed event - which lets the ChannelManager release what it is holding - is raised iff no update of that channel is pending any more: completions may arrive in any order, and an early completion of a later update does not release anything while an earlier one is outstanding',
              bounds='%d pending updates with arbitrary ids, arbitrary completed id; maps / locks / the monitor stubbed' % N)
        S.no_panic(ids[1], E, [], 'total')
        S.witness(ids[2], E, [known], raised if N == 0 else z3.BoolVal(True))


def chain_monitor_update(S, D):
    ids = ['C09.b.pending_iff_in_progress', 'C09.b.apply_before_persist', 'C09.b.nopanic', 'C09.b.witness']
    if all(S._skip(o) for o in ids):
        return
    f = S.fn('update_channel_internal', first_param='ChainMonitor')
    E = S.engine(unwind=3)
    mem = {}
    MH = D.struct_fields('MonitorHolder')
    CU = D.struct_fields('ChannelMonitorUpdate')
    n0 = 2
    pend = [E.sym('pending%d.update_id' % i, 'u64') for i in range(n0)]
    pend_c = E.new_cell()
    mem[pend_c] = X.Seq(pend, n0, 'u64')
    holder_c = E.new_cell()
    mem[holder_c] = X.Adt('MonitorHolder', {MH.index('monitor'): X.Opaque('monitor'), MH.index('pending_monitor_updates'): X.Ref(pend_c)})
    known = z3.Bool('monitor.known')
    latest = E.sym('monitor.latest_update_id', 'u64')
    upd_id = E.sym('update.update_id', 'u64')
    uc = E.new_cell()
    mem[uc] = X.Adt('ChannelMonitorUpdate', {CU.index('update_id'): upd_id, CU.index('channel_id'): X.En('Option', 1, {1: [X.Opaque('channel id')]})}, base='update')
    events, order = [], []
    apply_ok = z3.Bool('monitor.update_applies')
    post_close = z3.Bool('monitor.no_further_updates_allowed')
    ST = lambda n: D.variant_index('ChannelMonitorUpdateStatus', n)
    status = E.sym('persister.status', 'u8')
    E.assume(z3.Or(status.t == ST('Completed'), status.t == ST('InProgress')))          # UnrecoverableError: the node stops (panic by design)

    def h_apply(E_, m, func, argv, guard, mem_, dty, caller):
        order.append(('apply', X.zbool(guard), None))
        return X.En('Result', z3.If(apply_ok, 0, 1), {0: [X.UNIT], 1: [X.UNIT]})

    def h_persist(E_, m, func, argv, guard, mem_, dty, caller):
        order.append(('persist', X.zbool(guard), X.zint(argv[2].d) == 1))
        return X.En('ChannelMonitorUpdateStatus', status.t, {})
    for rx, h in _lock_stubs(E, pend_c, holder_c, known, events, latest) + [
            (r'ChannelMonitor::<.*>::update_monitor::<', h_apply),
            (r' as Persist<.*>>::update_persisted_channel$', h_persist),
            (r'ChannelMonitor::<.*>::no_further_updates_allowed$', lambda *a: X.B(post_close)),
            (r'ChannelMonitorUpdate::internal_renegotiated_funding_data$', lambda *a: X.Opaque('funding data')),
            (r'ChannelId as PartialEq>::eq$', lambda *a: X.B(True)),
            (r'Option::<ChannelId>::unwrap$', lambda *a: X.Opaque('channel id')),
            (r'ChannelMonitorUpdateStatus as PartialEq>::eq$', lambda E_, m, func, argv, guard, mem_, dty, caller: X.B(X.zint(_deref(E, argv[0], mem_).d) == X.zint(_deref(E, argv[1], mem_).d))),
            (r'IntoIterator>::into_iter$', lambda *a: X.It('list', extra=([], 0)))]:
        E.models.insert(0, (re.compile(rx) if isinstance(rx, str) else rx, h))
    rv0, ret0, m_ret, raised, m_ev = run_until_event(S, E, f, [E.sym('self', f.params[0][1], mem), X.Opaque('channel id'), X.Ref(uc)], mem)
    # the deferred-completion branch (post-close channel) ends in `ChannelMonitorUpdateStatus::InProgress` after raising the event
    returned = X.zbool(ret0) if rv0 is not None else z3.BoolVal(False)
    rv = X.En('ChannelMonitorUpdateStatus', z3.If(raised, ST('InProgress'), X.zint(rv0.d) if rv0 is not None else ST('InProgress')), {})
    after = E.merge(raised, m_ev[pend_c], m_ret[pend_c]) if rv0 is not None else m_ev[pend_c]
    mem = m_ret if rv0 is not None else m_ev
    in_progress = status.t == ST('InProgress')
    if not isinstance(after, X.Seq) or not after.prefix:
        raise X.Unsupported('pending list after update_channel_internal is %r' % (after,))
    applies = [o for o in order if o[0] == 'apply']
    persists = [o for o in order if o[0] == 'persist']
    pre = [known, z3.Implies(z3.Not(apply_ok), post_close)]            # (update_monitor fails only on a post-close monitor: debug-asserted in the code)
    prove(S, ids[0], E, pre, z3.And(after.n == n0 + z3.If(in_progress, 1, 0),
                                    z3.Implies(in_progress, after.elems[n0].t == upd_id.t if len(after.elems) > n0 else False),
                                    *[after.elems[i].t == pend[i].t for i in range(n0)],
                                    z3.Implies(z3.And(z3.Not(in_progress), apply_ok, z3.Not(post_close)), X.zint(rv.d) == ST('Completed')),
                                    z3.Implies(in_progress, X.zint(rv.d) == ST('InProgress')),
                                    z3.Implies(z3.Or(z3.Not(apply_ok), post_close), X.zint(rv.d) == ST('InProgress'))),
          'an update whose persistence is in progress is appended to the channel\'s pending list (and only then), earlier pending entries stay, and the caller is told Completed only if the update applied, was persisted at once and the channel is not post-close',
          bounds='arbitrary update id, two earlier pending updates, persister answering Completed or InProgress')
    prove(S, ids[1], E, pre, z3.And(z3.BoolVal(len(applies) == 1), applies[0][1] if applies else False, z3.PbEq([(p[1], 1) for p in persists], 1) if persists else False,
                                    *[z3.Implies(p[1], p[2] == apply_ok) for p in persists],
                                    z3.BoolVal(all(order.index(a_) < order.index(p_) for a_ in applies for p_ in persists))),
          'the update is applied to the in-memory monitor exactly once and BEFORE the persister is invoked, and the persister gets the update itself iff it applied (otherwise the whole monitor)')
    S.no_panic(ids[2], E, pre, 'no panic for a registered monitor and a persister that does not report an unrecoverable error', only=lambda p: 'overflow' in p[1] or 'index' in p[1])
    S.witness(ids[3], E, pre + [in_progress], z3.BoolVal(True))


def _deref(E, v, mem):
    while isinstance(v, X.Ref):
        v = E.read_path(mem[v.cell], v.path, mem, True, 'deref')
    return v


def channel_restore(S, D):
    """C09.d"""
    ids = ['C09.d.only_held_messages', 'C09.d.flags_cleared', 'C09.d.witness']
    if all(S._skip(o) for o in ids):
        return
    f = S.fn('monitor_updating_restored')
    E = S.engine(unwind=1)
    mem = {}
    args = [E.sym('a%d' % n, t, mem) if t.startswith('&') else X.Opaque('arg%d' % n) for n, t in f.params]
    run = X.FnRun(E, f, args, True, mem)
    start = [b for b, (body, t) in f.blocks.items() if t[0] == 'call' and t[2].endswith('ChannelState::is_peer_disconnected')]
    if len(start) != 1:
        raise X.Unsupported('monitor_updating_restored: %d peer-disconnected tests' % len(start))
    CC = D.struct_fields('ChannelContext')
    FC = D.struct_fields('FundedChannel')
    pend_raa, pend_cs = z3.Bool('held.revoke_and_ack'), z3.Bool('held.commitment_signed')
    sig_raa, sig_cs = z3.Bool('signer_pending.revoke_and_ack'), z3.Bool('signer_pending.commitment_update')
    disconnected = z3.Bool('peer.disconnected')
    RO = lambda n: D.variant_index('RAACommitmentOrder', n)
    order = E.sym('resend_order', 'u8')
    E.assume(z3.Or(order.t == 0, order.t == 1))
    ctx = X.Adt('ChannelContext', {CC.index('monitor_pending_revoke_and_ack'): X.B(pend_raa), CC.index('monitor_pending_commitment_signed'): X.B(pend_cs),
                                   CC.index('signer_pending_revoke_and_ack'): X.B(sig_raa), CC.index('signer_pending_commitment_update'): X.B(sig_cs),
                                   CC.index('resend_order'): X.En('RAACommitmentOrder', order.t, {})}, base='ctx')
    chan_c = E.new_cell()
    mem[chan_c] = X.Adt('FundedChannel', {FC.index('context'): ctx}, base='chan')
    raa_avail, cs_avail = z3.Bool('signer.raa_available'), z3.Bool('signer.commitment_available')
    for rx, h in [
        (r'ChannelState::is_peer_disconnected$', lambda *a: X.B(disconnected)),
        (r'FundedChannel::<.*>::get_last_revoke_and_ack::<', lambda *a: X.En('Option', z3.If(raa_avail, 1, 0), {1: [X.Opaque('revoke_and_ack')]})),
        (r'FundedChannel::<.*>::get_last_commitment_update_for_send::<', lambda *a: X.En('Result', z3.If(cs_avail, 0, 1), {0: [X.Opaque('commitment update')], 1: [X.UNIT]})),
        (r'RAACommitmentOrder as PartialEq>::eq$', lambda E_, m, func, argv, guard, mem_, dty, caller: X.B(X.zint(_deref(E, argv[0], mem_).d) == X.zint(_deref(E, argv[1], mem_).d))),
        (r'RAACommitmentOrder as Clone>::clone$', lambda E_, m, func, argv, guard, mem_, dty, caller: _deref(E, argv[0], mem_)),
        (r'ChannelContext::<.*>::channel_id$', lambda *a: X.Opaque('channel id')),
    ]:
        E.models.insert(0, (re.compile(rx), h))
    self_local = f.params[0][0]
    E.depth += 1
    rv, ret, m2 = run.run(start_bb=start[0], init={self_local: X.Ref(chan_c)})
    E.depth -= 1
    if rv is None:
        raise X.Unsupported('monitor_updating_restored: the region does not return (%s)' % [w for g_, w in E.unsupported][:3])
    MR = D.struct_fields('MonitorRestoreUpdates')
    raa = E.read_path(rv, (('f', MR.index('raa'), 'Option'),), m2, True, 'spec')
    cu = E.read_path(rv, (('f', MR.index('commitment_update'), 'Option'),), m2, True, 'spec')
    ordv = E.read_path(rv, (('f', MR.index('commitment_order'), 'RAACommitmentOrder'),), m2, True, 'spec')
    raa_some, cu_some = X.zint(raa.d) == 1, X.zint(cu.d) == 1
    ctx2 = E.read_path(m2[chan_c], (('f', FC.index('context'), 'ChannelContext'),), m2, True, 'spec')
    fl = lambda nm: X.zbool(E.read_path(ctx2, (('f', CC.index(nm), 'bool'),), m2, True, 'spec').t)
    prove(S, ids[0], E, [X.zbool(ret)], z3.And(z3.Implies(raa_some, z3.And(pend_raa, z3.Not(disconnected))), z3.Implies(cu_some, z3.And(pend_cs, z3.Not(disconnected))),
                                               z3.Implies(z3.Not(disconnected), X.zint(ordv.d) == order.t),
                                               z3.Implies(z3.And(z3.Not(disconnected), pend_raa, raa_avail, z3.Not(z3.And(order.t == RO('CommitmentFirst'), sig_cs))), raa_some),
                                               z3.Implies(z3.And(z3.Not(disconnected), pend_cs, cs_avail, z3.Not(z3.And(order.t == RO('RevokeAndACKFirst'), sig_raa))), cu_some)),
          'when monitor updating is restored a revoke_and_ack / commitment update leaves only if that very message was being held for the update (and the peer is connected), every held message the signer can produce does leave unless the one that must precede it is still waiting for the signer, and they are ordered as recorded when they were held',
          bounds='region of monitor_updating_restored from the peer-connected test to its end, arbitrary channel state; message construction / signer availability free')
    prove(S, ids[1], E, [X.zbool(ret)], z3.And(z3.Not(fl('monitor_pending_revoke_and_ack')), z3.Not(fl('monitor_pending_commitment_signed'))),
          'the hold flags are cleared, so nothing is released a second time by a later completion')
    S.witness(ids[2], E, [X.zbool(ret), z3.Not(disconnected), pend_raa, pend_cs, raa_avail, cs_avail, z3.Not(sig_cs), z3.Not(sig_raa)], z3.And(raa_some, cu_some))
    S.validate('C09.validate', E, battery_binding(z3.BoolVal(True)), n=1, extra_vectors=[(1,)])


def manager_completion(S, D):
    """C09.c: ChannelManager::channel_monitor_updated (whole function, callees stubbed): what a Completed event from the
    chain monitor makes the manager do, with N in-flight updates of the channel."""
    for N in ((0, 1, 2) if S.tier == 'quick' else (0, 1, 2, 3)):
        tag = 'C09.c.n%d' % N
        ids = [tag + '.resume_only_when_none_in_flight', tag + '.nopanic', tag + '.witness']
        if all(S._skip(o) for o in ids):
            continue
        f = S.fn('channel_monitor_updated', first_param='ChannelManager')
        E = S.engine(unwind=N + 1)
        mem = {}
        CU = D.struct_fields('ChannelMonitorUpdate')
        uid = [E.sym('in_flight%d.update_id' % i, 'u64') for i in range(N)]
        ups = X.Seq([X.Adt('ChannelMonitorUpdate', {CU.index('update_id'): uid[i]}, base='upd%d' % i) for i in range(N)], N, 'ChannelMonitorUpdate')
        tup_c = E.new_cell()
        mem[tup_c] = X.Tup([X.Opaque('funding outpoint'), ups])
        peer_known, tracked, chan_open, awaiting = z3.Bool('peer.known'), z3.Bool('channel.has_in_flight_entry'), z3.Bool('channel.open_and_funded'), z3.Bool('channel.awaiting_monitor_update')
        has_high = z3.Bool('completed_id.given')
        high = E.sym('completed_id', 'u64')
        PS = D.struct_fields('PeerState')
        peer_c = E.new_cell()
        mem[peer_c] = X.Adt('PeerState', {}, base='peer_state')
        resumed, actions = [], []
        for rx, h in [
            (r'RwLock::<\(\)>::try_write$', lambda *a: X.En('Result', 1, {1: [X.Opaque('would block')]})),
            (r'FairRwLock::<.*>::read$', lambda *a: X.En('Result', 0, {0: [X.Opaque('peers')]})),
            (r'RwLockReadGuard<.*> as (?:std::ops::)?Deref>::deref$', lambda *a: X.Opaque('peers map')),
            (r'HashMap::<.*PublicKey, .*Mutex<PeerState<.*>>.*>::get::<', lambda *a: X.En('Option', z3.If(peer_known, 1, 0), {1: [X.Opaque('peer mutex')]})),
            (r'Mutex::<PeerState<.*>>::lock$', lambda *a: X.En('Result', 0, {0: [X.Ref(peer_c)]})),
            (r'MutexGuard<.*PeerState<.*>> as (?:std::ops::)?DerefMut>::deref_mut$', lambda *a: X.Ref(peer_c)),
            (r'BTreeMap::<.*ChannelId, \(.*OutPoint, .*Vec<ChannelMonitorUpdate>\)>::get_mut::<', lambda *a: X.En('Option', z3.If(tracked, 1, 0), {1: [X.Ref(tup_c)]})),
            (r'HashMap::<.*ChannelId, Channel<.*>.*>::get_mut::<', lambda *a: X.En('Option', z3.If(chan_open, 1, 0), {1: [X.Opaque('channel')]})),
            (r'Option::<&mut Channel<.*>>::and_then::<', lambda E_, m, func, argv, *a: argv[0]),
            (r'FundedChannel::<.*>::is_awaiting_monitor_update$', lambda *a: X.B(awaiting)),
            (r'ChannelManager::<.*>::try_resume_channel_post_monitor_update$', lambda E_, m, func, argv, guard, *a: (resumed.append(X.zbool(guard)), X.Opaque('completion data'))[1]),
            (r'ChannelManager::<.*>::check_free_peer_holding_cells$', lambda *a: X.Opaque('holding cell result')),
            (r'ChannelManager::<.*>::handle_post_monitor_update_chan_resume$', lambda *a: X.B(z3.Bool('resume.needs_persist'))),
            (r'ChannelManager::<.*>::handle_holding_cell_free_result$', lambda *a: X.UNIT),
            (r'BTreeMap::<.*ChannelId, .*Vec<MonitorUpdateCompletionAction>>::remove::<', lambda E_, m, func, argv, guard, *a: (actions.append(X.zbool(guard)), X.En('Option', E.sym('blocked_actions!%d' % next(E.nfresh), 'u8').t % 2, {1: [X.Seq([], E.sym('n_actions!%d' % next(E.nfresh), 'usize').t, 'action')]}))[1]),
            (r'ChannelManager::<.*>::handle_monitor_update_completion_actions::<', lambda *a: X.UNIT),
            (r'WithContext::<.*>::from$', lambda *a: X.Opaque('logger')),
            (r'^std::mem::drop::<', lambda *a: X.UNIT),
        ]:
            E.models.insert(0, (re.compile(rx), h))
        args = [E.sym('self', f.params[0][1], mem), X.Opaque('channel id'), X.En('Option', z3.If(has_high, 1, 0), {1: [high]}), X.Opaque('counterparty')]
        rv = S.call(E, f, args, mem)
        did_resume = z3.Or(*resumed) if resumed else z3.BoolVal(False)
        ran_actions = z3.Or(*actions) if actions else z3.BoolVal(False)
        left = [z3.Or(z3.Not(has_high), uid[i].t > high.t) for i in range(N)]
        any_left = z3.And(tracked, z3.Or(*left)) if N else z3.BoolVal(False)
        prove(S, ids[0], E, [], z3.And(z3.Implies(z3.Or(did_resume, ran_actions), z3.And(peer_known, z3.Not(any_left))),
                                       did_resume == z3.And(peer_known, z3.Not(any_left), chan_open, awaiting),
                                       ran_actions == z3.And(peer_known, z3.Not(any_left), z3.Not(chan_open)),
                                       z3.Implies(z3.Or(z3.Not(peer_known), any_left), z3.Not(X.zbool(rv.t)))),
              'a completion reported by the chain monitor resumes the channel (or runs the blocked post-update actions of a closed one) only when NO in-flight update above the completed id is left for that channel; while one is left nothing is released and nothing is changed',
              bounds='%d in-flight updates with arbitrary ids; maps, locks, the channel and the resume machinery stubbed' % N)
        S.no_panic(ids[1], E, [], 'total', only=lambda p: 'overflow' not in p[1])
        S.witness(ids[2], E, [peer_known, z3.Not(any_left), chan_open, awaiting], did_resume)


def preimage_update_ids(S, D):
    """C09.e: FundedChannel::get_update_fulfill_htlc_and_commit with N held-back (blocked) monitor updates: the preimage
    update, which must reach the chain::Watch at once, takes the id of the FIRST held-back update and every held-back
    update moves up by one - so the ids handed out stay strictly increasing and gap-free."""
    for N in ((0, 1, 2, 3) if S.tier == 'quick' else (0, 1, 2, 3, 4)):
        tag = 'C09.e.n%d' % N
        ids = [tag + '.ids_stay_gap_free', tag + '.witness']
        if all(S._skip(o) for o in ids):
            continue
        f = S.fn('get_update_fulfill_htlc_and_commit')
        E = S.engine(unwind=N + 1)
        mem = {}
        CC = D.struct_fields('ChannelContext')
        FC = D.struct_fields('FundedChannel')
        CU = D.struct_fields('ChannelMonitorUpdate')
        PU = D.struct_fields('PendingChannelMonitorUpdate')
        first = E.sym('first_blocked.update_id', 'u64')
        E.assume(first.t + N + 2 <= U64)
        uid = [X.I(first.t + i, 'u64') for i in range(N)]
        ups = X.Seq([X.Adt('PendingChannelMonitorUpdate', {PU.index('update'): X.Adt('ChannelMonitorUpdate', {CU.index('update_id'): uid[i]}, base='upd%d' % i)}, base='pend%d' % i) for i in range(N)], N, 'PendingChannelMonitorUpdate')
        latest0 = E.sym('channel.latest_monitor_update_id', 'u64')
        if N:
            E.assume(latest0.t == first.t + N - 1)       # ids are handed out consecutively: the last held-back one is the latest
        E.assume(latest0.t + 2 <= U64)
        ctx = X.Adt('ChannelContext', {CC.index('blocked_monitor_updates'): ups, CC.index('latest_monitor_update_id'): latest0}, base='ctx')
        chan_c = E.new_cell()
        mem[chan_c] = X.Adt('FundedChannel', {FC.index('context'): ctx}, base='chan')
        dup = z3.Bool('claim.duplicate')
        upd_blocked = z3.Bool('claim.update_blocked')
        UF = lambda n: D.variant_index('UpdateFulfillFetch', n)
        paused = []

        def h_fulfill(E_, m, func, argv, guard, mem_, dty, caller):
            # the real function takes the next id: latest_monitor_update_id += 1, update_id = that
            r = argv[0]
            ctxv = E.read_path(mem_[r.cell], r.path + (('f', FC.index('context'), 'ChannelContext'),), mem_, True, 'stub')
            cur = E.read_path(ctxv, (('f', CC.index('latest_monitor_update_id'), 'u64'),), mem_, True, 'stub')
            nxt = X.I(z3.If(dup, cur.t, cur.t + 1), 'u64')
            mem_[r.cell] = E.write_path(mem_[r.cell], r.path + (('f', FC.index('context'), 'ChannelContext'), ('f', CC.index('latest_monitor_update_id'), 'u64')), nxt, mem_, guard, 'stub')
            mu = X.Adt('ChannelMonitorUpdate', {CU.index('update_id'): X.I(cur.t + 1, 'u64'), CU.index('updates'): X.Seq([], 1, 'step')}, base='preimage_update')
            return X.En('UpdateFulfillFetch', z3.If(dup, UF('DuplicateClaim'), UF('NewClaim')), {UF('NewClaim'): [mu, E.sym('htlc_value_msat', 'u64'), X.B(upd_blocked)], UF('DuplicateClaim'): []})

        def h_build(E_, m, func, argv, guard, mem_, dty, caller):
            r = argv[0]
            ctxv = E.read_path(mem_[r.cell], r.path + (('f', FC.index('context'), 'ChannelContext'),), mem_, True, 'stub')
            cur = E.read_path(ctxv, (('f', CC.index('latest_monitor_update_id'), 'u64'),), mem_, True, 'stub')
            mem_[r.cell] = E.write_path(mem_[r.cell], r.path + (('f', FC.index('context'), 'ChannelContext'), ('f', CC.index('latest_monitor_update_id'), 'u64')), X.I(cur.t + 1, 'u64'), mem_, guard, 'stub')
            return X.Adt('ChannelMonitorUpdate', {CU.index('update_id'): X.I(cur.t + 1, 'u64'), CU.index('updates'): X.Seq([], 1, 'step')}, base='commitment_update')
        for rx, h in [
            (r'FundedChannel::<.*>::get_update_fulfill_htlc::<', h_fulfill),
            (r'FundedChannel::<.*>::build_commitment_no_status_check::<', h_build),
            (r'FundedChannel::<.*>::monitor_updating_paused::<', lambda E_, m, func, argv, guard, *a: (paused.append(X.zbool(guard)), X.UNIT)[1]),
            (r'Vec::<ChannelMonitorUpdateStep>::append$', lambda *a: X.UNIT),
            (r'^format$|^must_use::<', lambda *a: X.Opaque('string')),
        ]:
            E.models.insert(0, (re.compile(rx), h))
        args = [X.Ref(chan_c), X.Opaque('htlc id'), X.Opaque('preimage'), X.Opaque('payment info'), X.Opaque('attribution data'), X.Opaque('logger')]
        rv = S.call(E, f, args, mem)
        UC = lambda n: D.variant_index('UpdateFulfillCommitFetch', n)
        is_new = X.zint(rv.d) == UC('NewClaim')
        out = E.read_path(rv, (('v', 'NewClaim'), ('f', 0, 'ChannelMonitorUpdate'), ('f', CU.index('update_id'), 'u64')), mem, True, 'spec')
        ctx2 = E.read_path(mem[chan_c], (('f', FC.index('context'), 'ChannelContext'),), mem, True, 'spec')
        after = E.read_path(ctx2, (('f', CC.index('blocked_monitor_updates'), 'Vec'),), mem, True, 'spec')
        latest2 = E.read_path(ctx2, (('f', CC.index('latest_monitor_update_id'), 'u64'),), mem, True, 'spec')
        moved = []
        if N:
            if not isinstance(after, X.Seq):
                raise X.Unsupported('blocked updates after the call: %r' % (after,))
            for i in range(N):
                u = E.read_path(after.elems[i], (('f', PU.index('update'), 'ChannelMonitorUpdate'), ('f', CU.index('update_id'), 'u64')), mem, True, 'spec')
                moved.append(u.t == first.t + i + 1)
        handed = (first.t if N else latest0.t + 1)
        # debug builds assert that a held-back update implies update_blocked; the claim is about executions that pass it
        prove(S, ids[0], E, [z3.Not(dup)] + ([upd_blocked] if N else []), z3.And(is_new, out.t == handed, *moved, latest2.t >= handed,
                                                                       z3.Implies(N > 0, latest2.t == first.t + N)),
                'a learned preimage is handed to the chain::Watch at once under the next id in sequence - the id of the first held-back update when some are held back, each of which moves up by one - so update ids stay strictly increasing and gap-free in the order they reach the chain::Watch',
                given_no_panic=True,
                bounds='%d held-back updates with consecutive ids; get_update_fulfill_htlc / build_commitment_no_status_check stubbed as "take the next id"' % N)
        S.witness(ids[1], E, [z3.Not(dup)] + ([upd_blocked] if N else []), is_new)


def deferred_flush(S, D):
    """C09.f: ChainMonitor::flush (deferred mode), one queued operation: completion is signalled to the ChannelManager
    only if the persister reported Completed for that very operation."""
    ids = ['C09.f.completed_only_if_persisted', 'C09.f.witness']
    if all(S._skip(o) for o in ids):
        return
    f = S.fn('flush', first_param='ChainMonitor')
    E = S.engine(unwind=2)
    mem = {}
    CU = D.struct_fields('ChannelMonitorUpdate')
    PO = lambda n: D.variant_index('PendingMonitorOp', n)
    ST = lambda n: D.variant_index('ChannelMonitorUpdateStatus', n)
    kind = E.sym('op.kind', 'u8')
    E.assume(z3.Or(kind.t == PO('NewMonitor'), kind.t == PO('Update')))
    have = z3.Bool('queue.nonempty')
    upd_id, mon_id = E.sym('op.update.update_id', 'u64'), E.sym('op.monitor.latest_update_id', 'u64')
    status = E.sym('persister.status', 'u8')
    E.assume(z3.Or(status.t == ST('Completed'), status.t == ST('InProgress')))
    signalled = []
    popped = [0]

    def h_pop(E_, m, func, argv, guard, mem_, dty, caller):
        popped[0] += 1
        op = X.En('PendingMonitorOp', kind.t, {PO('NewMonitor'): [X.Opaque('channel id'), X.Opaque('monitor')],
                                               PO('Update'): [X.Opaque('channel id'), X.Adt('ChannelMonitorUpdate', {CU.index('update_id'): upd_id}, base='queued_update')]})
        return X.En('Option', z3.If(have, 1, 0), {1: [op]})
    for rx, h in [
        (r'Mutex::<\(\)>::lock$', lambda *a: X.En('Result', 0, {0: [X.Opaque('flush guard')]})),
        (r'Mutex::<VecDeque<PendingMonitorOp<.*>>>::lock$', lambda *a: X.En('Result', 0, {0: [X.Opaque('queue guard')]})),
        (r'MutexGuard<.*VecDeque<PendingMonitorOp<.*>>> as (?:std::ops::)?DerefMut>::deref_mut$', lambda *a: X.Opaque('queue')),
        (r'VecDeque::<PendingMonitorOp<.*>>::pop_front$', h_pop),
        (r'ChannelMonitor::<.*>::get_latest_update_id$', lambda *a: mon_id),
        (r'ChainMonitor::<.*>::watch_channel_internal$', lambda *a: X.En('Result', 0, {0: [X.En('ChannelMonitorUpdateStatus', status.t, {})]})),
        (r'ChainMonitor::<.*>::update_channel_internal$', lambda *a: X.En('ChannelMonitorUpdateStatus', status.t, {})),
        (r'ChainMonitor::<.*>::channel_monitor_updated$', lambda E_, m, func, argv, guard, *a: (signalled.append((X.zbool(guard), argv[2])), X.En('Result', 0, {0: [X.UNIT]}))[1]),
        (r'Notifier::notify$', lambda *a: X.UNIT),
        (r'Arc<Notifier> as (?:std::ops::)?Deref>::deref$', lambda *a: X.Opaque('notifier')),
        (r'^format$|^must_use::<', lambda *a: X.Opaque('string')),
        (r'WithChannelMonitor::from::<|WithContext::<.*>::from$', lambda *a: X.Opaque('logger')),
        (r'Arguments::<.*>::from_str$|Arguments::<.*>::new', lambda *a: X.Opaque('fmt args')),
        (r'Record::<.*>::new', lambda *a: X.Opaque('log record')),
        (r'Logger>::log$', lambda *a: X.UNIT),
        (r'Argument::<.*>::new_', lambda *a: X.Opaque('fmt arg')),
        (r'^std::mem::drop::<', lambda *a: X.UNIT),
    ]:
        E.models.insert(0, (re.compile(rx), h))
    args = [E.sym('self', f.params[0][1], mem), X.I(1, 'usize'), X.Opaque('logger')]
    S.call(E, f, args, mem)
    n_sig = z3.Sum([z3.If(g, 1, 0) for g, v in signalled]) if signalled else z3.IntVal(0)
    want_id = z3.If(kind.t == PO('NewMonitor'), mon_id.t, upd_id.t)
    prove(S, ids[0], E, [have], z3.And(n_sig == z3.If(status.t == ST('Completed'), 1, 0), *[z3.Implies(g, X.zint(v.t) == want_id) for g, v in signalled]),
          'flushing a queued operation of a deferred ChainMonitor signals completion to the ChannelManager exactly when the persister reported Completed for that operation - a new monitor or an update whose write is still in progress stays pending until channel_monitor_updated is called for it - and it signals the id of that very operation',
          given_no_panic=True, bounds='one queued operation (new monitor or update), persister answering Completed or InProgress; watch_channel_internal / update_channel_internal stubbed')
    S.witness(ids[1], E, [have, status.t == ST('InProgress')], n_sig == 0)
