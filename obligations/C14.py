"""C14 - engine K (Kani) harnesses, see harness/src/c14.rs and engine_k/harnesses.json, plus an engine M obligation on the
order in which the final hop wraps its fulfil attribution data (C14.m)"""
import re
import z3
from engine_m import exec as X
from engine_m.session import Binding
from engine_k import runner as K

EVIDENCE = dict(assumptions=['kernel only (narrow): AttributionData array layout (shift_left/shift_right/hold times/HMAC slots) (Kani); the order in which the final hop of a payment builds its fulfil attribution data in ChannelManager::claim_payment_internal (region of the claim loop, process_fulfill_attribution_data a recording stub; engine M); onion construction and peeling, HMAC/ChaCha/ECDH and failure-code attribution are cryptographic or 1300-byte-buffer bound and outside the claim'])


def run(S):
    final_hop_attribution(S, S.decls())
    K.run_property(S, 'C14')


def phantom_binding(claim):
    """replay (oracle_tu phantom_fulfill_battery): a payment to a phantom node over a real channel is claimed; the sender
    must be able to read the attribution data of both hops (the real receiving node and the phantom hop)"""
    c = claim if z3.is_expr(claim) else X.zbool(claim)
    return Binding('phantom_fulfill_battery', [z3.IntVal(1)], [z3.If(c, 0, 1)], parse=lambda t: [0 if t[0] == '0' else 1], line_fn=lambda v: '1',
                   which='oracle_tu', via_solver=True, domain=[(1, 1)], panic=False)


def final_hop_attribution(S, D):
    """C14.m: in the claim loop of claim_payment_internal the recipient creates the fulfil attribution data as the LAST hop:
    the innermost hop wraps first. For a payment received through a phantom node the phantom hop is the last hop, so the
    data is created under the phantom shared secret and then processed once more, as the real node, under the secret of
    the incoming packet - what the sender, unwrapping from the first hop on, expects."""
    ids = ['C14.m.final_hop_wraps_innermost_first', 'C14.m.witness']
    if all(S._skip(o) for o in ids):
        return
    f = S.fn('claim_payment_internal')
    E = S.engine(unwind=1)
    mem = {}
    calls = lambda rx: [b for b, (bd, t) in f.blocks.items() if t[0] == 'call' and re.search(rx, t[2])]
    raa = calls(r'Option::<&Arc<.*PendingMPPClaim>>>::map::<(?:\w+::)*RAAMonitorUpdateBlockingAction,')
    claim = calls(r'ChannelManager::<.*>::claim_funds_from_hop::<')
    if len(raa) != 1 or len(claim) != 1:
        raise X.Unsupported('claim_payment_internal: %d raa-blocker maps, %d claim_funds_from_hop calls' % (len(raa), len(claim)))
    start, stop = f.blocks[raa[0]][1][4], f.blocks[claim[0]][1][4]
    # the local holding the HTLC being claimed: the one whose .mpp_part.prev_hop the region reads
    seen, frontier, locs = set(), [start], set()
    while frontier:
        b = frontier.pop()
        if b in seen or b == stop:
            continue
        seen.add(b)
        bd, t = f.blocks[b]
        for m in re.finditer(r"\('field', \('field', \('local', (\d+)\), 0, '[^']*MppPart'\), 0, '[^']*HTLCPreviousHopData'\)", str(bd) + str(t)):
            locs.add(int(m.group(1)))
        if t[0] == 'call' and t[4] is not None:
            frontier.append(t[4])
        elif t[0] == 'goto':
            frontier.append(t[1])
        elif t[0] == 'switch':
            frontier.extend(list(t[2].values()) + ([t[3]] if t[3] is not None else []))
        elif t[0] in ('drop', 'assert'):
            frontier.append(t[-1])
    if len(locs) != 1:
        raise X.Unsupported('claim_payment_internal: HTLC local of the claim loop: %r' % (locs,))
    CH, MP, PH = D.struct_fields('ClaimableHTLC'), D.struct_fields('MppPart'), D.struct_fields('HTLCPreviousHopData')
    has_phantom = z3.Bool('htlc.received_through_phantom_node')
    prev = X.Adt('HTLCPreviousHopData', {PH.index('phantom_shared_secret'): X.En('Option', z3.If(has_phantom, 1, 0), {1: [X.Adt('SharedSecretBytes', {}, base='phantom_shared_secret')]}),
                                         PH.index('incoming_packet_shared_secret'): X.Adt('SharedSecretBytes', {}, base='incoming_packet_shared_secret')}, base='prev_hop')
    htlc = X.Adt('ClaimableHTLC', {CH.index('mpp_part'): X.Adt('MppPart', {MP.index('prev_hop'): prev}, base='mpp_part')}, base='htlc')
    made, claimed = [], []

    def secret_of(E_, v, mem_):
        while isinstance(v, X.Ref):
            v = E_.read_path(mem_[v.cell], v.path, mem_, True, 'secret')
        b = getattr(v, 'base', None)
        if getattr(v, 'alt', None) is not None or b not in ('phantom_shared_secret', 'incoming_packet_shared_secret'):
            raise X.Unsupported('shared secret handed to process_fulfill_attribution_data: %r' % (v,))
        return 0 if b == 'phantom_shared_secret' else 1

    def h_process(E_, m, func, argv, guard, mem_, dty, caller):
        k = len(made)
        made.append((X.zbool(guard), argv[0], secret_of(E_, argv[1], mem_), argv[2]))
        return X.Adt('AttributionData', {}, base='attribution%d' % k)

    def h_claim(E_, m, func, argv, guard, mem_, dty, caller):
        claimed.append((X.zbool(guard), argv[4]))
        return X.UNIT
    for rx, h in [
        (r'^(?:\w+::)*process_fulfill_attribution_data$', h_process),
        (r'ChannelManager::<.*>::claim_funds_from_hop::<', h_claim),
        (r'Option<PaymentClaimDetails> as Clone>::clone$', lambda *a: X.Opaque('payment info')),
    ]:
        E.models.insert(0, (re.compile(rx), h))
    runr = X.FnRun(E, f, [X.Opaque('self'), X.Opaque('preimage'), X.Opaque('custom tlvs known')][:len(f.params)], True, mem)
    E.depth += 1
    runr.run(start_bb=start, init={list(locs)[0]: htlc}, stop_bbs=(stop,))
    E.depth -= 1
    ident = lambda v: z3.Int('ident.' + v.base) if getattr(v, 'base', None) else None

    def data_in(v):          # (is_some, identity of the wrapped data) of an Option<AttributionData> argument
        if not isinstance(v, X.En):
            raise X.Unsupported('attribution data argument %r' % (v,))
        p = v.vs.get(1, [None])[0]
        return X.zint(v.d) == 1, (ident(p) if p is not None and getattr(p, 'alt', None) is None else None), p
    # expected: phantom -> call A(None, phantom secret, 0) then call B(Some(A's result), incoming secret, 0); else only B(None, incoming, 0)
    n_calls = z3.Sum([z3.If(g, 1, 0) for g, *_ in made]) if made else z3.IntVal(0)
    conj = [n_calls == z3.If(has_phantom, 2, 1)]
    first_under_phantom = []
    for k, (g, a0, sec, hold) in enumerate(made):
        some, idv, p = data_in(a0)
        conj.append(z3.Implies(g, X.zint(hold.t) == 0))
        # a call that creates fresh data (None) is the innermost hop's: under the phantom secret iff there is a phantom hop
        conj.append(z3.Implies(z3.And(g, z3.Not(some)), (sec == 0) == has_phantom if True else True))
        # a call that wraps existing data is the real node's, under the incoming packet's secret, and only with a phantom hop
        conj.append(z3.Implies(z3.And(g, some), z3.And(has_phantom, sec == 1)))
    n_claim = z3.Sum([z3.If(g, 1, 0) for g, v in claimed]) if claimed else z3.IntVal(0)
    conj.append(n_claim == 1)
    for g, v in claimed:
        some, idv, p = data_in(v)
        conj.append(z3.Implies(g, some))
    # the data handed to the claim is what the LAST call (under the incoming packet's secret) returned
    last_ok = []
    for g, v in claimed:
        some, idv, p = data_in(v)
        opts = []
        for k, (gm, a0, sec, hold) in enumerate(made):
            if sec == 1 and p is not None:
                opts.append(z3.And(gm, _same(p, 'attribution%d' % k)))
        last_ok.append(z3.Implies(g, z3.Or(*opts) if opts else False))
    S.prove(ids[0], E, [], z3.And(*conj, *last_ok),
            'claiming an HTLC, the recipient creates the fulfil attribution data as the last hop of the path and wraps outwards: received through a phantom node, the data is created under the phantom hop\'s shared secret and then processed again under the incoming packet\'s shared secret (whose result goes into update_fulfill_htlc); without a phantom hop it is created under the incoming packet\'s secret; the hold time reported is zero',
            [phantom_binding(z3.BoolVal(False))],
            bounds='region of claim_payment_internal: the claim-loop body from the RAA-blocker to claim_funds_from_hop, one HTLC with or without a phantom secret; process_fulfill_attribution_data a recording stub')
    S.witness(ids[1], E, [has_phantom], n_calls == 2)
    S.validate('C14.m.validate', E, phantom_binding(z3.BoolVal(True)), n=1, extra_vectors=[(1,)])


def _same(v, base):
    if getattr(v, 'alt', None) is not None:
        c_, a, b = v.alt
        return z3.If(X.zbool(c_), _same(a, base), _same(b, base))
    return z3.BoolVal(getattr(v, 'base', None) == base)
