"""C14 - engine K (Kani) harnesses, see harness/src/c14.rs and engine_k/harnesses.json"""
from engine_k import runner as K

EVIDENCE = dict(assumptions=['kernel only (narrow): AttributionData array layout (shift_left/shift_right/hold times/HMAC slots); onion construction and peeling, HMAC/ChaCha/ECDH and failure-code attribution are cryptographic or 1300-byte-buffer bound and outside the claim'])


def run(S):
    K.run_property(S, 'C14')
