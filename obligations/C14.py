"""C14 - engine K (Kani) harnesses, see harness/src/c14.rs and engine_k/harnesses.json, plus an engine M obligation on the
order in which the final hop wraps its fulfil attribution data (C14.m)"""
import re
import z3
from engine_m import exec as X
from engine_m.session import Binding
from engine_k import runner as K

EVIDENCE = dict(assumptions=['kernel only (narrow): AttributionData array layout (shift_left/shift_right/hold times/HMAC slots) (Kani); the order in which the final hop of a payment builds its fulfil attribution data in ChannelManager::claim_payment_internal (region of the claim loop, process_fulfill_attribution_data a recording stub; engine M); the HMAC position at which the sender verifies each hop of the attribution data of a fulfil (decode_fulfill_attribution_data, path length <= 27, HMAC verification / decryption stubs; engine M); the record order of the TLV stream <OutboundOnionPayload as Writeable>::write produces, per variant, leaf values and lengths abstracted, <= 2 (quick) / 3 (thorough) custom TLVs (engine M); onion construction and peeling, HMAC/ChaCha/ECDH and failure-code attribution are cryptographic or 1300-byte-buffer bound and outside the claim'])


def run(S):
    final_hop_attribution(S, S.decls())
    fulfill_decode_positions(S, S.decls())
    payload_tlv_order(S, S.decls())
    K.run_property(S, 'C14')


def phantom_binding(claim):
    """replay (oracle_tu phantom_fulfill_battery): a payment to a phantom node over a real channel is claimed; the sender
    must be able to read the attribution data of both hops (the real receiving node and the phantom hop)"""
    c = claim if z3.is_expr(claim) else X.zbool(claim)
    return Binding('phantom_fulfill_battery', [z3.IntVal(1)], [z3.If(c, 0, 1)], parse=lambda t: [0 if t[0] == '0' else 1], line_fn=lambda v: '1',
                   which='oracle_tu', via_solver=True, domain=[(1, 1)], panic=False)


def final_hop_attribution(S, D):
    """C14.m: in the claim loop of claim_payment_internal the recipient creates the fulfil attribution data as the LAST hop:
    the innermost hop wraps first. For a payment received through a phantom node the phantom hop is the last hop, so the
    data is created under the phantom shared secret and then processed once more, as the real node, under the secret of
    the incoming packet - what the sender, unwrapping from the first hop on, expects."""
    ids = ['C14.m.final_hop_wraps_innermost_first', 'C14.m.witness']
    if all(S._skip(o) for o in ids):
        return
    f = S.fn('claim_payment_internal')
    E = S.engine(unwind=1)
    mem = {}
    calls = lambda rx: [b for b, (bd, t) in f.blocks.items() if t[0] == 'call' and re.search(rx, t[2])]
    raa = calls(r'Option::<&Arc<.*PendingMPPClaim>>>::map::<(?:\w+::)*RAAMonitorUpdateBlockingAction,')
    claim = calls(r'ChannelManager::<.*>::claim_funds_from_hop::<')
    if len(raa) != 1 or len(claim) != 1:
        raise X.Unsupported('claim_payment_internal: %d raa-blocker maps, %d claim_funds_from_hop calls' % (len(raa), len(claim)))
    start, stop = f.blocks[raa[0]][1][4], f.blocks[claim[0]][1][4]
    # the local holding the HTLC being claimed: the one whose .mpp_part.prev_hop the region reads
    seen, frontier, locs = set(), [start], set()
    while frontier:
        b = frontier.pop()
        if b in seen or b == stop:
            continue
        seen.add(b)
        bd, t = f.blocks[b]
        for m in re.finditer(r"\('field', \('field', \('local', (\d+)\), 0, '[^']*MppPart'\), 0, '[^']*HTLCPreviousHopData'\)", str(bd) + str(t)):
            locs.add(int(m.group(1)))
        if t[0] == 'call' and t[4] is not None:
            frontier.append(t[4])
        elif t[0] == 'goto':
            frontier.append(t[1])
        elif t[0] == 'switch':
            frontier.extend(list(t[2].values()) + ([t[3]] if t[3] is not None else []))
        elif t[0] in ('drop', 'assert'):
            frontier.append(t[-1])
    if len(locs) != 1:
        raise X.Unsupported('claim_payment_internal: HTLC local of the claim loop: %r' % (locs,))
    CH, MP, PH = D.struct_fields('ClaimableHTLC'), D.struct_fields('MppPart'), D.struct_fields('HTLCPreviousHopData')
    has_phantom = z3.Bool('htlc.received_through_phantom_node')
    prev = X.Adt('HTLCPreviousHopData', {PH.index('phantom_shared_secret'): X.En('Option', z3.If(has_phantom, 1, 0), {1: [X.Adt('SharedSecretBytes', {}, base='phantom_shared_secret')]}),
                                         PH.index('incoming_packet_shared_secret'): X.Adt('SharedSecretBytes', {}, base='incoming_packet_shared_secret')}, base='prev_hop')
    htlc = X.Adt('ClaimableHTLC', {CH.index('mpp_part'): X.Adt('MppPart', {MP.index('prev_hop'): prev}, base='mpp_part')}, base='htlc')
    made, claimed = [], []

    def secret_of(E_, v, mem_):
        while isinstance(v, X.Ref):
            v = E_.read_path(mem_[v.cell], v.path, mem_, True, 'secret')
        b = getattr(v, 'base', None)
        if getattr(v, 'alt', None) is not None or b not in ('phantom_shared_secret', 'incoming_packet_shared_secret'):
            raise X.Unsupported('shared secret handed to process_fulfill_attribution_data: %r' % (v,))
        return 0 if b == 'phantom_shared_secret' else 1

    def h_process(E_, m, func, argv, guard, mem_, dty, caller):
        k = len(made)
        made.append((X.zbool(guard), argv[0], secret_of(E_, argv[1], mem_), argv[2]))
        return X.Adt('AttributionData', {}, base='attribution%d' % k)

    def h_claim(E_, m, func, argv, guard, mem_, dty, caller):
        claimed.append((X.zbool(guard), argv[4]))
        return X.UNIT
    for rx, h in [
        (r'^(?:\w+::)*process_fulfill_attribution_data$', h_process),
        (r'ChannelManager::<.*>::claim_funds_from_hop::<', h_claim),
        (r'Option<PaymentClaimDetails> as Clone>::clone$', lambda *a: X.Opaque('payment info')),
    ]:
        E.models.insert(0, (re.compile(rx), h))
    runr = X.FnRun(E, f, [X.Opaque('self'), X.Opaque('preimage'), X.Opaque('custom tlvs known')][:len(f.params)], True, mem)
    E.depth += 1
    runr.run(start_bb=start, init={list(locs)[0]: htlc}, stop_bbs=(stop,))
    E.depth -= 1
    ident = lambda v: z3.Int('ident.' + v.base) if getattr(v, 'base', None) else None

    def data_in(v):          # (is_some, identity of the wrapped data) of an Option<AttributionData> argument
        if not isinstance(v, X.En):
            raise X.Unsupported('attribution data argument %r' % (v,))
        p = v.vs.get(1, [None])[0]
        return X.zint(v.d) == 1, (ident(p) if p is not None and getattr(p, 'alt', None) is None else None), p
    # expected: phantom -> call A(None, phantom secret, 0) then call B(Some(A's result), incoming secret, 0); else only B(None, incoming, 0)
    n_calls = z3.Sum([z3.If(g, 1, 0) for g, *_ in made]) if made else z3.IntVal(0)
    conj = [n_calls == z3.If(has_phantom, 2, 1)]
    first_under_phantom = []
    for k, (g, a0, sec, hold) in enumerate(made):
        some, idv, p = data_in(a0)
        conj.append(z3.Implies(g, X.zint(hold.t) == 0))
        # a call that creates fresh data (None) is the innermost hop's: under the phantom secret iff there is a phantom hop
        conj.append(z3.Implies(z3.And(g, z3.Not(some)), (sec == 0) == has_phantom if True else True))
        # a call that wraps existing data is the real node's, under the incoming packet's secret, and only with a phantom hop
        conj.append(z3.Implies(z3.And(g, some), z3.And(has_phantom, sec == 1)))
    n_claim = z3.Sum([z3.If(g, 1, 0) for g, v in claimed]) if claimed else z3.IntVal(0)
    conj.append(n_claim == 1)
    for g, v in claimed:
        some, idv, p = data_in(v)
        conj.append(z3.Implies(g, some))
    # the data handed to the claim is what the LAST call (under the incoming packet's secret) returned
    last_ok = []
    for g, v in claimed:
        some, idv, p = data_in(v)
        opts = []
        for k, (gm, a0, sec, hold) in enumerate(made):
            if sec == 1 and p is not None:
                opts.append(z3.And(gm, _same(p, 'attribution%d' % k)))
        last_ok.append(z3.Implies(g, z3.Or(*opts) if opts else False))
    S.prove(ids[0], E, [], z3.And(*conj, *last_ok),
            'claiming an HTLC, the recipient creates the fulfil attribution data as the last hop of the path and wraps outwards: received through a phantom node, the data is created under the phantom hop\'s shared secret and then processed again under the incoming packet\'s shared secret (whose result goes into update_fulfill_htlc); without a phantom hop it is created under the incoming packet\'s secret; the hold time reported is zero',
            [phantom_binding(z3.BoolVal(False))],
            bounds='region of claim_payment_internal: the claim-loop body from the RAA-blocker to claim_funds_from_hop, one HTLC with or without a phantom secret; process_fulfill_attribution_data a recording stub')
    S.witness(ids[1], E, [has_phantom], n_calls == 2)
    S.validate('C14.m.validate', E, phantom_binding(z3.BoolVal(True)), n=1, extra_vectors=[(1,)])


def _same(v, base):
    if getattr(v, 'alt', None) is not None:
        c_, a, b = v.alt
        return z3.If(X.zbool(c_), _same(a, base), _same(b, base))
    return z3.BoolVal(getattr(v, 'base', None) == base)


def attribution_binding(claim):
    """replay (oracle fulfill_attribution_battery 27, through the `_verif` hooks): for every path length 1..27 every hop,
    last first, processes the fulfil attribution data under its real shared secret with its own hold time, and the
    sender must decode the hold times of the first min(n, 20) hops, in order"""
    c = claim if z3.is_expr(claim) else X.zbool(claim)
    return Binding('fulfill_attribution_battery', [z3.IntVal(27)], [z3.If(c, 0, 1)], parse=lambda t: [0 if t[0] == '0' else 1], line_fn=lambda v: '27',
                   which='oracle', via_solver=True, domain=[(27, 27)], panic=False)


def fulfill_decode_positions(S, D):
    """C14.p: decode_fulfill_attribution_data (whole function; key derivation, decryption, HMAC verification and the shift
    are stubs). After k hops have been peeled off (k shift_lefts) the data still holds the slots of hops k..min(n,20)-1 -
    what shift_right dropped on the way back is gone (C14.k) - so the HMAC of hop k that covers exactly what is present is
    the one at position min(n,20)-k-1; any other position cannot verify."""
    ids = ['C14.p.position_counts_present_slots', 'C14.p.nopanic', 'C14.p.witness']
    if all(S._skip(o) for o in ids):
        return
    f = S.fn('decode_fulfill_attribution_data')
    MAXH = 20
    E = S.engine(unwind=MAXH + 2)
    mem = {}
    n = E.sym('path.hops.len', 'usize')
    E.assume(z3.And(n.t >= 1, n.t <= 27))
    take_n = []
    verifies, pushes, nexts = [], [], [0]
    ok = [z3.Bool('hop%d.hmac_verifies' % k) for k in range(MAXH + 2)]

    def h_take(E_, m, func, argv, guard, mem_, dty, caller):
        take_n.append(argv[1])
        return X.Opaque('take iterator')

    def h_next(E_, m, func, argv, guard, mem_, dty, caller):
        k = nexts[0]
        nexts[0] += 1
        lim = X.zint(take_n[0].t) if take_n else None
        if lim is None:
            raise X.Unsupported('next() before take()')
        more = z3.And(k < lim, k < n.t)           # Take yields at most its bound, and the keys run out with the hops
        return X.En('Option', z3.If(more, 1, 0), {1: [X.Tup([X.I(k, 'usize'), X.Adt('SharedSecret', {}, base='secret%d' % k)])]})

    def h_verify(E_, m, func, argv, guard, mem_, dty, caller):
        k = len(verifies)
        verifies.append((X.zbool(guard), argv[3]))
        return X.En('Result', z3.If(ok[k], 0, 1), {0: [E.sym('hold_time%d' % k, 'u32')], 1: [X.UNIT]})
    for rx, h in [
        (r'construct_onion_keys_generic::<', lambda *a: X.Opaque('key iterator')),
        (r'^<.* as Iterator>::map::<', lambda *a: X.Opaque('mapped iterator')),
        (r'^<.* as Iterator>::enumerate$', lambda *a: X.Opaque('enumerated iterator')),
        (r'^<.* as Iterator>::take$', h_take),
        (r'^<(?:std::iter::)?Take<.*> as IntoIterator>::into_iter$', lambda E_, m, func, argv, *a: argv[0]),
        (r'^<(?:std::iter::)?Take<.*> as Iterator>::next$', h_next),
        (r'Vec::<(?:\w+::)*RouteHop>::len$', lambda *a: n),
        (r'Vec<(?:\w+::)*RouteHop> as (?:std::ops::)?Deref>::deref$', lambda *a: X.Opaque('hops')),
        (r'SharedSecret as (?:std::convert::)?AsRef<\[u8\]>>::as_ref$', lambda *a: X.Opaque('secret bytes')),
        (r'AttributionData::crypt$|AttributionData::shift_left$', lambda *a: X.UNIT),
        (r'AttributionData::verify$', h_verify),
        (r'Vec::<u32>::push$', lambda E_, m, func, argv, guard, *a: (pushes.append(X.zbool(guard)), X.UNIT)[1]),
        (r'Vec::<u32>::new$', lambda *a: X.Opaque('hold times')),
        (r'Vec<u8> as (?:std::ops::)?Deref>::deref$', lambda *a: X.Opaque('empty message')),
        (r'Arguments::<.*>::from_str$|Arguments::<.*>::new', lambda *a: X.Opaque('fmt args')),
        (r'Record::<.*>::new', lambda *a: X.Opaque('log record')),
        (r'Logger>::log$', lambda *a: X.UNIT),
        (r'Argument::<.*>::new_', lambda *a: X.Opaque('fmt arg')),
        (r'^std::mem::drop::<|drop_in_place', lambda *a: X.UNIT),
    ]:
        E.models.insert(0, (re.compile(rx), h))
    args = [X.Opaque('secp'), X.Opaque('logger'), E.sym('path', f.params[2][1], mem), X.Opaque('session key'), X.Adt('AttributionData', {}, base='attribution')]
    S.call(E, f, args, mem)
    present = z3.If(n.t < MAXH, n.t, MAXH)
    conj = []
    for k, (g, pos) in enumerate(verifies):
        conj.append(z3.Implies(g, z3.And(k < present, X.zint(pos.t) == present - k - 1)))
    n_ver = z3.Sum([z3.If(g, 1, 0) for g, p in verifies]) if verifies else z3.IntVal(0)
    n_push = z3.Sum([z3.If(g, 1, 0) for g in pushes]) if pushes else z3.IntVal(0)
    all_ok = z3.And(*ok)
    S.prove(ids[0], E, [], z3.And(*conj, z3.Implies(all_ok, z3.And(n_ver == present, n_push == present))),
            'decoding a fulfil\'s attribution data, the sender verifies hop k - after peeling k hops off - at the HMAC position that covers exactly the hops whose slots are still present, min(n, 20) - k - 1 (the last attributable hop at position 0), visits exactly the first min(n, 20) hops and reports one hold time per verified hop, for every path length up to 27',
            [attribution_binding(z3.BoolVal(False))], bounds='whole function, path length 1..27, each hop\'s HMAC check free; key derivation / decryption / shift stubbed')
    S.no_panic(ids[1], E, [], 'the position arithmetic cannot underflow', [attribution_binding(z3.BoolVal(False))])
    S.witness(ids[2], E, [n.t == 27, all_ok], n_push == MAXH)
    S.validate('C14.p.validate', E, attribution_binding(z3.BoolVal(True)), n=1, extra_vectors=[(27,)])


def payload_order_binding(blinded, args, claim, panic):
    """replay / validation (oracle final_onion_payload_order, hook msgs::verif_hooks::final_onion_payload_bytes): the real
    writer on a final-hop payload with the given custom TLV types, keysend preimage and invoice request; the bytes are
    parsed as a TLV stream by the oracle: 1 iff the types are strictly increasing and every requested record is there"""
    c = claim if z3.is_expr(claim) else X.zbool(claim)
    return Binding('final_onion_payload_order', [z3.IntVal(blinded)] + args, [z3.If(c, 1, 0)], panic=panic,
                   domain=[(blinded, blinded), (0, 1), (0, blinded), (0, 3), (65536, U64M), (65536, U64M), (65536, U64M)],
                   interesting=[65536, 65537, 77776, 77777, 77778, 5482373483, 5482373484, 5482373485], via_solver=True)


U64M = (1 << 64) - 1
KEYSEND_T, INVREQ_T = 5482373484, 77777


def payload_tlv_order(S, D):
    """C14.q: the per-hop payload a sender writes into the onion is a TLV stream whose record types are strictly increasing
    (BOLT 1; every decoder - LDK's own `decode_tlv_stream!` included - refuses a stream that is not, so a hop that gets
    one cannot read its instructions). `<OutboundOnionPayload as Writeable>::write` from its MIR, one run per variant: the
    fixed records come from the macro's field list, the final-hop variants append the sender's custom TLVs, the keysend
    preimage (type 5482373484) and, for a blinded recipient, the invoice request (type 77 777) - merged by a sort."""
    from .tlv_stream import TlvStream, find_fn
    fw = find_fn(S, r"::write\(_1: &(?:\w+::)*OutboundOnionPayload<'_>, _2: &mut W\)")
    NC = 2 if S.tier == 'quick' else 3
    variants = D.enum_variants('OutboundOnionPayload')
    for vi, (vname, _, fields) in enumerate(variants):
        ids = ['C14.q.%s.%s' % (vname.lower(), k) for k in ('types_strictly_increasing', 'nopanic', 'witness', 'validate')]
        if all(S._skip(o) for o in ids):
            continue
        E = S.engine(unwind=NC + 5)
        E.slice_cap = NC
        mem = {}
        T = TlvStream(E, D)
        T.symbolic_types = True
        T.install_writer()

        def key_of(v, mem_, guard):
            while isinstance(v, X.Ref):
                v = E.read_path(mem_[v.cell], v.path, mem_, guard, 'sortkey')
            if not isinstance(v, X.Tup):
                raise X.Unsupported('custom TLV entry %r' % (v,))
            return X.zint(v.fs[0].t)

        def h_sort(E_, m, func, argv, guard, mem_, dty, caller, E=E, key_of=key_of):
            """slice::sort_unstable_by_key(|(typ, _)| *typ) on the collected `Vec<&(u64, Vec<u8>)>`: a bubble-sort network
            of compare-exchanges over (present, entry) pairs, absent slots ranking last. The elements are shared
            references into different places (the caller's list, the two Option temporaries): each referent is
            re-homed in a cell of its own so that a compare-exchange merges VALUES, not references."""
            r_ = argv[0]
            s_ = E.read_path(mem_[r_.cell], r_.path, mem_, guard, 'sort')
            if not isinstance(s_, X.Seq):
                raise X.Unsupported('sort of %r' % (s_,))
            el = []
            for p, e in zip(s_.pres, s_.elems):
                if X.simp(p) is False:
                    continue
                v = e
                while isinstance(v, X.Ref):
                    v = E.read_path(mem_[v.cell], v.path, mem_, guard, 'sort')
                el.append((X.zbool(p), v))
            BIG = z3.IntVal(1 << 64)
            key = lambda pe: z3.If(pe[0], key_of(pe[1], mem_, guard), BIG)
            for a_ in range(len(el)):
                for b_ in range(len(el) - 1 - a_):
                    c_ = key(el[b_]) <= key(el[b_ + 1])
                    x, y = el[b_], el[b_ + 1]
                    el[b_] = (z3.If(c_, x[0], y[0]), E.merge(c_, x[1], y[1]))
                    el[b_ + 1] = (z3.If(c_, y[0], x[0]), E.merge(c_, y[1], x[1]))
            n = sum([z3.If(p, 1, 0) for p, e in el], z3.IntVal(0))
            refs = []
            for p, v in el:
                c = E.new_cell()
                mem_[c] = v
                refs.append(X.Ref(c))
            mem_[r_.cell] = E.write_path(mem_[r_.cell], r_.path, X.Seq(refs, n, s_.ety), mem_, guard, 'sort')
            return X.UNIT
        for rx, h in [
            (r'sort_unstable_by_key::<u64, ', h_sort),
            (r' as (?:util::ser::)?Writeable>::encode$', lambda *a: X.Opaque('encoded bytes')),
        ]:
            E.models.insert(0, (re.compile(rx), h))
        pl = E.sym('pl', "&fuzzy_internal_msgs::OutboundOnionPayload<'_>", mem)
        mem[pl.cell] = X.En(mem[pl.cell].name, vi, {}, base=mem[pl.cell].base)       # one run per variant
        wcell = E.new_cell()
        mem[wcell] = X.Opaque('writer')
        wr = S.call(E, fw, [pl, X.Ref(wcell)], mem)
        w_ok = z3.And(S.ret_guard, X.zint(wr.d) == 0)
        import os
        if os.environ.get('C14Q_DEBUG'):
            print(vname, [(c[0], c[2] if c[0] == 'leaf' else '') for c in T.calls])
        recs = T.finish_writer()
        tz = lambda t: z3.IntVal(t) if isinstance(t, int) else t
        incr = [z3.Implies(z3.And(recs[i]['p'], recs[j]['p']), tz(recs[i]['t']) < tz(recs[j]['t'])) for i in range(len(recs)) for j in range(i + 1, len(recs))]
        pre, args, bind = [], None, []
        present = []           # what must be written
        if 'custom_tlvs' in fields:
            # what the public API lets a sender hand in: RecipientCustomTlvs::new - types strictly increasing, in the
            # custom range, none of the two experimental types LDK itself writes
            cf = fields.index('custom_tlvs')
            cref = E.en_payload(mem[pl.cell], vname, vi, cf, '&std::vec::Vec<(u64, std::vec::Vec<u8>)>', mem, 'spec')
            cseq = E.read_path(mem[cref.cell], cref.path, mem, True, 'spec')
            n = X.zint(cseq.n)
            ct = [X.zint(E.read_path(cseq.elems[i], (('f', 0, 'u64'),), mem, True, 'spec').t) for i in range(NC)]
            for i in range(NC):
                pre.append(z3.Implies(n > i, z3.And(ct[i] >= 65536, ct[i] != KEYSEND_T, ct[i] != INVREQ_T)))
                if i:
                    pre.append(z3.Implies(n > i, ct[i - 1] < ct[i]))
                present.append(z3.Implies(n > i, z3.Or(*[z3.And(r['p'], tz(r['t']) == ct[i]) for r in recs])))
            ks = E.en_payload(mem[pl.cell], vname, vi, fields.index('keysend_preimage'), 'Option<types::payment::PaymentPreimage>', mem, 'spec')
            ks_some = X.zint(ks.d) == 1
            present.append(z3.Implies(ks_some, z3.Or(*[z3.And(r['p'], tz(r['t']) == KEYSEND_T) for r in recs])))
            blinded = 'invoice_request' in fields
            if blinded:
                ir = E.en_payload(mem[pl.cell], vname, vi, fields.index('invoice_request'), 'Option<&InvoiceRequest>', mem, 'spec')
                ir_some = X.zint(ir.d) == 1
                present.append(z3.Implies(ir_some, z3.Or(*[z3.And(r['p'], tz(r['t']) == INVREQ_T) for r in recs])))
            else:
                ir_some = z3.BoolVal(False)
            args = [z3.If(ks_some, 1, 0), z3.If(ir_some, 1, 0), n] + (ct + [z3.IntVal(65536)] * 3)[:3]
            bind = [payload_order_binding(1 if blinded else 0, args, z3.And(w_ok, *incr, *present), _panic(E))]
        S.prove(ids[0], E, pre, z3.And(w_ok, *incr, *present),
                'OutboundOnionPayload::%s is written as a TLV stream with strictly increasing record types%s' % (vname, ', containing every custom TLV handed in, the keysend preimage and the invoice request when given, wherever their type numbers fall relative to each other' if bind else ''),
                bind, bounds='record stream: %d records (types %s); <= %d custom TLVs with any types RecipientCustomTlvs::new accepts; values and lengths abstracted' % (len(recs), ', '.join(str(r['t']) if isinstance(r['t'], int) else 'custom' for r in recs), NC),
                assumptions=['custom TLVs as RecipientCustomTlvs::new leaves them: sorted, unique, >= 65536, not 5482373484 / 77777'] if bind else None)
        S.no_panic(ids[1], E, pre, 'the debug-build order check of the encode macro (_check_encoded_tlv_order!) cannot fire', bind)
        if bind:
            S.witness(ids[2], E, pre + [n == NC, ks_some, ct[NC - 1] > KEYSEND_T] + ([ir_some, ct[0] < INVREQ_T] if blinded else []), w_ok)
            S.validate(ids[3], E, bind[0], n=60 if S.tier == 'quick' else 200)
        else:
            S.witness(ids[2], E, pre, w_ok)


def _panic(E):
    return z3.Or(*[X.zbool(p[0]) for p in E.panics]) if E.panics else False
