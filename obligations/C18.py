"""C18 - engine K (Kani) harnesses, see harness/src/c18.rs and engine_k/harnesses.json, plus an engine M
obligation on the BOLT-12 rule that ties an invoice's signing key to the offer it answers"""
import re
import z3
from engine_m import exec as X
from engine_m.session import Binding
from engine_k import runner as K
from .common import *

EVIDENCE = dict(assumptions=['kernel only (narrow): BOLT-11 integer <-> 5-bit-group codec, amount <-> SI-prefix arithmetic, timestamp bounds (Kani); BOLT-12 check_invoice_signing_pubkey with public keys as abstract identities (equality only; <= 2 paths of <= 2 hops) (engine M); bech32 checksum, signatures and key recovery, tagged-field parsing, merkle hashing and metadata verification are outside the claim'])


def run(S):
    signing_pubkey(S, S.decls())
    K.run_property(S, 'C18')


def signing_pubkey(S, D):
    """C18.m: a BOLT-12 invoice answering an offer is accepted only under the key the offer commits to: the
    issuer id when the offer has one, otherwise the final blinded node id of one of the offer's paths."""
    if all(S._skip(o) for o in ('C18.m.signing_key', 'C18.m.nopanic', 'C18.m.witness', 'C18.m.validate')):
        return
    NP = NH = 2
    E = S.engine()
    E.slice_cap = NP
    mem = {}
    f = S.fn('check_invoice_signing_pubkey')
    ids = {}

    def pkid(v):
        if getattr(v, 'alt', None) is not None:
            c, a, b = v.alt
            return z3.If(X.zbool(c), pkid(a), pkid(b))
        if getattr(v, 'base', None) is None:
            raise X.Unsupported('public key without identity: %r' % (v,))
        t = z3.Int(v.base + '.id')
        ids[v.base] = t
        return t

    def deref(v, mem_):
        while isinstance(v, X.Ref):
            v = E.read_path(mem_[v.cell], v.path, mem_, True, 'pk')
        return v

    def h_eq(E_, m, func, argv, guard, mem_, dty, caller):
        r = pkid(deref(argv[0], mem_)) == pkid(deref(argv[1], mem_))
        return X.B(z3.Not(r) if m.group(1) == 'ne' else r)
    E.models.insert(0, (re.compile(r'PublicKey as PartialEq>::(eq|ne)$'), h_eq))
    args = [E.sym('a%d' % n, t, mem) for n, t in f.params]
    rv = S.call(E, f, args, mem)
    ok = z3.And(S.ret_guard, X.zint(rv.d) == 0)
    tlv = mem[args[1].cell]
    i_issuer = D.field_index('OfferTlvStream', 'issuer_id') if D.struct_fields('OfferTlvStream') else 10
    i_paths = D.field_index('OfferTlvStream', 'paths') if D.struct_fields('OfferTlvStream') else 7
    issuer = E.read_path(tlv, (('f', i_issuer, 'std::option::Option<bitcoin::secp256k1::PublicKey>'),), mem, True, 'spec')
    has_issuer = X.zint(issuer.d) == 1
    issuer_id = pkid(E.read_path(issuer, (('v', 'Some'), ('f', 0, 'bitcoin::secp256k1::PublicKey')), mem, True, 'spec'))
    paths = E.read_path(tlv, (('f', i_paths, 'std::option::Option<std::vec::Vec<blinded_path::message::BlindedMessagePath>>'),), mem, True, 'spec')
    has_paths = X.zint(paths.d) == 1
    pseq = E.read_path(paths, (('v', 'Some'), ('f', 0, 'std::vec::Vec<blinded_path::message::BlindedMessagePath>')), mem, True, 'spec')
    signing = pkid(mem[args[0].cell])
    np = pseq.n
    BP = D.field_index('BlindedPath', 'blinded_hops')
    BH = D.field_index('BlindedHop', 'blinded_node_id')
    nh, hop = [], []
    for j in range(NP):
        inner = E.read_path(pseq.elems[j], (('f', 0, 'blinded_path::BlindedPath'), ('f', BP, 'std::vec::Vec<blinded_path::BlindedHop>')), mem, True, 'spec')
        nh.append(inner.n)
        hop.append([pkid(E.read_path(inner.elems[k], (('f', BH, 'bitcoin::secp256k1::PublicKey'),), mem, True, 'spec')) for k in range(NH)])
    # spec, from BOLT 12 ("invoice_node_id must equal offer_issuer_id if present, otherwise the final blinded_node_id of a path")
    last_is = [z3.And(np > j, z3.Or(*[z3.And(nh[j] == k + 1, hop[j][k] == signing) for k in range(NH)])) for j in range(NP)]
    spec = z3.If(has_issuer, signing == issuer_id, z3.If(has_paths, z3.Or(*last_is), True))
    allids = [signing, issuer_id] + [h for hs in hop for h in hs]
    pre = [z3.And(t >= 1, t <= 250) for t in allids]          # key identities: only equality matters
    flat = [signing, z3.If(has_issuer, 1, 0), issuer_id, z3.If(has_paths, 1, 0), np]
    for j in range(NP):
        flat += [nh[j]] + hop[j]

    def line_fn(v):
        sg, hi, ii, hp, npv = v[:5]
        out = [sg, hi, ii, hp, npv if hp else 0]
        rest = v[5:]
        for j in range(npv if hp else 0):
            n_ = rest[j * (1 + NH)]
            out += [n_] + list(rest[j * (1 + NH) + 1: j * (1 + NH) + 1 + n_])
        return ' '.join(str(x) for x in out)
    b = Binding('invoice_signing_pubkey_probe', flat, [z3.If(ok, 1, 0)], line_fn=line_fn,
                panic=z3.Or(*[X.zbool(p[0]) for p in E.panics]) if E.panics else False,
                domain=[(1, 6), (0, 1), (1, 6), (0, 1), (0, NP)] + [(0, NH), (1, 6), (1, 6)] * NP)
    S.prove('C18.m.signing_key', E, pre, ok == spec,
            'an invoice is attributed to an offer only if it is signed by the key the offer commits to: the issuer id whenever the offer has one (paths do not widen it), otherwise the final blinded node id of one of its paths',
            [b], bounds='public keys as abstract identities (equality only), <= %d paths of <= %d hops' % (NP, NH))
    S.no_panic('C18.m.nopanic', E, pre, 'total', [b])
    S.witness('C18.m.witness', E, pre + [has_issuer, has_paths, np == 2, nh[0] == 2], z3.Not(ok))
    S.validate('C18.m.validate', E, b, n=150 if S.tier == 'quick' else 600)
