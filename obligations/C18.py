"""C18 - engine K (Kani) harnesses, see harness/src/c18.rs and engine_k/harnesses.json"""
from engine_k import runner as K

EVIDENCE = dict(assumptions=['kernel only (narrow): BOLT-11 integer <-> 5-bit-group codec, amount <-> SI-prefix arithmetic, timestamp bounds; bech32 checksum, signatures and key recovery, tagged-field parsing and all of BOLT-12 are outside the claim'])


def run(S):
    K.run_property(S, 'C18')
