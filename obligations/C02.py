"""C02 — a forwarding node never loses money: the admission arithmetic of a forward."""
import z3
from engine_m import exec as X
from engine_m.session import Binding
from .common import *

EVIDENCE = dict(assumptions=[
    'kernel only: the amount / expiry admission check of a forward (FundedChannel::internal_htlc_satisfies_config, onion_payment::check_incoming_htlc_cltv)',
    'claim-before-fail ordering, RAA blocking, monitor durability, restart replay and on-chain resolution are schedule/crash quantified and outside the claim',
    'block heights < 2^31 for the CLTV check'])


def run(S):
    D = S.decls()
    from .C01 import dust_exposure_limit, check_truth_table
    check_truth_table(S)
    dust_exposure_limit(S, D, 1 if S.tier == 'quick' else 2, 'C02.d')
    E = S.engine()
    f = S.fn('internal_htlc_satisfies_config')
    mem = {}
    args = [E.sym('a%d' % n, t, mem) for n, t in f.params]
    rv = S.call(E, f, args, mem)
    htlc = mem[args[1].cell]
    cfg = mem[args[4].cell]
    amt_in = field(E, D, 'UpdateAddHTLC', 'amount_msat', htlc, 'u64')
    cltv_in = field(E, D, 'UpdateAddHTLC', 'cltv_expiry', htlc, 'u32')
    prop = field(E, D, 'ChannelConfig', 'forwarding_fee_proportional_millionths', cfg, 'u32')
    base = field(E, D, 'ChannelConfig', 'forwarding_fee_base_msat', cfg, 'u32')
    delta = field(E, D, 'ChannelConfig', 'cltv_expiry_delta', cfg, 'u16')
    fwd, out = args[2], args[3]
    ok = is_ok(rv)
    reason = err_payload(rv).d
    R = lambda n: D.variant_index('LocalHTLCFailureReason', n)
    panic = z3.Or(*[X.zbool(p[0]) for p in E.panics]) if E.panics else False
    bind = Binding('htlc_satisfies_config', [amt_in.t, cltv_in.t, fwd.t, out.t, base.t, prop.t, delta.t], [rv.d, reason],
                   parse=reason_parser(D), panic=panic,
                   domain=[(0, U64), (0, U32), (0, U64), (0, U32), (0, U32), (0, U32), (0, U16)], interesting=[1000000, 999999])
    S.validate('C02.a.validate', E, bind)
    # specification over mathematical integers: fee = base + floor(fwd*prop/10^6)
    fee = base.t + (fwd.t * prop.t) / 1000000
    S.prove('C02.a.amount', E, [], z3.Implies(ok, fwd.t + fee <= amt_in.t),
            'admitted forward: amt_to_forward + base + floor(amt_to_forward*prop/1e6) <= upstream amount (as mathematical integers; no wrap can fake it)',
            [bind], bounds='all u64 amounts, all u32 fee parameters')
    S.prove('C02.a.expiry', E, [], z3.Implies(ok, out.t + delta.t <= cltv_in.t),
            'admitted forward: outgoing_cltv + cltv_expiry_delta <= upstream cltv_expiry', [bind],
            bounds='all u32 expiries, all u16 deltas')
    S.prove('C02.a.complete', E, [fwd.t * prop.t <= U64], z3.Implies(z3.And(fwd.t + fee <= amt_in.t, out.t + delta.t <= cltv_in.t), ok),
            'a forward that pays the advertised fee and delta is admitted whenever amt*prop fits u64 (no spurious refusal)', [bind])
    S.prove('C02.a.reasons', E, [fwd.t * prop.t <= U64], z3.And(
        z3.Implies(z3.Not(fwd.t + fee <= amt_in.t), z3.And(z3.Not(ok), reason == R('FeeInsufficient'))),
        z3.Implies(z3.And(fwd.t + fee <= amt_in.t, z3.Not(out.t + delta.t <= cltv_in.t)), z3.And(z3.Not(ok), reason == R('IncorrectCLTVExpiry')))),
        'refusals carry the matching failure reason', [bind])
    S.no_panic('C02.b.total', E, [], 'the check is total: no overflow / unwrap panic for any input', [bind])
    S.witness('C02.a.witness', E, [prop.t > 0, fwd.t > 1000000], ok)

    # C02.c  together with the minimum-delta check applied on receipt of the onion
    E2 = S.engine()
    f2 = S.fn('check_incoming_htlc_cltv')
    h, out2, cltv2, d2 = E2.sym('h', 'u32'), E2.sym('out', 'u32'), E2.sym('cltv', 'u32'), E2.sym('d', 'u16')
    rv2 = S.call(E2, f2, [h, out2, cltv2, d2], {})
    panic2 = z3.Or(*[X.zbool(p[0]) for p in E2.panics]) if E2.panics else False
    bind2 = Binding('check_incoming_htlc_cltv', [h.t, out2.t, cltv2.t, d2.t], [rv2.d, err_payload(rv2).d],
                    parse=reason_parser(D), panic=panic2, domain=[(0, U32), (0, U32), (0, U32), (0, U16)])
    S.prove('C02.c.min_delta', E2, [h.t < (1 << 31)], z3.Implies(is_ok(rv2), out2.t + d2.t <= cltv2.t),
            'onion admission: outgoing_cltv + min_cltv_expiry_delta <= incoming cltv_expiry', [bind2])
