"""C02 — a forwarding node never loses money: the admission arithmetic of a forward."""
import z3
from engine_m import exec as X
from engine_m.session import Binding, Inconclusive
from .common import *

EVIDENCE = dict(assumptions=[
    'kernel only: the amount / expiry admission check of a forward (FundedChannel::internal_htlc_satisfies_config, onion_payment::check_incoming_htlc_cltv)',
    'claim-before-fail ordering, RAA blocking, monitor durability, restart replay and on-chain resolution are schedule/crash quantified and outside the claim',
    'block heights < 2^31 for the CLTV check'])


def run(S):
    D = S.decls()
    from .C01 import dust_exposure_limit, check_truth_table
    check_truth_table(S)
    dust_exposure_limit(S, D, 1 if S.tier == 'quick' else 2, 'C02.d')
    forward_admission_manager(S, D, 'C02.e')
    policy_window(S, D)
    onchain_dedup(S, D)
    raa_blocker_release(S, D)
    E = S.engine()
    f = S.fn('internal_htlc_satisfies_config')
    mem = {}
    args = [E.sym('a%d' % n, t, mem) for n, t in f.params]
    rv = S.call(E, f, args, mem)
    htlc = mem[args[1].cell]
    cfg = mem[args[4].cell]
    amt_in = field(E, D, 'UpdateAddHTLC', 'amount_msat', htlc, 'u64')
    cltv_in = field(E, D, 'UpdateAddHTLC', 'cltv_expiry', htlc, 'u32')
    prop = field(E, D, 'ChannelConfig', 'forwarding_fee_proportional_millionths', cfg, 'u32')
    base = field(E, D, 'ChannelConfig', 'forwarding_fee_base_msat', cfg, 'u32')
    delta = field(E, D, 'ChannelConfig', 'cltv_expiry_delta', cfg, 'u16')
    fwd, out = args[2], args[3]
    ok = is_ok(rv)
    reason = err_payload(rv).d
    R = lambda n: D.variant_index('LocalHTLCFailureReason', n)
    panic = z3.Or(*[X.zbool(p[0]) for p in E.panics]) if E.panics else False
    bind = Binding('htlc_satisfies_config', [amt_in.t, cltv_in.t, fwd.t, out.t, base.t, prop.t, delta.t], [rv.d, reason],
                   parse=reason_parser(D), panic=panic,
                   domain=[(0, U64), (0, U32), (0, U64), (0, U32), (0, U32), (0, U32), (0, U16)], interesting=[1000000, 999999])
    S.validate('C02.a.validate', E, bind)
    # specification over mathematical integers: fee = base + floor(fwd*prop/10^6)
    fee = base.t + (fwd.t * prop.t) / 1000000
    S.prove('C02.a.amount', E, [], z3.Implies(ok, fwd.t + fee <= amt_in.t),
            'admitted forward: amt_to_forward + base + floor(amt_to_forward*prop/1e6) <= upstream amount (as mathematical integers; no wrap can fake it)',
            [bind], bounds='all u64 amounts, all u32 fee parameters')
    S.prove('C02.a.expiry', E, [], z3.Implies(ok, out.t + delta.t <= cltv_in.t),
            'admitted forward: outgoing_cltv + cltv_expiry_delta <= upstream cltv_expiry', [bind],
            bounds='all u32 expiries, all u16 deltas')
    S.prove('C02.a.complete', E, [fwd.t * prop.t <= U64], z3.Implies(z3.And(fwd.t + fee <= amt_in.t, out.t + delta.t <= cltv_in.t), ok),
            'a forward that pays the advertised fee and delta is admitted whenever amt*prop fits u64 (no spurious refusal)', [bind])
    S.prove('C02.a.reasons', E, [fwd.t * prop.t <= U64], z3.And(
        z3.Implies(z3.Not(fwd.t + fee <= amt_in.t), z3.And(z3.Not(ok), reason == R('FeeInsufficient'))),
        z3.Implies(z3.And(fwd.t + fee <= amt_in.t, z3.Not(out.t + delta.t <= cltv_in.t)), z3.And(z3.Not(ok), reason == R('IncorrectCLTVExpiry')))),
        'refusals carry the matching failure reason', [bind])
    S.no_panic('C02.b.total', E, [], 'the check is total: no overflow / unwrap panic for any input', [bind])
    S.witness('C02.a.witness', E, [prop.t > 0, fwd.t > 1000000], ok)

    # C02.c  together with the minimum-delta check applied on receipt of the onion
    E2 = S.engine()
    f2 = S.fn('check_incoming_htlc_cltv')
    h, out2, cltv2, d2 = E2.sym('h', 'u32'), E2.sym('out', 'u32'), E2.sym('cltv', 'u32'), E2.sym('d', 'u16')
    rv2 = S.call(E2, f2, [h, out2, cltv2, d2], {})
    panic2 = z3.Or(*[X.zbool(p[0]) for p in E2.panics]) if E2.panics else False
    bind2 = Binding('check_incoming_htlc_cltv', [h.t, out2.t, cltv2.t, d2.t], [rv2.d, err_payload(rv2).d],
                    parse=reason_parser(D), panic=panic2, domain=[(0, U32), (0, U32), (0, U32), (0, U16)])
    S.prove('C02.c.min_delta', E2, [h.t < (1 << 31)], z3.Implies(is_ok(rv2), out2.t + d2.t <= cltv2.t),
            'onion admission: outgoing_cltv + min_cltv_expiry_delta <= incoming cltv_expiry', [bind2])


def forward_admission_manager(S, D, prefix='C02.e'):
    """the whole forward-admission path of the ChannelManager (can_forward_htlc_should_intercept ->
    can_forward_htlc_to_outgoing_channel -> FundedChannel::htlc_satisfies_config ->
    internal_htlc_satisfies_config, and onion_payment::check_incoming_htlc_cltv), executed from MIR with
    the environment stubbed: channel lookup = arbitrary found/not-found, channel liveness/announcement
    predicates = arbitrary booleans, current and previous ChannelConfig = arbitrary values."""
    import re
    E = S.engine()
    mem = {}
    f = S.fn('can_forward_htlc_should_intercept')
    found = z3.Bool('chan_found')

    def h_cb(E_, m, func, argv, guard, mem_, dty, caller):
        chan = E_.sym('chan', '&mut FundedChannel<SP>', mem_)
        res = E_.cond_call_closure(argv[2], [chan], guard, found, mem_)
        if res is X.DIVERGE:
            return X.En('Option', 0, {})
        return X.En('Option', z3.If(found, 1, 0), {1: [res[0]]})
    E.models.insert(0, (re.compile(r'do_funded_channel_callback'), h_cb))
    for nm in ['is_valid_phantom', 'forward_needs_intercept_to_unknown_chan', 'forward_needs_intercept_to_known_chan',
               'should_announce', 'is_live', 'is_enabled', 'is_connected']:
        E.models.insert(0, (re.compile(r'(?:^|::)%s$' % nm), (lambda n_: (lambda *a: X.B(z3.Bool('env.' + n_))))(nm)))
    E.models.insert(0, (re.compile(r'supports_scid_privacy$'), lambda *a: X.B(z3.Bool('env.scid_privacy'))))
    E.models.insert(0, (re.compile(r'outbound_scid_alias$'), lambda *a: X.I(z3.Int('env.scid_alias'), 'u64')))
    E.assume(z3.And(z3.Int('env.scid_alias') >= 0, z3.Int('env.scid_alias') <= U64))
    cmin = E.sym('env.cp_htlc_min', 'u64')
    E.models.insert(0, (re.compile(r'get_counterparty_htlc_minimum_msat$'), lambda *a: cmin))
    cfg = X.Adt('ChannelConfig', {}, base='cfg')
    pcfg = X.Adt('ChannelConfig', {}, base='pcfg')
    p_some = z3.Bool('prev_cfg_some')
    E.models.insert(0, (re.compile(r'ChannelContext::<.*>::config$'), lambda *a: cfg))
    E.models.insert(0, (re.compile(r'ChannelContext::<.*>::prev_config$'), lambda *a: X.En('Option', z3.If(p_some, 1, 0), {1: [pcfg]})))
    args = [E.sym('a%d' % n, t, mem) for n, t in f.params]
    rv = S.call(E, f, args, mem)
    returns = S.ret_guard
    ok = z3.And(returns, X.zint(rv.d) == 0)
    cm = mem[args[0].cell]
    msg = mem[args[1].cell]
    nh = mem[args[3].cell]
    amt_in = field(E, D, 'UpdateAddHTLC', 'amount_msat', msg, 'u64').t
    cltv_in = field(E, D, 'UpdateAddHTLC', 'cltv_expiry', msg, 'u32').t
    out_amt = field(E, D, 'NextPacketDetails', 'outgoing_amt_msat', nh, 'u64').t
    out_cltv = field(E, D, 'NextPacketDetails', 'outgoing_cltv_value', nh, 'u32').t
    conn = field(E, D, 'NextPacketDetails', 'outgoing_connector', nh, 'onion_payment::HopConnector')
    is_scid = X.zint(conn.d) == D.variant_index('HopConnector', 'ShortChannelId')
    # best block height as read through the lock
    bb_cell = None
    for k, c in E.lock_cells.items():
        if 'BlockLocator' in str(type(mem.get(c))) or True:
            v = mem.get(c)
            if isinstance(v, X.Adt) and 'BlockLocator' in v.name:
                bb_cell = c
    if bb_cell is None:
        raise Inconclusive('best_block lock was not read by can_forward_htlc_should_intercept')
    H = field(E, D, 'BlockLocator', 'height', mem[bb_cell], 'u32').t

    def cfgf(c, nm, ty):
        return field(E, D, 'ChannelConfig', nm, c, ty).t
    def fee_ok(c):
        fee = cfgf(c, 'forwarding_fee_base_msat', 'u32') + (out_amt * cfgf(c, 'forwarding_fee_proportional_millionths', 'u32')) / 1000000
        return z3.And(out_amt + fee <= amt_in, out_cltv + cfgf(c, 'cltv_expiry_delta', 'u16') <= cltv_in)
    def parse(t):
        if t[0] == 'Ok':
            return [0, None]
        return [1, D.variant_index('LocalHTLCFailureReason', t[1])]
    reason = rv.vs[1][0]
    oa = [z3.Int('o.%s' % k) for k in ('cltv_off', 'known', 'out_off', 'use_prev')]
    E.assume(oa[0] == cltv_in - H); E.assume(oa[1] == z3.If(found, 1, 0)); E.assume(oa[2] == out_cltv - H); E.assume(oa[3] == z3.If(p_some, 1, 0))
    b = Binding('forward_probe', [amt_in, oa[0], oa[1], out_amt, oa[2], cfgf(cfg, 'forwarding_fee_base_msat', 'u32'), cfgf(cfg, 'forwarding_fee_proportional_millionths', 'u32'),
                                  cfgf(cfg, 'cltv_expiry_delta', 'u16'), oa[3], cfgf(pcfg, 'forwarding_fee_base_msat', 'u32'), cfgf(pcfg, 'forwarding_fee_proportional_millionths', 'u32'),
                                  cfgf(pcfg, 'cltv_expiry_delta', 'u16')], [z3.If(ok, 0, 1), X.zint(reason.d)], parse=parse, which='oracle_tu')
    # the native probe drives two real nodes: a live, announced, connected channel whose policies are set
    # through the public API (which enforces cltv_expiry_delta >= MIN_CLTV_EXPIRY_DELTA); unknown SCIDs are
    # neither phantom nor intercepted; counterparty htlc_minimum is the test default (1000 msat)
    E_true = [z3.Bool('env.' + k) for k in ('should_announce', 'is_live', 'is_enabled', 'is_connected')]
    probe_env = E_true + [z3.Not(z3.Bool('env.is_valid_phantom')), z3.Not(z3.Bool('env.forward_needs_intercept_to_unknown_chan')),
                          z3.Not(z3.Bool('env.forward_needs_intercept_to_known_chan')), z3.Not(z3.Bool('env.scid_privacy')), cmin.t == 1000,
                          cfgf(cfg, 'cltv_expiry_delta', 'u16') >= 48, cfgf(pcfg, 'cltv_expiry_delta', 'u16') >= 48, is_scid,
                          cltv_in - H <= 100000, out_cltv - H <= 100000, H >= 1000]
    pre = [H < (1 << 31)]
    MIN_DELTA = 48
    nxt = H + 1          # HTLCs are checked against the height of the next block
    cltv_rules = z3.And(cltv_in >= out_cltv + MIN_DELTA, cltv_in > nxt + 39, cltv_in <= nxt + 2016, out_cltv > nxt + 3)
    S.witness(prefix + '.witness', E, pre + [found], ok)
    S.prove(prefix + '.cltv_next_block', E, pre + [is_scid], z3.Implies(ok, cltv_rules),
            'a forward admitted by the ChannelManager satisfies every CLTV rule relative to the NEXT block height (best height + 1): upstream expiry more than HTLC_FAIL_BACK_BUFFER away and at most CLTV_FAR_FAR_AWAY, downstream expiry beyond the latency grace period, and at least MIN_CLTV_EXPIRY_DELTA between them',
            bounds='all amounts/expiries, heights < 2^31, arbitrary channel state predicates and configs')
    S.prove(prefix + '.known_channel_policy', E, pre + [is_scid, found], z3.Implies(ok, z3.And(z3.Or(fee_ok(cfg), z3.And(p_some, fee_ok(pcfg))), out_amt >= cmin.t)),
            'a forward to a known channel is admitted only if it pays the fee and CLTV delta of the channel\'s current config or of its previous config, and meets the counterparty htlc_minimum')
    S.prove(prefix + '.unknown_channel_sanity', E, pre + [is_scid, z3.Not(found)], z3.Implies(ok, z3.And(out_amt <= amt_in, cltv_in - out_cltv >= MIN_DELTA)),
            'a forward to an unknown (intercepted / phantom) channel never offers more than it received and keeps MIN_CLTV_EXPIRY_DELTA')
    S.no_panic(prefix + '.nopanic', E, pre + [is_scid], 'no overflow / unwrap panic on the admission path for heights < 2^31')
    # the same claims restricted to the environment the native two-node probe realises, so that a
    # counterexample can be replayed against a real ChannelManager
    S.prove(prefix + '.native_admission', E, pre + probe_env, z3.Implies(ok, z3.And(cltv_rules,
            z3.If(found, z3.And(z3.Or(fee_ok(cfg), z3.And(p_some, fee_ok(pcfg))), out_amt >= cmin.t), False))),
            'replayable form (live announced channel, policies set through update_channel_config): admitted => CLTV rules at the next block height and the current or previous policy is paid; unknown SCIDs are refused',
            [b], bounds='as above, environment fixed to what the native two-node probe builds')


EXPIRE_PREV_CONFIG_TICKS = 5


def prev_config_binding(claim):
    """replay (oracle_tu prev_config_battery): a live forwarding node changes a channel's relay policy twice (base fee
    1000 -> 2000 -> 3000 msat) with k1 / k2 timer ticks after the changes, nine (k1, k2); the real ChannelManager is then
    asked whether it would forward for each of the three fees: the current one always, the one replaced last only within 5
    ticks of its replacement, the oldest never. Output = number of bad scenarios."""
    c = claim if z3.is_expr(claim) else X.zbool(claim)
    return Binding('prev_config_battery', [z3.IntVal(0)], [z3.If(c, 0, 1)], parse=lambda t: [0 if t[0] == '0' else 1], line_fn=lambda v: '0',
                   which='oracle_tu', via_solver=True, domain=[(0, 0)], panic=False)


def policy_window(S, D):
    """C02.f: which relay policies a channel honours. C02.a-e decide that a forward pays the fee of the current policy or of
    `prev_config`; this is what `prev_config` can be. `ChannelContext::update_config`: after a change of fee / CLTV delta the
    policy honoured besides the new one is exactly the one in force just before the call, with a fresh tick count - never an
    older one kept alive. `maybe_expire_prev_config` (one timer tick, inductive step on the invariant ticks < 5): the count
    grows by one and the old policy is dropped when it reaches EXPIRE_PREV_CONFIG_TICKS. Together: a replaced policy is
    honoured for fewer than 5 ticks after its replacement, whatever further updates follow."""
    ids = ['C02.f.previous_is_the_one_just_replaced', 'C02.f.tick', 'C02.f.nopanic', 'C02.f.witness']
    if all(S._skip(o) for o in ids):
        return
    CC = D.struct_fields('ChannelContext')
    CFG = D.struct_fields('ChannelConfig')
    LC = D.struct_fields('LegacyChannelConfig')
    POL = ('forwarding_fee_proportional_millionths', 'forwarding_fee_base_msat', 'cltv_expiry_delta')
    PTY = {'forwarding_fee_proportional_millionths': 'u32', 'forwarding_fee_base_msat': 'u32', 'cltv_expiry_delta': 'u16'}

    def setup():
        E = S.engine(unwind=2)
        mem = {}
        ctx = E.sym('ctx', '&mut ln::channel::ChannelContext<SP>', mem)
        rd = lambda v, fields, nm, ty: E.read_path(v, (('f', fields.index(nm), ty),), mem, True, 'spec')
        pol = lambda cfgv: [rd(cfgv, CFG, k, PTY[k]).t for k in POL]

        def state():
            c = mem[ctx.cell]
            opts = rd(rd(c, CC, 'config', 'util::config::LegacyChannelConfig'), LC, 'options', 'util::config::ChannelConfig')
            prev = rd(c, CC, 'prev_config', 'Option<(util::config::ChannelConfig, usize)>')
            pt = E.en_payload(prev, 'Some', 1, 0, '(util::config::ChannelConfig, usize)', mem, 'spec')
            return pol(opts), X.zint(prev.d) == 1, pol(pt.fs[0]), X.zint(pt.fs[1].t), X.zint(rd(c, CC, 'update_time_counter', 'u32').t)
        return E, mem, ctx, state, pol
    # --- update_config
    E, mem, ctx, state, pol = setup()
    new = E.sym('new', '&util::config::ChannelConfig', mem)
    cur0, had0, prev0, ticks0, cnt0 = state()
    f = S.fn('update_config', first_param='ChannelContext')
    rv = S.call(E, f, [ctx, new], mem)
    ret = S.ret_guard
    cur1, had1, prev1, ticks1, cnt1 = state()
    newp = pol(mem[new.cell])
    eq = lambda a, b: z3.And(*[x == y for x, y in zip(a, b)])
    changed = z3.Not(eq(cur0, newp))
    pre = [cnt0 < (1 << 32) - 1, z3.Implies(had0, z3.And(ticks0 >= 0, ticks0 < EXPIRE_PREV_CONFIG_TICKS))]
    claim_u = z3.And(ret, eq(cur1, newp), X.zbool(rv.t) == changed,
                     z3.Implies(changed, z3.And(had1, eq(prev1, cur0), ticks1 == 0, cnt1 == cnt0 + 1)),
                     z3.Implies(z3.Not(changed), z3.And(had1 == had0, z3.Implies(had0, z3.And(eq(prev1, prev0), ticks1 == ticks0)), cnt1 == cnt0)))
    b = prev_config_binding(claim_u)
    S.prove(ids[0], E, pre, claim_u,
            'update_config: the new policy is in force; if fee or CLTV delta changed, the policy honoured besides it is exactly the one in force just before the call (not an older one still being honoured), with tick count 0, and a channel_update is due; an unchanged policy leaves the window alone',
            [b], bounds='whole function, all u32 / u16 policy values, any earlier window')
    S.no_panic(ids[2], E, pre, 'no overflow of the update counter below u32::MAX', [])
    S.witness(ids[3], E, pre + [had0, changed, z3.Not(eq(prev0, cur0))], ret)
    # --- one timer tick
    E2, mem2, ctx2, state2, _ = setup()
    cur0, had0, prev0, ticks0, cnt0 = state2()
    f2 = S.fn('maybe_expire_prev_config', first_param='ChannelContext')
    S.call(E2, f2, [ctx2], mem2)
    ret2 = S.ret_guard
    cur1, had1, prev1, ticks1, cnt1 = state2()
    pre2 = [z3.Implies(had0, z3.And(ticks0 >= 0, ticks0 < EXPIRE_PREV_CONFIG_TICKS))]
    claim_t = z3.And(ret2, eq(cur1, cur0), z3.Implies(z3.Not(had0), z3.Not(had1)),
                     z3.Implies(had0, z3.And(had1 == (ticks0 + 1 < EXPIRE_PREV_CONFIG_TICKS),
                                             z3.Implies(had1, z3.And(eq(prev1, prev0), ticks1 == ticks0 + 1, ticks1 < EXPIRE_PREV_CONFIG_TICKS)))))
    S.prove(ids[1], E2, pre2, claim_t,
            'one timer tick: the tick count of a replaced policy grows by one and the policy is dropped when the count reaches EXPIRE_PREV_CONFIG_TICKS = 5 (invariant count < 5 preserved: an inductive step over any number of ticks); the current policy is untouched',
            [prev_config_binding(claim_t)], bounds='whole function from an arbitrary state satisfying the invariant')


def onchain_dedup(S, D):
    """C02.g: the preimage a downstream peer reveals ON CHAIN must reach every upstream HTLC it settles.
    `ChannelMonitorImpl::is_resolving_htlc_output` queues one `MonitorEvent::HTLCEvent` per resolved HTLC unless an event
    "for this HTLC" is already pending; the test is a closure over the pending events. Each such closure (they are found by
    their signature, `(&MonitorEvent) -> bool`) run on an arbitrary event: true iff the event is an HTLCEvent whose SOURCE is
    this HTLC's source - the identity of the HTLC. Two HTLCs with the same payment hash (MPP parts through one forwarder, a
    re-used hash) are different HTLCs: an event for one must not suppress the other's."""
    import re
    from .C10 import _closure_env, _ident, _deref_all
    ix = S.mir()
    cl = [ix.get(i) for i in range(len(ix.offsets))
          if re.search(r'::is_resolving_htlc_output::\{closure#\d+\}\(_1: &mut \{closure@[^{}]*\}, _2: &(?:\w+::)*MonitorEvent\) -> bool', ix.offsets[i][0])]
    ids = ['C02.g.dedup_by_htlc_identity', 'C02.g.witness']
    if all(S._skip(o) for o in ids):
        return
    if len(cl) < 2:
        raise X.Unsupported('is_resolving_htlc_output: %d de-duplication closures' % len(cl))
    HEV = D.variant_index('MonitorEvent', 'HTLCEvent')
    HU = D.struct_fields('HTLCUpdate')
    nvar = len(D.enum_variants('MonitorEvent'))
    claims, wit = [], []
    E = S.engine(unwind=1)
    compared = []

    def h_eq(E_, m, func, argv, guard, mem_, dty, caller):
        a, b = _deref_all(E_, argv[0], mem_), _deref_all(E_, argv[1], mem_)
        compared.append((m.group(1), X.zbool(guard)))
        return X.B(_ident(a) == _ident(b))
    E.models.insert(0, (re.compile(r'^<&*(?:\w+::)*(HTLCSource|PaymentHash|PaymentPreimage) as PartialEq>::eq$'), h_eq))
    for k, f in enumerate(cl):
        mem = {}
        kind = E.sym('event%d.kind' % k, 'u8')
        E.assume(z3.And(kind.t >= 0, kind.t < nvar))
        upd = X.Adt('HTLCUpdate', {HU.index('source'): X.Adt('HTLCSource', {}, base='event%d.source' % k),
                                   HU.index('payment_hash'): X.Adt('PaymentHash', {}, base='event%d.payment_hash' % k)}, base='event%d.update' % k)
        ev_c, src_c, hash_c = E.new_cell(), E.new_cell(), E.new_cell()
        mem[ev_c] = X.En('MonitorEvent', kind.t, {HEV: [upd]}, base='event%d' % k)
        mem[src_c] = X.Adt('HTLCSource', {}, base='htlc%d.source' % k)
        mem[hash_c] = X.Adt('PaymentHash', {}, base='htlc%d.payment_hash' % k)
        given = {'source': X.Ref(src_c), 'payment_hash': X.Ref(hash_c)}
        env = _closure_env(E, f, mem, given)
        rv = S.call(E, f, [env, X.Ref(ev_c)], mem)
        same_src = z3.Int('ident.event%d.source' % k) == z3.Int('ident.htlc%d.source' % k)
        claims.append(X.zbool(rv.t) == z3.And(kind.t == HEV, same_src))
        wit.append(X.zbool(rv.t))
    claim = z3.And(*claims)
    b = Binding('onchain_dedup_battery', [z3.IntVal(0)], [z3.If(claim, 0, 1)], parse=lambda t: [0 if t[0] == '0' else 1], line_fn=lambda v: '0',
                which='oracle_tu', via_solver=True, domain=[(0, 0)], panic=False)
    S.prove(ids[0], E, [], claim,
            'an on-chain HTLC resolution is treated as already reported only if a pending HTLCEvent carries the SAME HTLC source; an event for another HTLC with the same payment hash does not suppress it - so the preimage revealed on chain reaches every upstream HTLC it settles',
            [b], bounds='the %d de-duplication closures of is_resolving_htlc_output, each on an arbitrary pending event (any kind); sources / hashes as abstract identities' % len(cl))
    S.witness(ids[1], E, [], z3.And(*wit))


def raa_blocker_release(S, D):
    """C02.h: "the downstream monitor may forget a preimage only when every upstream monitor that needs it has it".
    A forwarder's downstream channel keeps a list of blockers (one per upstream claim whose preimage update is not yet
    durable); the update that lets the downstream monitor drop the preimage is held while the list is non-empty
    (`raa_monitor_updates_held`). `ChannelManager::handle_monitor_update_release`, region from the take of the completed
    blocker to that test: exactly the entries equal to the completed blocker leave the list, the others stay in order, and
    the map entry is removed iff the list is then empty. <= 3 blockers as abstract identities; BTreeMap entry API stubbed."""
    import re
    from .C10 import _ident, _deref_all
    ids = ['C02.h.only_the_completed_blocker_leaves', 'C02.h.witness']
    if all(S._skip(o) for o in ids):
        return
    f = S.fn('handle_monitor_update_release')
    calls = lambda rx: [b for b, (bd, t) in f.blocks.items() if t[0] == 'call' and re.search(rx, str(t[2]))]
    st, sp = calls(r'Option::<(?:\w+::)*RAAMonitorUpdateBlockingAction>::take$'), calls(r'::raa_monitor_updates_held$')
    if len(st) != 1 or len(sp) != 1:
        raise X.Unsupported('handle_monitor_update_release: %d takes, %d held-tests' % (len(st), len(sp)))
    N = 3
    E = S.engine(unwind=N + 1)
    mem = {}
    n = E.sym('blockers.len', 'usize')
    E.assume(n.t <= N)
    lst = E.new_cell()
    mem[lst] = X.Seq([X.Adt('RAAMonitorUpdateBlockingAction', {}, base='blocker%d' % i) for i in range(N)], n.t, 'RAAMonitorUpdateBlockingAction')
    given, occupied = z3.Bool('env.blocker_given'), z3.Bool('env.entry_occupied')
    removed = []
    eqs = lambda a, b, mem_: _ident(_deref_all(E, a, mem_)) == _ident(_deref_all(E, b, mem_))
    for rx, h in [
        (r'Option::<(?:\w+::)*RAAMonitorUpdateBlockingAction>::take$', lambda *a: X.En('Option', z3.If(given, 1, 0), {1: [X.Adt('RAAMonitorUpdateBlockingAction', {}, base='completed')]})),
        (r'BTreeMap::<.*RAAMonitorUpdateBlockingAction>>::entry$', lambda *a: X.En('Entry', z3.If(occupied, 1, 0), {0: [X.Opaque('vacant entry')], 1: [X.Opaque('occupied entry')]})),
        (r'OccupiedEntry::<.*RAAMonitorUpdateBlockingAction>>::get(?:_mut)?$', lambda *a: X.Ref(lst)),
        (r'OccupiedEntry::<.*RAAMonitorUpdateBlockingAction>>::remove$', lambda E_, m, func, argv, guard, *a: (removed.append(X.zbool(guard)), X.Opaque('removed list'))[1]),
        (r'RAAMonitorUpdateBlockingAction as PartialEq>::ne$', lambda E_, m, func, argv, guard, mem_, *a: X.B(z3.Not(eqs(argv[0], argv[1], mem_)))),
        (r'RAAMonitorUpdateBlockingAction as PartialEq>::eq$', lambda E_, m, func, argv, guard, mem_, *a: X.B(eqs(argv[0], argv[1], mem_))),
    ]:
        E.models.insert(0, (re.compile(rx), h))
    run = X.FnRun(E, f, [X.Opaque('self'), X.Opaque('peer'), X.Opaque('channel id'), X.Opaque('blocker')][:len(f.params)], True, mem)
    E.depth += 1
    run.run(start_bb=st[0], init={}, stop_bbs=(sp[0],))
    E.depth -= 1
    if not run.stop_states.get(sp[0]):
        raise X.Unsupported('handle_monitor_update_release: the held-test is not reached')
    g_stop, m_stop = E.merge_mem(run.stop_states[sp[0]])
    post = m_stop[lst]
    if not isinstance(post, X.Seq) or len(post.elems) != N:
        raise X.Unsupported('blocker list after the region: %r' % (post,))
    idc = z3.Int('ident.completed')
    ids_ = [z3.Int('ident.blocker%d' % i) for i in range(N)]
    act = z3.And(given, occupied)
    keep = [z3.And(n.t > i, z3.Or(z3.Not(act), ids_[i] != idc)) for i in range(N)]
    # the surviving entries, in order: the k-th present element after == the k-th kept element before
    conj = [X.zbool(g_stop)]
    cnt_after = sum([z3.If(X.zbool(p), 1, 0) for p in post.pres], z3.IntVal(0))
    conj.append(cnt_after == sum([z3.If(k, 1, 0) for k in keep], z3.IntVal(0)))
    for i in range(N):
        pos_before = sum([z3.If(keep[j], 1, 0) for j in range(i)], z3.IntVal(0))
        for j in range(N):
            pos_after = sum([z3.If(X.zbool(post.pres[l]), 1, 0) for l in range(j)], z3.IntVal(0))
            conj.append(z3.Implies(z3.And(keep[i], X.zbool(post.pres[j]), pos_before == pos_after), _ident(post.elems[j]) == ids_[i]))
    n_removed = sum([z3.If(g, 1, 0) for g in removed], z3.IntVal(0))
    conj.append(n_removed == z3.If(z3.And(act, cnt_after == 0), 1, 0))
    claim = z3.And(*conj)
    b = Binding('two_edge_raa_battery', [z3.IntVal(0)], [z3.If(claim, 0, 1)], parse=lambda t: [0 if t[0] == '0' else 1], line_fn=lambda v: '0',
                which='oracle_tu', via_solver=True, domain=[(0, 0)], panic=False)
    S.prove(ids[0], E, [], claim,
            'when one blocker of a channel completes, exactly the list entries equal to it are dropped - every other blocker stays, in order - and the channel leaves the map of blocked channels iff none is left: the held monitor update of the downstream channel cannot be released while another upstream claim is still waiting for its preimage update',
            [b], bounds='region of handle_monitor_update_release; <= %d blockers as abstract identities, any of them equal to the completed one; entry API stubbed' % N)
    S.witness(ids[1], E, [act, n.t == 2, ids_[0] == idc, ids_[1] != idc], cnt_after == 1)
