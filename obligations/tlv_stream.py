"""Abstract TLV record stream: links a hand-written TLV *writer* (write_tlv_fields! / encode_tlv_stream!) to the
matching *reader* (read_tlv_fields! / _decode_tlv_stream_range!) without bytes.

The real macro expansions of both sides are executed from their MIR. The byte sink / source and the leaf
codecs are environment stubs:
  writer:  `<BigSize as Writeable>::write::<W>` and `<T as Writeable>::write::<W>` append to a Python-side
           list; the length-calculating pre-pass and `serialized_length` only produce 'some length';
  stream:  the writes after the length prefix come in (type, length, value) triples, each with the path
           condition under which it was written (optional fields);
  reader:  the k-th type read returns the type of the k-th *present* record (ShortRead, with nothing
           consumed, after the last one); the length read returns 'some length'; a leaf read of type T
           returns the value of the current record (if a record of that leaf type exists, otherwise an
           arbitrary value of type T); every record is consumed exactly (`bytes_remain` false).
What is decided is the wiring: type numbers, field <-> variable association, required/optional handling,
ordering and unknown-type rules of the two independently written field lists. Leaf codecs are covered by the
Kani harnesses of C12/C13."""
import re
import itertools
import z3
from engine_m import exec as X


def strip_refs(ty):
    ty = ty.strip()
    while ty.startswith('&'):
        ty = re.sub(r"^&\s*('\w+\s+)?(mut\s+)?", '', ty)
    return ty


def norm_ty(t):
    return strip_refs(t).split('::')[-1]


class TlvStream:
    def __init__(self, E, D):
        self.E, self.D = E, D
        self.calls = []
        self.recs = []
        self.iter = -1
        self.cur = []
        self.nfresh = itertools.count()
        self.prefix = 'tlv%d' % next(E.nfresh)

    # ---------------------------------------------------------------- writer side
    def _deref(self, v, mem):
        while isinstance(v, X.Ref):
            v = self.E.read_path(mem[v.cell], v.path, mem, True, 'tlv')
        return v

    @staticmethod
    def ok():
        return X.En('Result', 0, {0: [X.UNIT]})

    def install_writer(self):
        E = self.E

        def h_w_bigsize(E_, m, func, argv, guard, mem, dty, caller):
            v = self._deref(argv[0], mem)
            t = v.t if isinstance(v, X.I) else E.read_path(v, (('f', 0, 'u64'),), mem, guard, 'tlv').t
            self.calls.append(('bs', X.zbool(guard), t))
            return self.ok()

        def h_w_leaf(E_, m, func, argv, guard, mem, dty, caller):
            self.calls.append(('leaf', X.zbool(guard), strip_refs(m.group(1)), self._deref(argv[0], mem)))
            return self.ok()

        def h_len(E_, m, func, argv, guard, mem, dty, caller):
            return X.I(1, 'usize')          # lengths are irrelevant to the abstract record stream

        def h_w_lencalc(E_, m, func, argv, guard, mem, dty, caller):
            w = argv[1]
            mem[w.cell] = E.write_path(mem[w.cell], w.path + (('f', 0, 'usize'),), X.I(1, 'usize'), mem, guard, 'tlv')
            return self.ok()
        models = [
            (r'^<BigSize as (?:util::ser::)?Writeable>::write::<W>$', h_w_bigsize),
            (r'^<(.*) as (?:util::ser::)?Writeable>::write::<W>$', h_w_leaf),
            (r' as (?:util::ser::)?Writeable>::write::<(?:util::ser::)?LengthCalculatingWriter>$', h_w_lencalc),
            (r' as (?:util::ser::)?Writeable>::serialized_length$', h_len),
        ]
        for rx, h in reversed(models):
            E.models.insert(0, (re.compile(rx), h))

    def finish_writer(self):
        """group the recorded writes into records (after the leading length prefix)"""
        calls = self.calls
        if not calls or calls[0][0] != 'bs':
            raise X.Unsupported('TLV writer did not start with a length prefix')
        k = 1
        while k < len(calls):
            if k + 2 >= len(calls) or not (calls[k][0] == 'bs' and calls[k + 1][0] == 'bs' and calls[k + 2][0] == 'leaf'):
                raise X.Unsupported('TLV writer output is not a sequence of (type, length, value) triples at write %d' % k)
            t = calls[k][2]
            t = t if isinstance(t, int) else z3.simplify(t)
            if not isinstance(t, int):
                if z3.is_int_value(t):
                    t = t.as_long()
                elif not getattr(self, 'symbolic_types', False):
                    raise X.Unsupported('symbolic TLV type')
            self.recs.append(dict(p=calls[k][1], t=t, ty=calls[k + 2][2], v=calls[k + 2][3]))
            k += 3
        return self.recs

    # ---------------------------------------------------------------- reader side
    def install_reader(self):
        E, D = self.E, self.D
        recs = self.recs
        n = len(recs)
        DE = lambda nm: D.variant_index('DecodeError', nm)

        def nxt_after(prev):
            r = z3.IntVal(n)
            for i in range(n - 1, -1, -1):
                r = z3.If(z3.And(recs[i]['p'], z3.IntVal(i) > prev), i, r)
            return r

        def h_r_type(E_, m, func, argv, guard, mem, dty, caller):
            self.iter += 1
            cur = z3.Int('%s.cur%d' % (self.prefix, self.iter))
            E.assume(cur == nxt_after(self.cur[-1] if self.cur else z3.IntVal(-1)))
            self.cur.append(cur)
            ty = z3.IntVal(0)
            for i in range(n):
                ty = z3.If(cur == i, recs[i]['t'], ty)
            return X.En('Result', z3.If(cur < n, 0, 1), {0: [X.Adt('BigSize', {0: X.I(ty, 'u64')})], 1: [X.En('DecodeError', DE('ShortRead'), {})]})

        def h_r_len(E_, m, func, argv, guard, mem, dty, caller):
            return X.En('Result', 0, {0: [X.Adt('BigSize', {0: X.I(1, 'u64')})]})

        def h_r_leaf(E_, m, func, argv, guard, mem, dty, caller):
            ty = m.group(1)
            mw = re.match(r'(?:util::ser::)?RequiredWrapper<(.*)>$', ty)
            wrap = lambda v: v
            if mw:
                # the generic wrapper impl (not monomorphised in MIR): Ok(RequiredWrapper(Some(read::<T>()?)))
                ty = mw.group(1)
                wrap = lambda v: X.Adt('RequiredWrapper', {0: X.En('Option', 1, {1: [v]})})
            if ty == 'BigSize':
                return NotImplemented
            if re.match(r'(?:util::ser::)?(WithoutLength|Option)<', ty) and not any(norm_ty(r_['ty']) == norm_ty(ty) for r_ in recs):
                return NotImplemented          # a wrapper whose own impl is crate code: let it run
            if not self.cur:
                return NotImplemented
            cur = self.cur[-1]
            val = None
            for i in range(n):
                if norm_ty(recs[i]['ty']) == norm_ty(ty):
                    val = recs[i]['v'] if val is None else E.merge(cur == i, recs[i]['v'], val)
            if val is None:
                val = E.sym('%s.unmatched!%d' % (self.prefix, next(self.nfresh)), ty, mem)
            return X.En('Result', 0, {0: [wrap(val)]})
        models = [
            (r'^<BigSize as (?:util::ser::)?Readable>::read::<(?:util::ser::)?ReadTrackingReader<', h_r_type),
            (r'^<BigSize as (?:util::ser::)?Readable>::read::<', h_r_len),
            (r'^<(.*) as (?:util::ser::)?(?:Length)?Readable>::read(?:_from_fixed_length_buffer)?::<', h_r_leaf),
            (r'FixedLengthReader::<.*>::new$', lambda *a: X.Adt('FixedLengthReader', {}, base=self.prefix + '.flr')),
            (r'ReadTrackingReader::<.*>::new$', lambda *a: X.Adt('ReadTrackingReader', {0: X.Opaque('inner'), 1: X.B(False)})),
            (r'FixedLengthReader::<.*>::bytes_remain$', lambda *a: X.B(False)),
            (r'FixedLengthReader::<.*>::eat_remaining$', lambda *a: self.ok()),
            (r'^<RangeFull as RangeBounds<u64>>::contains::<u64>$', lambda *a: X.B(True)),
        ]
        for rx, h in reversed(models):
            E.models.insert(0, (re.compile(rx), h))
        E.unwind = max(E.unwind, n + 2)


def find_fn(S, rx):
    ix = S.mir()
    c = [i for i in range(len(ix.offsets)) if re.search(rx, ix.offsets[i][0])]
    if len(c) != 1:
        raise X.Unsupported('%d functions match %s' % (len(c), rx))
    return ix.get(c[0])


def roundtrip(S, D, E, mem, fw, fr, self_ref, extra_writer_args=()):
    """write `*self_ref` with fw, read it back with fr over the abstract stream.
    returns (stream, writer returned Ok, reader returned Ok, value read back)"""
    T = TlvStream(E, D)
    T.install_writer()
    wcell = E.new_cell()
    mem[wcell] = X.Opaque('writer')
    wr = S.call(E, fw, [self_ref] + list(extra_writer_args) + [X.Ref(wcell)], mem)
    w_ok = z3.And(S.ret_guard, X.zint(wr.d) == 0)
    T.finish_writer()
    T.install_reader()
    rcell = E.new_cell()
    mem[rcell] = X.Opaque('reader')
    rr = S.call(E, fr, [X.Ref(rcell)], mem)
    r_ok = z3.And(S.ret_guard, X.zint(rr.d) == 0)
    return T, w_ok, r_ok, rr.vs[0][0]
