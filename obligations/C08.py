"""C08 — HTLC deadlines: every CLTV boundary inequality, for all heights / expiries."""
import z3
from engine_m import exec as X
from engine_m.session import Binding
from .common import *

# Specification constants, from the documented relationships (BOLT-2 / channelmonitor docs):
MAX_BLOCKS_FOR_CONF = 18
CLTV_CLAIM_BUFFER = 2 * MAX_BLOCKS_FOR_CONF          # 36
LATENCY_GRACE = 3
HTLC_FAIL_BACK_BUFFER = CLTV_CLAIM_BUFFER + LATENCY_GRACE   # 39
CLTV_FAR_FAR_AWAY = 14 * 24 * 6                       # 2016
ANTI_REORG_DELAY = 6
MIN_CLTV_EXPIRY_DELTA = 48

EVIDENCE = dict(
    assumptions=['block heights < 2^31 (u32 heights; >= 2^32-2016 overflows `cur_height + const` and panics in the dev profile — outside the claim)',
                 'only per-HTLC decisions are decided (one HTLC at a time: admission, acceptance, and the go-on-chain decision of should_broadcast_holder_commitment_txn as one loop iteration each); the end-to-end race against the chain and holding-cell time-outs are outside the claim'],
)


def run(S):
    D = S.decls()
    # ---- C08.a / C08.b: forward admission check --------------------------------------
    E = S.engine()
    f = S.fn('check_incoming_htlc_cltv')
    mem = {}
    h, out, cltv, d = E.sym('h', 'u32'), E.sym('out', 'u32'), E.sym('cltv', 'u32'), E.sym('d', 'u16')
    rv = S.call(E, f, [h, out, cltv, d], mem)
    ok = is_ok(rv)
    reason = err_payload(rv).d
    pre = [h.t < (1 << 31)]
    R = lambda n: D.variant_index('LocalHTLCFailureReason', n)
    bind = Binding('check_incoming_htlc_cltv', [h.t, out.t, cltv.t, d.t], [rv.d, reason],
                   parse=reason_parser(D), panic=z3.Or(*[X.zbool(p[0]) for p in E.panics]) if E.panics else False,
                   domain=[(0, U32), (0, U32), (0, U32), (0, U16)], interesting=[39, 2016, 3, 500000000])
    S.validate('C08.a.validate', E, bind)
    c1 = cltv.t >= out.t + d.t
    c2 = cltv.t > h.t + HTLC_FAIL_BACK_BUFFER
    c3 = cltv.t <= h.t + CLTV_FAR_FAR_AWAY
    c4 = out.t > h.t + LATENCY_GRACE
    S.prove('C08.a.ok_iff', E, pre, ok == z3.And(c1, c2, c3, c4),
            'forwarding is admitted iff cltv >= out+delta, cltv > h+39, cltv <= h+2016, out > h+3',
            [bind], bounds='all u32 heights < 2^31, all u32 expiries, all u16 deltas')
    S.prove('C08.a.reasons', E, pre, z3.Implies(z3.Not(ok), z3.And(
        z3.Implies(z3.Not(c1), reason == R('IncorrectCLTVExpiry')),
        z3.Implies(z3.And(c1, z3.Not(c2)), reason == R('CLTVExpiryTooSoon')),
        z3.Implies(z3.And(c1, c2, z3.Not(c3)), reason == R('CLTVExpiryTooFar')),
        z3.Implies(z3.And(c1, c2, c3, z3.Not(c4)), reason == R('OutgoingCLTVTooSoon')))),
        'each failure names the first violated clause', [bind])
    S.no_panic('C08.a.nopanic', E, pre, 'no overflow panic for heights < 2^31', [bind])
    S.witness('C08.a.witness', E, pre, ok)
    # b: safety margins compose: an admitted forward with the node's minimum delta leaves room to
    # claim downstream, get the claim confirmed and buried, and still act upstream.
    S.prove('C08.b.margin', E, pre + [d.t >= MIN_CLTV_EXPIRY_DELTA], z3.Implies(ok, z3.And(
        cltv.t - (out.t + LATENCY_GRACE) >= 2 * MAX_BLOCKS_FOR_CONF + LATENCY_GRACE + ANTI_REORG_DELAY,
        cltv.t - h.t > HTLC_FAIL_BACK_BUFFER,
        out.t - h.t > LATENCY_GRACE)),
        'admitted forward with delta >= MIN_CLTV_EXPIRY_DELTA keeps >= 2*MAX_BLOCKS_FOR_CONF + grace + ANTI_REORG_DELAY blocks between downstream grace expiry and upstream expiry',
        [bind])

    # ---- C08.c: claim deadline <=> automatic fail-back boundary -----------------------
    E = S.engine()
    f = S.fn('check_onchain_timeout')
    mem = {}
    part = E.sym('part', f.params[0][1], mem)
    hh = E.sym('height', 'u32')
    rv = S.call(E, f, [part, hh], mem)
    pv = X.Engine.read_path(E, mem[part.cell], (), mem, True, 'spec')
    exp = field(E, D, 'MppPart', 'cltv_expiry', pv, 'u32')
    # a final-hop HTLC is only accepted with cltv_expiry > height + HTLC_FAIL_BACK_BUFFER at receipt
    pre = [exp.t >= HTLC_FAIL_BACK_BUFFER, hh.t < (1 << 31)]
    bind = Binding('mpp_check_onchain_timeout', [exp.t, hh.t], [rv.t],
                   panic=z3.Or(*[X.zbool(p[0]) for p in E.panics]) if E.panics else False,
                   domain=[(0, U32), (0, U32)], interesting=[39, 38, 40])
    S.validate('C08.c.validate', E, bind)
    S.prove('C08.c.boundary', E, pre, X.zbool(rv.t) == (hh.t + HTLC_FAIL_BACK_BUFFER >= exp.t),
            'an MPP part is failed back at height h iff h >= cltv_expiry - HTLC_FAIL_BACK_BUFFER (so it is claimable at every height strictly below)',
            [bind], bounds='all u32 heights < 2^31, expiry >= 39')
    S.no_panic('C08.c.nopanic', E, pre, 'no underflow for expiries admitted by the final-hop check', [bind])
    S.witness('C08.c.witness', E, pre, rv.t)
    height_timer(S, D)
    final_hop(S, D)
    go_onchain(S, D)
    claim_deadline(S, D)
    early_fail_back(S, D)
    from .C02 import forward_admission_manager
    forward_admission_manager(S, D, 'C08.e')


def height_timer(S, D):
    """C08.d: how often a pending on-chain claim is re-evaluated as its deadline approaches"""
    from .pkg_common import sym_package, oracle_input_args, inputs_line
    NCAP = 2 if S.tier == 'quick' else 3
    E = S.engine(unwind=NCAP + 1)
    mem = {}
    f = S.fn('get_height_timer', first_param='PackageTemplate')
    pkg_ref, pkg, views, n = sym_package(S, E, D, mem, NCAP)
    h = E.sym('h', 'u32')
    rv = S.call(E, f, [pkg_ref, h], mem)
    csh = field(E, D, 'PackageTemplate', 'counterparty_spendable_height', mem[pkg_ref.cell], 'u32').t
    pre = [h.t < (1 << 31), csh < 500000000] + [z3.And(v['off_cltv'] < 500000000, v['rec_cltv'] < 500000000, v['hol_cltv'] < 500000000) for v in views]
    panic = z3.Or(*[X.zbool(p[0]) for p in E.panics]) if E.panics else False
    args = oracle_input_args(E, views, n) + [csh, h.t]
    b = Binding('get_height_timer', args, [rv.t], panic=panic, line_fn=inputs_line(NCAP))

    def timer_for(T):
        return z3.If(T <= h.t + 3, h.t + 1, z3.If(T <= h.t + 15, h.t + 3, h.t + 15))
    spec = h.t + 15
    per = []
    for v in views:
        k = v['kind']
        # deadline by which the claim must be confirmed, per input kind (None = no deadline)
        t = z3.If(k == 0, timer_for(csh),                                  # revoked to_local: their CSV expiry
            z3.If(k == 1, h.t + 15,                                         # revoked HTLC: no urgency until it is spent
            z3.If(k == 2, timer_for(v['off_cltv']),                         # inbound HTLC claimed by preimage: before its CLTV
            z3.If(k == 3, timer_for(v['rec_cltv'] + MIN_CLTV_EXPIRY_DELTA),  # outbound HTLC timeout: before the inbound edge expires
            z3.If(k == 4, z3.If(v['preimage'], timer_for(csh), timer_for(v['hol_cltv'] + MIN_CLTV_EXPIRY_DELTA)),
                  h.t + 1)))))                                              # funding output: every block
        t = z3.If(v['present'], t, h.t + 15)
        per.append(t)
        spec = z3.If(t < spec, t, spec)
    S.prove('C08.d.height_timer', E, pre, rv.t == spec,
            'the re-bump timer is the minimum over the inputs of: h+1 when the input deadline is within 3 blocks, h+3 within 15, else h+15; deadlines: CLTV for preimage claims of inbound HTLCs, CLTV + MIN_CLTV_EXPIRY_DELTA for time-outs of outbound HTLCs, the counterparty CSV height for revoked balances, every block for the funding output',
            [b], bounds='<= %d inputs of any kind, heights < 2^31, expiries < 500000000' % NCAP)
    S.prove('C08.d.range', E, pre, z3.And(rv.t > h.t, rv.t <= h.t + 15), 'the timer always lies in (h, h+15]', [b])
    S.no_panic('C08.d.nopanic', E, pre, 'no overflow for block-height locktimes', [b])
    S.witness('C08.d.witness', E, pre + [n == NCAP], rv.t == h.t + 3)


def final_hop(S, D):
    """C08.f: the final-hop acceptance check (a payment is only shown claimable with enough blocks left)"""
    import re
    E = S.engine()
    mem = {}
    f = S.fn('create_recv_pending_htlc_info')
    E.models.insert(0, (re.compile(r'sha256::Hash as .*Hash>::hash$|::to_byte_array$|SharedSecret::secret_bytes$'), lambda *a: X.Opaque('hash')))
    E.models.insert(0, (re.compile(r'PaymentHash as PartialEq>::(ne|eq)$'), lambda E_, m, *a: X.B(z3.Bool('keysend_hash_mismatch')) if m.group(1) == 'ne' else X.B(z3.Not(z3.Bool('keysend_hash_mismatch')))))
    args = []
    for (n, ty) in f.params:
        args.append(E.sym('p%d' % n, ty, mem))
    hop, amt, cltv, underpay, skim, height = args[0], args[3], args[4], args[6], args[7], args[9]
    rv = S.call(E, f, args, mem)
    returns = S.ret_guard
    ok = z3.And(returns, X.zint(rv.d) == 0)
    HV = lambda n: D.variant_index('Hop', n, hint='onion_utils')
    is_recv = X.zint(hop.d) == HV('Receive')
    payload = E.read_path(hop, (('v', 'Receive'), ('f', 0, 'ln::msgs::InboundOnionReceivePayload')), mem, True, 'spec')
    onion_amt = field(E, D, 'InboundOnionReceivePayload', 'sender_intended_htlc_amt_msat', payload, 'u64').t
    onion_cltv = field(E, D, 'InboundOnionReceivePayload', 'cltv_expiry_height', payload, 'u32').t
    pdata = field(E, D, 'InboundOnionReceivePayload', 'payment_data', payload, 'Option<ln::msgs::FinalOnionHopData>')
    keysend = field(E, D, 'InboundOnionReceivePayload', 'keysend_preimage', payload, 'Option<PaymentPreimage>')
    total = E.read_path(pdata, (('v', 'Some'), ('f', 0, 'ln::msgs::FinalOnionHopData'), ('f', D.field_index('FinalOnionHopData', 'total_msat'), 'u64')), mem, True, 'spec').t
    skim_some, skim_v = X.zint(skim.d) == 1, skim.vs[1][0].t
    pre = [height.t < (1 << 31)]
    reason = E.read_path(rv, (('v', 'Err'), ('f', 0, 'InboundHTLCErr'), ('f', D.field_index('InboundHTLCErr', 'reason'), 'onion_utils::LocalHTLCFailureReason')), mem, True, 'spec')
    R = lambda n: D.variant_index('LocalHTLCFailureReason', n)
    info = E.read_path(rv, (('v', 'Ok'), ('f', 0, 'PendingHTLCInfo')), mem, True, 'spec')
    out_amt = field(E, D, 'PendingHTLCInfo', 'outgoing_amt_msat', info, 'u64')
    panic = z3.Or(*[X.zbool(p[0]) for p in E.panics]) if E.panics else False

    def parse(t):
        if t[0] == 'Ok':
            return [0, None]
        return [1, R(t[1])]
    b = Binding('create_recv_probe', [onion_amt, onion_cltv, total, amt.t, cltv.t, underpay.t, z3.If(skim_some, 1, 0), z3.If(skim_some, skim_v, 0), height.t],
                [rv.d, X.zint(reason.d)], parse=parse, panic=panic)
    plain = [is_recv, X.zint(pdata.d) == 1, X.zint(keysend.d) == 0]      # what the native probe builds
    c_cltv = onion_cltv <= cltv.t
    c_soon = cltv.t > height.t + HTLC_FAIL_BACK_BUFFER + 1
    c_amt = z3.If(X.zbool(underpay.t), onion_amt <= z3.If(amt.t + z3.If(skim_some, skim_v, 0) > U64, U64, amt.t + z3.If(skim_some, skim_v, 0)), onion_amt <= amt.t)
    S.prove('C08.f.recv_deadline', E, pre, z3.Implies(ok, c_soon),
            'whatever the onion says, an HTLC is accepted for receipt only if it expires more than HTLC_FAIL_BACK_BUFFER + 1 blocks after the current height: a payment shown claimable is still claimable in the next block',
            bounds='all onion payload kinds, heights < 2^31, all expiries/amounts')
    S.prove('C08.f.recv_checks', E, pre + [is_recv], z3.Implies(ok, z3.And(c_cltv, c_amt)),
            'an accepted final-hop HTLC carries at least the expiry and (unless underpaying is explicitly allowed, then up to the skimmed fee) the amount the sender put in the onion')
    S.prove('C08.f.recv_plain_iff', E, pre + plain, z3.And(ok == z3.And(c_cltv, c_soon, c_amt),
            z3.Implies(z3.Not(c_cltv), X.zint(reason.d) == R('FinalIncorrectCLTVExpiry')),
            z3.Implies(z3.And(c_cltv, z3.Not(c_soon)), X.zint(reason.d) == R('PaymentClaimBuffer')),
            z3.Implies(z3.And(c_cltv, c_soon, z3.Not(c_amt)), X.zint(reason.d) == R('FinalIncorrectHTLCAmount'))),
            'for a plain (non-blinded, non-keysend) receive the three checks are also sufficient, and each refusal names the first violated check',
            [b], bounds='heights < 2^31')
    S.no_panic('C08.f.nopanic', E, pre + [X.zint(hop.d) != HV('Dummy')], 'no overflow for heights < 2^31 (the Dummy hop arm is a debug_assert!(false): such hops are peeled before this function)', [b])
    S.witness('C08.f.witness', E, pre + plain, ok)


LATENCY_GRACE_PERIOD_BLOCKS = 3
CLTV_CLAIM_BUFFER = 36          # MAX_BLOCKS_FOR_CONF * 2 (BOLT-2's "deadline for on-chain HTLC resolution" margin)


def go_onchain(S, D):
    """C08.g: ChannelMonitorImpl::should_broadcast_holder_commitment_txn - when an unresolved HTLC makes the node go
    on chain. The function scans the HTLCs of the holder commitment and of both unrevoked counterparty commitments in
    three loops; ONE iteration of each loop is executed from an arbitrary loop-head state (any number of HTLCs before
    and after), with the iterator, the preimage map lookup and the logger as stubs."""
    import re
    names = ('holder', 'counterparty_current', 'counterparty_previous')
    ids = ['C08.g.go_onchain_iff.' + n for n in names] + ['C08.g.nopanic.' + n for n in names] + ['C08.g.witness', 'C08.g.validate', 'C08.g.margins']
    if all(S._skip(o) for o in ids):
        return
    f = S.fn('should_broadcast_holder_commitment_txn')
    probe = X.FnRun(S.engine(), f, [X.Ref(0), X.Opaque('logger')], True, {})
    succ, rpo, back, encl = probe.analyse_cfg()
    heads = sorted({h for (u, h) in back if f.blocks[h][1][0] == 'call' and 'Iterator>::next' in str(f.blocks[h][1][2])})
    if len(heads) != 3:
        raise X.Unsupported('expected three HTLC scan loops in should_broadcast_holder_commitment_txn, found %d' % len(heads))
    HO = D.struct_fields('HTLCOutputInCommitment')
    first = True
    for name, head in zip(names, heads):
        E = S.engine(unwind=1)
        mem = {}
        me = E.sym('self', f.params[0][1], mem)
        htlc = E.sym('htlc', '&ln::chan_utils::HTLCOutputInCommitment', mem)
        known = z3.Bool('env.preimage_known')
        E.models.insert(0, (re.compile(r' as Iterator>::next$'), lambda *a, htlc=htlc: X.En('Option', 1, {1: [htlc]})))
        E.models.insert(0, (re.compile(r'HashMap::<.*>::contains_key::<'), lambda *a, known=known: X.B(known)))
        height = E.sym('height', 'u32')
        run = X.FnRun(E, f, [me, X.Opaque('logger')], True, mem)
        loc = lambda nm: int(f.debug[nm].lstrip('_'))
        E.depth += 1
        rv, ret, m2 = run.run(start_bb=head, init={loc('height'): height})
        E.depth -= 1
        mem.update(m2)
        hv = mem[htlc.cell]
        offered = X.zbool(E.read_path(hv, (('f', HO.index('offered'), 'bool'),), mem, True, 'spec').t)
        cltv = E.read_path(hv, (('f', HO.index('cltv_expiry'), 'u32'),), mem, True, 'spec').t
        closes = z3.And(X.zbool(ret), X.zint(rv.d) == 1) if rv is not None else z3.BoolVal(False)
        cont = X.zbool(E.merge_mem(run.cut_states)[0]) if run.cut_states else z3.BoolVal(False)
        # an HTLC is ours to time out (outbound) iff it is offered in OUR commitment / received in THEIRS
        outbound = offered if name == 'holder' else z3.Not(offered)
        spec = z3.Or(z3.And(outbound, cltv + LATENCY_GRACE_PERIOD_BLOCKS <= height.t),
                     z3.And(z3.Not(outbound), known, cltv <= height.t + CLTV_CLAIM_BUFFER))
        pre = [cltv < 500000000, height.t < (1 << 31)]      # block-height locktimes only (update_add_htlc refuses others)
        panic = z3.Or(*[X.zbool(p[0]) for p in E.panics]) if E.panics else False

        def line_fn(v):
            ob, kn, cl, hh = v
            role = 0 if ob else (1 if kn else 2)
            d = max(-45, min(8 if role != 2 else 0, hh - cl))
            return '%d %d' % (role, d)
        b = Binding('htlc_timeout_probe', [z3.If(outbound, 1, 0), z3.If(known, 1, 0), cltv, height.t], [z3.If(closes, 1, 0)], line_fn=line_fn,
                    which='oracle_tu', panic=panic)
        S.prove('C08.g.go_onchain_iff.' + name, E, pre, z3.And(closes == spec, cont == z3.Not(spec)),
                'scanning the %s commitment: an HTLC makes the monitor go on chain iff it is an outbound HTLC that expired at least LATENCY_GRACE_PERIOD_BLOCKS (3) blocks ago, or an inbound HTLC whose preimage is known and that expires within CLTV_CLAIM_BUFFER (36) blocks; otherwise the scan moves on to the next HTLC' % name.replace('_', ' '),
                [b], bounds='one loop iteration from an arbitrary loop-head state (any number of HTLCs), expiries < 500000000, heights < 2^31')
        S.no_panic('C08.g.nopanic.' + name, E, pre, 'no overflow in cltv_expiry + 3 / height + 36', [b])
        if first:
            first = False
            S.prove('C08.g.margins', E, pre, z3.And(z3.Implies(z3.And(z3.Not(outbound), known, height.t + CLTV_CLAIM_BUFFER >= cltv), closes),
                                                     z3.Implies(z3.And(outbound, height.t >= cltv + LATENCY_GRACE_PERIOD_BLOCKS), closes),
                                                     z3.Implies(z3.And(outbound, height.t < cltv + LATENCY_GRACE_PERIOD_BLOCKS), z3.Not(closes))),
                    'in time, and not early: with the preimage in hand the node is on chain while at least 36 blocks remain before the payer can time the HTLC out; an expired outbound HTLC is taken on chain from the third block after expiry on, never before (the peer gets its grace period to fail it off chain)', [b])
            S.witness('C08.g.witness', E, pre + [z3.Not(outbound), known], closes)
            S.validate('C08.g.validate', E, b, n=10, extra_vectors=[(1, 0, 1000, 1000 + k) for k in range(0, 6)] + [(0, 1, 1000, 1000 - 40 + k) for k in range(0, 8)] + [(0, 0, 1000, 1000 - 38), (0, 0, 1000, 1000 - 30)])


def early_fail_back(S, D):
    """C08.i: the early fail-back of `ChannelMonitorImpl::block_confirmed` - once a channel is closed, an HTLC we forwarded
    over it that is still unresolved is failed back upstream when the INBOUND HTLC is within LATENCY_GRACE_PERIOD_BLOCKS of
    its expiry, so that the upstream peer does not close that channel too. (a) which HTLC lists are scanned: region from
    the `no_further_updates_allowed()` test to the head of the scan loop, the look-ups in
    `counterparty_claimable_outpoints` recording stubs: exactly two look-ups, one under the CURRENT and one under the
    PREVIOUS counterparty commitment txid, each iff that txid is known (an HTLC may survive only in the previous,
    not yet revoked commitment). (b) one iteration of the scan loop from an arbitrary loop-head state."""
    import re
    ids = ['C08.i.scans_current_and_previous', 'C08.i.fail_back_iff', 'C08.i.nopanic', 'C08.i.witness']
    if all(S._skip(o) for o in ids):
        return
    f = S.fn('block_confirmed', contains='channelmonitor.rs')
    calls = lambda rx: [b for b, (bd, t) in f.blocks.items() if t[0] == 'call' and re.search(rx, str(t[2]))]
    gets = calls(r'HashMap::<(?:bitcoin::)?Txid, (?:std::vec::)?Vec<\((?:chan_utils::)?HTLCOutputInCommitment, .*>::get::<')
    nfu = calls(r'no_further_updates_allowed$')
    heads = calls(r'^<(?:std::iter::)?Chain<(?:std::iter::)?Chain<(?:std::iter::)?Chain<.* as Iterator>::next$')
    if len(gets) != 2 or len(heads) != 1 or not nfu:
        raise X.Unsupported('block_confirmed: %d look-ups, %d scan loops, %d closed-channel tests' % (len(gets), len(heads), len(nfu)))
    head = heads[0]
    # the closed-channel test that guards the scan: the one from which the look-ups are reached without passing another
    probe = X.FnRun(S.engine(), f, [X.Ref(0)] + [X.Opaque('a')] * (len(f.params) - 1), True, {})
    succ, rpo, back, encl = probe.analyse_cfg()

    def reaches(a, target, avoid):
        seen, todo = set(), [a]
        while todo:
            b = todo.pop()
            if b in seen or (b in avoid and b != a):
                continue
            seen.add(b)
            if b == target:
                return True
            todo.extend(succ.get(b, ()))
        return False
    starts = [b for b in nfu if reaches(b, gets[0], set(nfu) | {head})]
    if len(starts) != 1:
        raise X.Unsupported('block_confirmed: %d candidate region starts' % len(starts))
    MI = D.struct_fields('ChannelMonitorImpl')
    FS = D.struct_fields('FundingScope', hint='channelmonitor')
    # ---- (a) which lists are scanned
    E = S.engine(unwind=1)
    mem = {}
    me = E.sym('self', f.params[0][1], mem)
    looked = []

    def origin(v, mem_, guard):
        while isinstance(v, X.Ref):
            v = E.read_path(mem_[v.cell], v.path, mem_, guard, 'key')
        return getattr(v, 'base', None) or repr(v)

    def h_get(E_, m, func, argv, guard, mem_, dty, caller):
        k = len(looked)
        looked.append((X.zbool(guard), origin(argv[1], mem_, guard)))
        return X.En('Option', z3.If(z3.Bool('env.list%d_known' % k), 1, 0), {1: [X.Opaque('htlc list %d' % k)]})
    for rx, h in [
        (r'HashMap::<(?:bitcoin::)?Txid, .*HTLCOutputInCommitment.*>::get::<', h_get),
        (r'no_further_updates_allowed$', lambda *a: X.B(True)),
        (r'Option::<\((?:bitcoin::)?Txid, .*\)>::map::<&(?:\w+::)*FundingScope, ', lambda *a: X.En('Option', z3.If(z3.Bool('env.alternative_funding'), 1, 0), {1: [X.Opaque('confirmed alternative funding scope')]})),
        (r'Option::<&(?:\w+::)*FundingScope>::unwrap_or$', lambda *a: X.Opaque('confirmed funding scope')),
        (r' as Iterator>::(flatten|chain::<.*|map::<.*)$', lambda *a: X.Opaque('adaptor')),
        (r' as IntoIterator>::into_iter$', lambda *a: X.Opaque('iterator')),
        (r'slice::<impl \[.*\]>::iter$', lambda *a: X.Opaque('iterator')),
        (r'HolderCommitmentTransaction as (?:std::ops::)?Deref>::deref$|CommitmentTransaction::nondust_htlcs$|Vec<.*> as (?:std::ops::)?Deref>::deref$', lambda *a: X.Opaque('holder htlcs')),
    ]:
        E.models.insert(0, (re.compile(rx), h))
    run = X.FnRun(E, f, [me] + [X.Opaque('arg%d' % k) for k in range(1, len(f.params))], True, mem)
    E.depth += 1
    run.run(start_bb=starts[0], init={}, stop_bbs=(head,))
    E.depth -= 1
    reached = X.zbool(E.merge_mem(run.stop_states[head])[0]) if run.stop_states.get(head) else z3.BoolVal(False)
    import os
    if os.environ.get('C08I_DEBUG'):
        print('looked', looked); print('unsup', [w[:300] for g, w in E.unsupported])
    fund = E.read_path(mem[me.cell], (('f', MI.index('funding'), 'channelmonitor::FundingScope'),), mem, True, 'spec')
    cur = E.read_path(fund, (('f', FS.index('current_counterparty_commitment_txid'), 'Option<bitcoin::Txid>'),), mem, True, 'spec')
    prv = E.read_path(fund, (('f', FS.index('prev_counterparty_commitment_txid'), 'Option<bitcoin::Txid>'),), mem, True, 'spec')
    cur_o = origin(E.en_payload(cur, 'Some', 1, 0, 'bitcoin::Txid', mem, 'spec'), mem, True)
    prv_o = origin(E.en_payload(prv, 'Some', 1, 0, 'bitcoin::Txid', mem, 'spec'), mem, True)
    cur_some, prv_some = X.zint(cur.d) == 1, X.zint(prv.d) == 1
    wiring = len(looked) == 2 and looked[0][1] == cur_o and looked[1][1] == prv_o and cur_o != prv_o
    claim_a = z3.And(reached, z3.BoolVal(bool(wiring)), *([looked[0][0] == cur_some, looked[1][0] == prv_some] if len(looked) == 2 else []))
    bat = Binding('early_fail_back_battery', [z3.IntVal(0)], [z3.If(claim_a, 0, 1)], parse=lambda t: [0 if t[0] == '0' else 1], line_fn=lambda v: '0',
                  which='oracle_tu', via_solver=True, domain=[(0, 0)], panic=False)
    S.prove(ids[0], E, [], claim_a,
            "on a closed channel the early fail-back scans, besides our own commitment, the HTLCs recorded under the counterparty's CURRENT commitment txid and those under its PREVIOUS one - one look-up each, made iff that txid is known (an HTLC removed from the current commitment but still in the previous, unrevoked one must be failed back in time too)",
            [bat], bounds='region of block_confirmed from the closed-channel test to the head of the scan loop; pre-state arbitrary (havocked); look-ups recorded by the origin of their key')
    # ---- (b) one iteration of the scan
    E2 = S.engine(unwind=1)
    mem2 = {}
    me2 = E2.sym('self', f.params[0][1], mem2)
    htlc = E2.sym('htlc', '&ln::chan_utils::HTLCOutputInCommitment', mem2)
    has_src, exp_some, dup, fresh = z3.Bool('env.has_source'), z3.Bool('env.expiry_known'), z3.Bool('env.duplicate_event'), z3.Bool('env.not_failed_back_yet')
    expiry = E2.sym('env.inbound_expiry', 'u32')
    height = E2.sym('height', 'u32')
    pushed = []
    src = X.Opaque('source')
    for rx, h in [
        (r' as Iterator>::next$', lambda *a: X.En('Option', 1, {1: [X.Tup([htlc, X.En('Option', z3.If(has_src, 1, 0), {1: [src]})])]})),
        (r'HTLCSource>::inbound_htlc_expiry$', lambda *a: X.En('Option', z3.If(exp_some, 1, 0), {1: [expiry]})),
        (r' as Iterator>::any::<', lambda *a: X.B(dup)),
        (r'slice::<impl \[.*\]>::iter$', lambda *a: X.Opaque('iterator')),
        (r'Vec<.*> as (?:std::ops::)?Deref>::deref$', lambda *a: X.Opaque('events')),
        (r'SentHTLCId::from_source$', lambda *a: X.Opaque('htlc id')),
        (r'HashSet::<.*SentHTLCId.*>::insert$', lambda *a: X.B(fresh)),
        (r'HTLCSource as Clone>::clone$', lambda *a: X.Opaque('source copy')),
        (r'Vec::<.*MonitorEvent>::push$', lambda E_, m, func, argv, guard, mem_, dty, caller: (pushed.append((X.zbool(guard), argv[1])), X.UNIT)[1]),
    ]:
        E2.models.insert(0, (re.compile(rx), h))
    run2 = X.FnRun(E2, f, [me2] + [X.Opaque('arg%d' % k) for k in range(1, len(f.params))], True, mem2)
    loc = lambda nm: int(f.debug[nm].lstrip('_'))
    E2.depth += 1
    run2.run(start_bb=head, init={loc('height'): height})
    E2.depth -= 1
    cont = X.zbool(E2.merge_mem(run2.cut_states)[0]) if run2.cut_states else z3.BoolVal(False)
    n_push = sum([z3.If(g, 1, 0) for g, v in pushed], z3.IntVal(0))
    spec = z3.And(has_src, exp_some, expiry.t <= height.t + LATENCY_GRACE_PERIOD_BLOCKS, z3.Not(dup), fresh)
    pre2 = [height.t < (1 << 31)]
    HO = D.struct_fields('HTLCOutputInCommitment')
    amt = E2.read_path(mem2[htlc.cell], (('f', HO.index('amount_msat'), 'u64'),), mem2, True, 'spec').t
    ok_event = z3.BoolVal(True)
    if len(pushed) == 1:
        ev = pushed[0][1]
        VI = D.variant_index('MonitorEvent', 'HTLCEvent')
        up = E2.en_payload(ev, 'HTLCEvent', VI, 0, 'HTLCUpdate', mem2, 'spec')
        HU = D.struct_fields('HTLCUpdate')
        pre_ = E2.read_path(up, (('f', HU.index('payment_preimage'), 'Option<PaymentPreimage>'),), mem2, True, 'spec')
        val = E2.read_path(up, (('f', HU.index('htlc_value_satoshis'), 'u64'),), mem2, True, 'spec')
        if isinstance(val, X.En):
            ok_event = z3.And(X.zint(pre_.d) == 0, X.zint(val.d) == 1, E2.en_payload(val, 'Some', 1, 0, 'u64', mem2, 'spec').t == amt / 1000)
        else:
            ok_event = z3.And(X.zint(pre_.d) == 0, X.zint(val.t) == amt / 1000)
    claim_b = z3.And(cont, n_push == z3.If(spec, 1, 0), z3.Implies(spec, ok_event), z3.BoolVal(len(pushed) == 1))
    bat2 = Binding('early_fail_back_battery', [z3.IntVal(0)], [z3.If(claim_b, 0, 1)], parse=lambda t: [0 if t[0] == '0' else 1], line_fn=lambda v: '0',
                   which='oracle_tu', via_solver=True, domain=[(0, 0)], panic=False)
    S.prove(ids[1], E2, pre2, claim_b,
            'one scanned HTLC: a failure (no preimage, the HTLC\'s value in sat) is queued for the upstream channel iff the HTLC was forwarded (has a source with an inbound expiry), that expiry is at most LATENCY_GRACE_PERIOD_BLOCKS = 3 above the current height, no event for the same source is pending and it was not failed back before; then the scan goes on',
            [bat2], bounds='one iteration from an arbitrary loop-head state; heights < 2^31; iterator, source accessors, the pending-event search and the failed-back set stubbed')
    S.no_panic(ids[2], E2, pre2, 'no overflow (saturating_add)', [])
    S.witness(ids[3], E2, pre2 + [spec], n_push == 1)


def claim_deadline(S, D):
    """C08.h: ChannelManager::handle_claimable_htlc - the claim deadline announced with PaymentClaimable. Whole function;
    the claimable-payments map, the purpose comparison, check_incoming_mpp_part (which appends the new part and says
    whether the payment is complete) and the event queue are stubs; the part list after that call is an arbitrary list
    of <= 3 parts."""
    import re
    ids = ['C08.h.claim_deadline', 'C08.h.event_iff_complete', 'C08.h.nopanic', 'C08.h.witness', 'C08.h.validate']
    if all(S._skip(o) for o in ids):
        return
    NP = 3
    f = S.fn('handle_claimable_htlc')
    E = S.engine(unwind=NP + 2)
    E.slice_cap = NP
    mem = {}
    args = []
    for n, t in f.params:
        args.append(E.sym('a%d' % n, t, mem) if (t.startswith('&') or 'ClaimableHTLC' in t) else X.Opaque('arg%d' % n))
    claiming, differs = z3.Bool('env.already_claiming'), z3.Bool('env.purpose_differs')
    chk_d, chk_b = z3.Int('env.check.d'), z3.Bool('env.check.complete')
    E.assume(z3.And(chk_d >= 0, chk_d <= 1))
    cp = E.sym('payment', '&mut ln::channelmanager::ClaimablePayment', mem)
    skim = E.sym('env.skimmed', 'u64')
    events = []
    for rx, h in [
        (r'HashMap::<.*ClaimingPayment.*>::contains_key::<', lambda *a: X.B(claiming)),
        (r'HashMap::<.*ClaimablePayment.*>::entry$', lambda *a: X.Opaque('entry')),
        (r'Entry::<.*>::or_insert_with::<', lambda *a: cp),
        (r'PaymentPurpose::is_keysend$', lambda *a: X.B(z3.Bool('env.keysend'))),
        (r'PaymentPurpose as PartialEq>::ne$', lambda *a: X.B(differs)),
        (r'check_incoming_mpp_part::<', lambda *a: X.En('Result', chk_d, {0: [X.B(chk_b)], 1: [X.UNIT]})),
        (r'ClaimablePayment::total_counterparty_skimmed_msat$', lambda *a: skim),
        (r'ClaimablePayment::(receiving_channel_ids|inbound_payment_id)$', lambda *a: X.Opaque('derived')),
        (r'as Clone>::clone$', lambda *a: X.Opaque('clone')),
        (r'VecDeque::<.*>::push_back$', lambda E_, m, func, argv, guard, mem_, dty, caller: (events.append((X.zbool(guard), argv[1])), X.UNIT)[1]),
    ]:
        E.models.insert(0, (re.compile(rx), h))
    rv = S.call(E, f, args, mem)
    ret = S.ret_guard
    if len(events) != 1:
        raise X.Unsupported('expected one event push, found %d; %s' % (len(events), [w for g_, w in E.unsupported][:3]))
    g_ev, ev_pair = events[0]
    ev = ev_pair.fs[0]
    EV = [v for v in D.enum_variants('Event', hint='events/mod.rs') if v[0] == 'PaymentClaimable'][0][2]
    VI = D.variant_index('Event', 'PaymentClaimable', hint='events/mod.rs')
    dl = E.en_payload(ev, 'PaymentClaimable', VI, EV.index('claim_deadline'), 'Option<u32>', mem, 'spec')
    amt = E.en_payload(ev, 'PaymentClaimable', VI, EV.index('amount_msat'), 'u64', mem, 'spec').t
    CP = D.struct_fields('ClaimablePayment')
    CH, MP = D.struct_fields('ClaimableHTLC'), D.struct_fields('MppPart')
    htlcs = E.read_path(mem[cp.cell], (('f', CP.index('htlcs'), 'std::vec::Vec<ln::channelmanager::ClaimableHTLC>'),), mem, True, 'spec')
    n = htlcs.n

    def part(i, nm, ty):
        mp = E.read_path(htlcs.elems[i], (('f', CH.index('mpp_part'), 'ln::channelmanager::MppPart'),), mem, True, 'spec')
        return E.read_path(mp, (('f', MP.index(nm), ty),), mem, True, 'spec').t
    cltv = [part(i, 'cltv_expiry', 'u32') for i in range(NP)]
    val = [part(i, 'value', 'u64') for i in range(NP)]
    siv = [part(i, 'sender_intended_value', 'u64') for i in range(NP)]
    complete = z3.And(z3.Not(claiming), z3.Not(differs), chk_d == 0, chk_b)
    mn = cltv[0]            # minimum over the present prefix of the list
    for i in range(1, NP):
        mn = z3.If(z3.And(n > i, cltv[i] < mn), cltv[i], mn)
    total = sum([z3.If(n > i, val[i], 0) for i in range(NP)])
    total_siv = sum([z3.If(n > i, siv[i], 0) for i in range(NP)])
    # parts are real HTLCs: at least 1 msat each (update_add_htlc refuses 0) and far below the 21e6 BTC cap in total
    pre = [z3.Implies(complete, n >= 1)] + [c >= HTLC_FAIL_BACK_BUFFER for c in cltv] + [z3.And(v >= 1, v <= 1 << 50) for v in val + siv] + \
          [z3.If(total_siv > total, total_siv - total, 0) <= skim.t]
    panic = z3.Or(*[X.zbool(p[0]) for p in E.panics]) if E.panics else False
    flat = [n]
    for i in range(NP):
        flat += [cltv[i], val[i]]

    def line_fn(v):
        k = v[0]
        return ' '.join(str(x) for x in [k] + list(v[1:1 + 2 * k]) + [v[-2]])
    # the live probe feeds exactly the parts of the list and completes the payment with the last one (purposes agree, the
    # MPP bookkeeping is the real one); with the flag set, an earlier claim of the same hash is still in flight
    env_ok = z3.And(z3.Not(differs), chk_d == 0, chk_b)
    b = Binding('claim_deadline_probe', flat + [z3.If(claiming, 1, 0), z3.If(env_ok, 1, 0)], [z3.If(g_ev, 1, 0), z3.If(g_ev, amt, 0), z3.If(g_ev, E.en_payload(dl, 'Some', 1, 0, 'u32', mem, 'spec').t, 0)],
                line_fn=line_fn, which='oracle_tu', panic=panic, via_solver=True,
                domain=[(1, NP)] + [(HTLC_FAIL_BACK_BUFFER, 1 << 20), (1, 1 << 30)] * NP + [(0, 1), (1, 1)])
    S.prove(ids[0], E, pre + [complete], z3.And(g_ev, ret, X.zint(dl.d) == 1, E.en_payload(dl, 'Some', 1, 0, 'u32', mem, 'spec').t == mn - HTLC_FAIL_BACK_BUFFER, amt == total),
            'when the last part completes a payment, PaymentClaimable announces claim_deadline = (the EARLIEST cltv_expiry over all its parts) - HTLC_FAIL_BACK_BUFFER and the sum of the parts\' values: claiming strictly below that height is safe for every part (C08.c: below it no part is failed back)',
            [b], bounds='<= %d parts in any order, all u32 expiries >= 39, part values 1 .. 2^50 msat; map / purpose / MPP bookkeeping stubbed' % NP)
    S.prove(ids[1], E, pre, g_ev == complete,
            'a PaymentClaimable event is generated iff the payment is not already being claimed, the purposes agree and the MPP bookkeeping reports the payment complete', [b])
    S.no_panic(ids[2], E, pre, 'no overflow / underflow (expiries of accepted parts exceed the fail-back buffer), the internal debug_asserts hold', [b])
    S.witness(ids[3], E, pre + [complete, n == NP, cltv[1] < cltv[0]], g_ev)
    S.validate(ids[4], E, b, n=40 if S.tier == 'quick' else 200)
