"""C06 — a revoked commitment is fully punished: the fee / scheduling kernels that justice claims run on.

Justice transactions are ordinary malleable claim packages (chain/package.rs): the obligations of C07
(first-attempt fee, RBF bumping, package output, merge) and of C08.d (re-bump timer) are re-run here under
C06 ids, plus the classification of revoked outputs as malleable / aggregatable."""
import z3
from engine_m import exec as X
from engine_m.session import Binding, Inconclusive
from .common import *

EVIDENCE = dict(assumptions=[
    'retained data: after any protocol-order prefix of revocations (top m commitment indices, SHA-256 uninterpreted, symbolic seed) every revoked secret is recoverable from the counterparty-secret store',
    'kernel only (narrow): justice claims are re-issued with adequate, monotonically rising fees and on an urgency schedule tied to the counterparty CSV height; revoked outputs are classified malleable so that fee bumping applies',
    'detection of the revoked transaction, secret derivation (SHA-256), package construction, witness / script validity, HTLC-transaction follow-up, reload and block-delivery styles are outside the claim',
    'transaction weight ranges over a stated finite set; inputs <= 21e14 sat; fee estimator = arbitrary u32'])


def run(S):
    D = S.decls()
    from . import C07, C08
    S.alias = {'C07.a': 'C06.b.first_fee', 'C07.b': 'C06.b.bump', 'C07.c': 'C06.b.output', 'C07.d': 'C06.b.locktime', 'C07.f': 'C06.b.merge', 'C08.d': 'C06.b.timer'}
    W = C07.weights(S)
    from .secrets import honest_sequence
    honest_sequence(S, D, 'C06.a.secrets', 8 if S.tier == 'quick' else 32)
    revoked_classification(S, D)
    claimed_amounts(S, D)
    C07.fee_from_spent(S, D, W)
    C07.bump(S, D, W)
    C07.locktime_and_output(S, D, W)
    C07.merge(S, D)
    C08.height_timer(S, D)


def revoked_classification(S, D):
    E = S.engine()
    mem = {}
    f = S.fn('map_output_type_flags', first_param='PackageSolvingData')
    sd = E.sym('sd', f.params[0][1], mem)
    rv = S.call(E, f, [sd], mem)
    v = mem[sd.cell]
    kind = X.zint(v.d)
    MAL = D.variant_index('PackageMalleability', 'Malleable')
    S.prove('C06.a.revoked_outputs_are_malleable', E, [z3.Or(kind == 0, kind == 1)], X.zint(rv.d) == MAL,
            'claims on revoked to_local and revoked HTLC outputs are malleable packages: they can be aggregated and their fee bumped (they are never treated as pre-signed, untractable transactions)',
            bounds='both revoked input kinds, any HTLC direction')
    cluster = E.read_path(rv, (('v', 'Malleable'), ('f', 0, 'package::AggregationCluster')), mem, True, 'spec')
    UNPIN = D.variant_index('AggregationCluster', 'Unpinnable')
    S.prove('C06.a.revoked_to_local_unpinnable', E, [kind == 0], z3.And(X.zint(rv.d) == MAL, X.zint(cluster.d) == UNPIN),
            'the revoked balance output can only be claimed by us before its CSV expires, so it is aggregated with other unpinnable claims')
    S.no_panic('C06.a.nopanic', E, [], 'classification is total')


def claimed_amounts(S, D):
    """the value a justice / HTLC claim input is credited with equals the value of the HTLC output on the
    commitment transaction (floor(amount_msat / 1000)); a wrong amount makes the segwit signature - and with
    aggregation every claim in the same transaction - invalid"""
    import re
    E = S.engine()
    mem = {}
    f = S.fn('build', first_param='PublicKey', contains='-> package::RevokedHTLCOutput', nargs=5)
    for nm in ['weight_revoked_offered_htlc', 'weight_revoked_received_htlc']:
        E.models.insert(0, (re.compile(r'(?:^|::)%s$' % nm), lambda *a: X.I(z3.Int('env.weight'), 'u64')))
    E.assume(z3.And(z3.Int('env.weight') >= 0, z3.Int('env.weight') < 1 << 32))
    E.models.insert(0, (re.compile(r'as_counterparty_broadcastable$'), lambda *a: X.Adt('DirectedChannelTransactionParameters', {}, base='directed')))

    def h_keys(E_, m, func, argv, guard, mem_, *r):
        c = E_.new_cell()
        mem_[c] = X.Adt('ChannelPublicKeys', {}, base='cpkeys')
        return X.Ref(c)
    E.models.insert(0, (re.compile(r'broadcaster_pubkeys$'), h_keys))
    args = [E.sym('a%d' % n, t, mem) for n, t in f.params]
    rv = S.call(E, f, args, mem)
    htlc = args[2]
    amt_msat = field(E, D, 'HTLCOutputInCommitment', 'amount_msat', htlc, 'u64').t
    offered = field(E, D, 'HTLCOutputInCommitment', 'offered', htlc, 'bool').t
    stored = field(E, D, 'RevokedHTLCOutput', 'amount', rv, 'u64').t
    # PackageSolvingData::amount on a symbolic input of each HTLC kind
    fa = S.fn('amount', first_param='PackageSolvingData')
    sd = E.sym('sd', fa.params[0][1], mem)
    am = S.call(E, fa, [sd], mem)
    v = mem[sd.cell]
    kind = X.zint(v.d)
    HO = D.struct_fields('HTLCOutputInCommitment')

    def htlc_amt(variant):
        o = E.read_path(v, (('v', variant), ('f', 0, 'package::' + variant)), mem, True, 'spec')
        h = E.read_path(o, (('f', D.field_index(variant, 'htlc'), 'chan_utils::HTLCOutputInCommitment'),), mem, True, 'spec')
        return E.read_path(h, (('f', HO.index('amount_msat'), 'u64'),), mem, True, 'spec').t
    rev = E.read_path(v, (('v', 'RevokedHTLCOutput'), ('f', 0, 'package::RevokedHTLCOutput')), mem, True, 'spec')
    rev_amount = field(E, D, 'RevokedHTLCOutput', 'amount', rev, 'u64').t
    b = Binding('revoked_htlc_claim_amount', [amt_msat, offered], [stored, None], parse=lambda t: [int(t[0]), None])
    S.prove('C06.a.revoked_htlc_amount', E, [], stored == amt_msat / 1000,
            'the justice input for a revoked HTLC output is credited with exactly the value of that output: floor(amount_msat / 1000) satoshis', [b],
            bounds='all u64 HTLC amounts, both directions')
    S.prove('C06.a.claim_amounts', E, [], z3.And(
        z3.Implies(kind == 1, am.t == rev_amount),
        z3.Implies(kind == 2, am.t == htlc_amt('CounterpartyOfferedHTLCOutput') / 1000),
        z3.Implies(kind == 3, am.t == htlc_amt('CounterpartyReceivedHTLCOutput') / 1000)),
        'the amount a package accounts for each counterparty HTLC input is the on-chain value of that output (floor(msat/1000)); for revoked HTLC inputs it is the amount stored at construction')
    S.no_panic('C06.a.amounts_nopanic', E, [z3.Or(kind == 0, kind == 1, kind == 2, kind == 3)], 'total for revoked / counterparty HTLC inputs')
