"""C06 — a revoked commitment is fully punished: the fee / scheduling kernels that justice claims run on.

Justice transactions are ordinary malleable claim packages (chain/package.rs): the obligations of C07
(first-attempt fee, RBF bumping, package output, merge) and of C08.d (re-bump timer) are re-run here under
C06 ids, plus the classification of revoked outputs as malleable / aggregatable."""
import z3
from engine_m import exec as X
from engine_m.session import Binding, Inconclusive
from .common import *

EVIDENCE = dict(assumptions=[
    'retained data: after any protocol-order prefix of revocations (top m commitment indices, SHA-256 uninterpreted, symbolic seed) every revoked secret is recoverable from the counterparty-secret store',
    'kernel only (narrow): justice claims are re-issued with adequate, monotonically rising fees and on an urgency schedule tied to the counterparty CSV height; revoked outputs are classified malleable so that fee bumping applies',
    'C06.c: one iteration of the loop of check_spend_counterparty_transaction that queues a justice claim per HTLC output of a revoked commitment; keys, scripts, cloning, the package constructors and the transaction\'s output vector are stubs',
    'C06.d: the closure passed to retain in filter_block, <= 2 inputs per transaction; spends_watched_output, HashSet::contains / insert and compute_txid are stubs (free boolean per lookup, insertions recorded)',
    'detection of the revoked transaction, secret derivation (SHA-256), the balance-output claim, witness / script validity, HTLC-transaction follow-up, reload and block-delivery styles are outside the claim',
    'transaction weight ranges over a stated finite set; inputs <= 21e14 sat; fee estimator = arbitrary u32'])


def run(S):
    D = S.decls()
    from . import C07, C08
    S.alias = {'C07.a': 'C06.b.first_fee', 'C07.b': 'C06.b.bump', 'C07.c': 'C06.b.output', 'C07.d': 'C06.b.locktime', 'C07.f': 'C06.b.merge', 'C08.d': 'C06.b.timer'}
    W = C07.weights(S)
    from .secrets import honest_sequence
    honest_sequence(S, D, 'C06.a.secrets', 8 if S.tier == 'quick' else 32)
    revoked_classification(S, D)
    claimed_amounts(S, D)
    revoked_htlc_claims(S, D)
    block_filter(S, D)
    C07.fee_from_spent(S, D, W)
    C07.bump(S, D, W)
    C07.locktime_and_output(S, D, W)
    C07.merge(S, D)
    C08.height_timer(S, D)


def revoked_classification(S, D):
    E = S.engine()
    mem = {}
    f = S.fn('map_output_type_flags', first_param='PackageSolvingData')
    sd = E.sym('sd', f.params[0][1], mem)
    rv = S.call(E, f, [sd], mem)
    v = mem[sd.cell]
    kind = X.zint(v.d)
    MAL = D.variant_index('PackageMalleability', 'Malleable')
    S.prove('C06.a.revoked_outputs_are_malleable', E, [z3.Or(kind == 0, kind == 1)], X.zint(rv.d) == MAL,
            'claims on revoked to_local and revoked HTLC outputs are malleable packages: they can be aggregated and their fee bumped (they are never treated as pre-signed, untractable transactions)',
            bounds='both revoked input kinds, any HTLC direction')
    cluster = E.read_path(rv, (('v', 'Malleable'), ('f', 0, 'package::AggregationCluster')), mem, True, 'spec')
    UNPIN = D.variant_index('AggregationCluster', 'Unpinnable')
    S.prove('C06.a.revoked_to_local_unpinnable', E, [kind == 0], z3.And(X.zint(rv.d) == MAL, X.zint(cluster.d) == UNPIN),
            'the revoked balance output can only be claimed by us before its CSV expires, so it is aggregated with other unpinnable claims')
    S.no_panic('C06.a.nopanic', E, [], 'classification is total')


def claimed_amounts(S, D):
    """the value a justice / HTLC claim input is credited with equals the value of the HTLC output on the
    commitment transaction (floor(amount_msat / 1000)); a wrong amount makes the segwit signature - and with
    aggregation every claim in the same transaction - invalid"""
    import re
    E = S.engine()
    mem = {}
    f = S.fn('build', first_param='PublicKey', contains='-> package::RevokedHTLCOutput', nargs=5)
    for nm in ['weight_revoked_offered_htlc', 'weight_revoked_received_htlc']:
        E.models.insert(0, (re.compile(r'(?:^|::)%s$' % nm), lambda *a: X.I(z3.Int('env.weight'), 'u64')))
    E.assume(z3.And(z3.Int('env.weight') >= 0, z3.Int('env.weight') < 1 << 32))
    E.models.insert(0, (re.compile(r'as_counterparty_broadcastable$'), lambda *a: X.Adt('DirectedChannelTransactionParameters', {}, base='directed')))

    def h_keys(E_, m, func, argv, guard, mem_, *r):
        c = E_.new_cell()
        mem_[c] = X.Adt('ChannelPublicKeys', {}, base='cpkeys')
        return X.Ref(c)
    E.models.insert(0, (re.compile(r'broadcaster_pubkeys$'), h_keys))
    args = [E.sym('a%d' % n, t, mem) for n, t in f.params]
    rv = S.call(E, f, args, mem)
    htlc = args[2]
    amt_msat = field(E, D, 'HTLCOutputInCommitment', 'amount_msat', htlc, 'u64').t
    offered = field(E, D, 'HTLCOutputInCommitment', 'offered', htlc, 'bool').t
    stored = field(E, D, 'RevokedHTLCOutput', 'amount', rv, 'u64').t
    # PackageSolvingData::amount on a symbolic input of each HTLC kind
    fa = S.fn('amount', first_param='PackageSolvingData')
    sd = E.sym('sd', fa.params[0][1], mem)
    am = S.call(E, fa, [sd], mem)
    v = mem[sd.cell]
    kind = X.zint(v.d)
    HO = D.struct_fields('HTLCOutputInCommitment')

    def htlc_amt(variant):
        o = E.read_path(v, (('v', variant), ('f', 0, 'package::' + variant)), mem, True, 'spec')
        h = E.read_path(o, (('f', D.field_index(variant, 'htlc'), 'chan_utils::HTLCOutputInCommitment'),), mem, True, 'spec')
        return E.read_path(h, (('f', HO.index('amount_msat'), 'u64'),), mem, True, 'spec').t
    rev = E.read_path(v, (('v', 'RevokedHTLCOutput'), ('f', 0, 'package::RevokedHTLCOutput')), mem, True, 'spec')
    rev_amount = field(E, D, 'RevokedHTLCOutput', 'amount', rev, 'u64').t
    b = Binding('revoked_htlc_claim_amount', [amt_msat, offered], [stored, None], parse=lambda t: [int(t[0]), None])
    S.prove('C06.a.revoked_htlc_amount', E, [], stored == amt_msat / 1000,
            'the justice input for a revoked HTLC output is credited with exactly the value of that output: floor(amount_msat / 1000) satoshis', [b],
            bounds='all u64 HTLC amounts, both directions')
    S.prove('C06.a.claim_amounts', E, [], z3.And(
        z3.Implies(kind == 1, am.t == rev_amount),
        z3.Implies(kind == 2, am.t == htlc_amt('CounterpartyOfferedHTLCOutput') / 1000),
        z3.Implies(kind == 3, am.t == htlc_amt('CounterpartyReceivedHTLCOutput') / 1000)),
        'the amount a package accounts for each counterparty HTLC input is the on-chain value of that output (floor(msat/1000)); for revoked HTLC inputs it is the amount stored at construction')
    S.no_panic('C06.a.amounts_nopanic', E, [z3.Or(kind == 0, kind == 1, kind == 2, kind == 3)], 'total for revoked / counterparty HTLC inputs')


def revoked_htlc_claims(S, D):
    """C06.c: ChannelMonitorImpl::check_spend_counterparty_transaction, the loop that turns the HTLC outputs of a
    REVOKED counterparty commitment into justice claims - one iteration from an arbitrary loop-head state (any number
    of HTLCs / packages before it). Keys, scripts, cloning, the package constructors and the output vector are stubs."""
    import re
    ids = ['C06.c.every_htlc_output_claimed', 'C06.c.dust_skipped', 'C06.c.corrupt_data_stops', 'C06.c.nopanic', 'C06.c.witness', 'C06.c.validate']
    if all(S._skip(o) for o in ids):
        return
    f = S.fn('check_spend_counterparty_transaction')
    E = S.engine(unwind=1)
    mem = {}
    args = []
    for n, t in f.params:
        args.append(E.sym('a%d' % n, t, mem) if t.startswith('&') or t in ('u32', 'u64') or 'Txid' in t else X.Opaque('arg%d' % n))
    run = X.FnRun(E, f, args, True, mem)
    succ, rpo, back, encl = run.analyse_cfg()
    head = None
    for h in sorted({h for (u, h) in back}):
        body = [b for b in rpo if h in encl[b]]
        if any(f.blocks[b][1][0] == 'call' and 'RevokedHTLCOutput::build' in str(f.blocks[b][1][2]) for b in body):
            head = h
    if head is None:
        raise X.Unsupported('revoked-HTLC claim loop not found in check_spend_counterparty_transaction')
    pair = E.sym('entry', '&(ln::chan_utils::HTLCOutputInCommitment, std::option::Option<std::boxed::Box<ln::channelmanager::HTLCSource>>)', mem)
    n_out, out_val = E.sym('tx.n_outputs', 'usize'), E.sym('tx.output_value_sat', 'u64')
    E.assume(n_out.t <= 1 << 32)
    built, pushed, pkgs = [], [], []

    def h_next(E_, m, func, argv, guard, mem_, dty, caller):
        return X.En('Option', 1, {1: [pair]})

    def h_index(E_, m, func, argv, guard, mem_, dty, caller):
        E.panic(z3.And(X.zbool(guard), argv[1].t >= n_out.t), 'index out of bounds', caller.fn.name)
        c = E.new_cell()
        mem_[c] = X.Adt('TxOut', {0: X.Adt('Amount', {}, base='outamt')})
        return X.Ref(c)

    def amount_sat(v, mem_):
        while isinstance(v, X.Ref):
            v = E.read_path(mem_[v.cell], v.path, mem_, True, 'amt')
        if getattr(v, 'base', None) == 'outamt':
            return out_val.t
        if isinstance(v, X.Adt) and 0 in v.fs and isinstance(v.fs[0], X.I):
            return v.fs[0].t
        if isinstance(v, X.I):
            return v.t
        if isinstance(v, X.Adt) and v.base is not None:
            return E.sym(v.base + '.sat', 'u64').t
        raise X.Unsupported('amount of %r' % (v,))

    def h_amount_ne(E_, m, func, argv, guard, mem_, dty, caller):
        r = amount_sat(argv[0], mem_) == amount_sat(argv[1], mem_)
        return X.B(z3.Not(r) if m.group(1) == 'ne' else r)

    def h_clone(E_, m, func, argv, guard, mem_, dty, caller):
        v = argv[0]
        while isinstance(v, X.Ref):
            v = E.read_path(mem_[v.cell], v.path, mem_, guard, 'clone')
        return v

    def h_build(E_, m, func, argv, guard, mem_, dty, caller):
        built.append((X.zbool(guard), argv[2]))
        return X.Adt('RevokedHTLCOutput', {0: argv[2]}, base='revk%d' % len(built))

    def h_pkg(E_, m, func, argv, guard, mem_, dty, caller):
        pkgs.append((X.zbool(guard), argv[0], argv[1], argv[2], argv[3]))
        return X.Adt('PackageTemplate', {}, base='pkg%d' % len(pkgs))

    def h_push(E_, m, func, argv, guard, mem_, dty, caller):
        pushed.append((X.zbool(guard), argv[1]))
        return X.UNIT
    for rx, h in [
        (r'slice::Iter<.*HTLCOutputInCommitment.*> as Iterator>::next$', h_next),
        (r'Vec::<(?:bitcoin::)?TxOut>::len$', lambda *a: n_out),
        (r'Vec<(?:bitcoin::)?TxOut> as (?:std::ops::)?Index<usize>>::index$', h_index),
        (r'Amount as PartialEq>::(eq|ne)$', h_amount_ne),
        (r'(?:HTLCOutputInCommitment|ChannelTransactionParameters) as Clone>::clone$', h_clone),
        (r'RevokedHTLCOutput::build$', h_build),
        (r'PackageTemplate::build_package$', h_pkg),
        (r'Vec::<(?:package::)?PackageTemplate>::push$', h_push),
    ]:
        E.models.insert(0, (re.compile(rx), h))
    E.depth += 1
    rv, ret, m2 = run.run(start_bb=head)
    E.depth -= 1
    mem.update(m2)
    cont = X.zbool(E.merge_mem(run.cut_states)[0]) if run.cut_states else z3.BoolVal(False)
    returns = X.zbool(ret) if rv is not None else z3.BoolVal(False)
    HO = D.struct_fields('HTLCOutputInCommitment')
    hv = E.read_path(mem[pair.cell], (('f', 0, 'ln::chan_utils::HTLCOutputInCommitment'),), mem, True, 'spec')
    rdh = lambda nm, ty: E.read_path(hv, (('f', HO.index(nm), ty),), mem, True, 'spec')
    offered = X.zbool(rdh('offered', 'bool').t)
    cltv = rdh('cltv_expiry', 'u32').t
    amt = rdh('amount_msat', 'u64').t
    toi = rdh('transaction_output_index', 'Option<u32>')
    has_idx = X.zint(toi.d) == 1
    idx = E.en_payload(toi, 'Some', 1, 0, 'u32', mem, 'spec').t
    height = args[3].t
    consistent = z3.And(idx < n_out.t, out_val.t == amt / 1000)
    n_push = sum([z3.If(g, 1, 0) for g, _ in pushed]) if pushed else z3.IntVal(0)
    pre = [amt <= 21_000_000 * 100_000_000 * 1000, height < (1 << 31), cltv < 500000000]
    if len(pkgs) != 1 or len(pushed) != 1 or len(built) != 1:
        raise X.Unsupported('expected exactly one package construction in the loop body (found %d build_package, %d push, %d RevokedHTLCOutput::build); %s' % (len(pkgs), len(pushed), len(built), [w for g_, w in E.unsupported][:4]))
    g_pkg, p_txid, p_vout, p_data, p_height = pkgs[0]

    def ident(v):
        if getattr(v, 'alt', None) is not None:
            c_, x, y = v.alt
            return z3.If(X.zbool(c_), ident(x), ident(y))
        return z3.Int('ident.' + (getattr(v, 'base', None) or 'unknown%d' % next(E.nfresh)))
    same_txid = ident(p_txid) == ident(mem[args[1].cell] if isinstance(args[1], X.Ref) else args[1])
    data_is_this_htlc = ident(built[0][1]) == ident(hv)
    pushed_is_pkg = ident(pushed[0][1]) == z3.Int('ident.pkg1')
    panic = z3.Or(*[X.zbool(p[0]) for p in E.panics]) if E.panics else False

    def line_fn(v):
        hi, off = v[0], v[1]
        return '%d %d' % (hi, off)
    # the live scenario always has stored HTLC data consistent with the transaction (third argument fixed to 1)
    b = Binding('revoked_htlc_claim_probe', [z3.If(has_idx, 1, 0), z3.If(offered, 1, 0), z3.If(z3.Or(z3.Not(has_idx), consistent), 1, 0)], [z3.If(n_push == 1, 1, 0)],
                line_fn=line_fn, which='oracle_tu', panic=panic, domain=[(0, 1), (0, 1), (1, 1)])
    S.prove(ids[0], E, pre + [has_idx, consistent],
            z3.And(cont, z3.Not(returns), n_push == 1, pushed[0][0], g_pkg, p_vout.t == idx, same_txid, data_is_this_htlc, pushed_is_pkg,
                   p_height.t == z3.If(offered, cltv, height)),
            'every HTLC of a revoked counterparty commitment that has an output in the transaction gets exactly one justice claim, for that outpoint (commitment txid, its output index), built from that HTLC, with the counterparty-spendable height the re-bump timer needs (its CLTV expiry if the cheater offered it, the current height - spendable right away with the preimage - if it received it); the scan then moves on to the next HTLC',
            [b], bounds='one loop iteration from an arbitrary loop-head state (any number of HTLCs and of claims queued before), amounts <= 21e14 sat, expiries < 500000000')
    S.prove(ids[1], E, pre + [z3.Not(has_idx)], z3.And(cont, z3.Not(returns), n_push == 0),
            'an HTLC without an output (dust: folded into the fee, nothing to claim) queues nothing and the scan moves on', [b])
    S.prove(ids[2], E, pre + [has_idx, z3.Not(consistent)], z3.And(returns, z3.Not(cont), n_push == 0),
            'stored HTLC data that does not match the transaction (index past the outputs, or a different output value) stops the scan with what was queued so far instead of building a claim on a wrong output', [])
    S.no_panic(ids[3], E, pre, 'no out-of-bounds index into the outputs, no overflow', [b])
    S.witness(ids[4], E, pre + [has_idx, consistent, z3.Not(offered)], cont)
    S.validate(ids[5], E, b, n=4, extra_vectors=[(1, 1, 1), (1, 0, 1), (0, 1, 1), (0, 0, 1)])


def block_filter(S, D):
    """C06.d: the closure ChannelMonitorImpl::filter_block applies to every transaction of a connected block: a
    transaction is handed to the monitor iff it spends a watched output or ANY of its inputs spends a transaction matched
    earlier in the same block (a justice / HTLC transaction spending the commitment confirmed a few transactions before it,
    whatever the position of that input), and a matched transaction is remembered for the ones after it."""
    import re
    ids = ['C06.d.dependent_txn_matched', 'C06.d.nopanic', 'C06.d.witness', 'C06.d.validate']
    if all(S._skip(o) for o in ids):
        return
    NI = 2
    ix = S.mir()
    c = [i for i in range(len(ix.offsets)) if re.search(r'::filter_block::\{closure#0\}\(', ix.offsets[i][0])]
    if len(c) != 1:
        raise X.Unsupported('filter closure of filter_block: %d candidates' % len(c))
    f = ix.get(c[0])
    E = S.engine(unwind=NI + 2)
    E.slice_cap = NI
    mem = {}
    caps_n = {}
    for dn, dv in f.debug.items():
        mm = re.search(r'\(\*_1\)\.(\d+): ', dv)
        if mm:
            caps_n[int(mm.group(1))] = dn
    caps = []
    for k in range(max(caps_n) + 1 if caps_n else 2):
        cc = E.new_cell()
        mem[cc] = X.Opaque('captured ' + caps_n.get(k, '?'))
        caps.append(X.Ref(cc))
    key = re.search(r'\{closure@[^}]*\}', f.params[0][1]).group(0)
    ccell = E.new_cell()
    mem[ccell] = X.Clo(key, caps)
    tx = E.sym('tx', '&bitcoin::Transaction', mem)
    pair = X.Tup([E.sym('pos', 'usize'), tx])
    pc = E.new_cell()
    mem[pc] = pair
    pc2 = E.new_cell()
    mem[pc2] = X.Ref(pc)
    spends = z3.Bool('env.spends_watched_output')
    contains = [z3.Bool('env.input%d_parent_matched' % i) for i in range(NI)]
    inserted = []

    def which(v, mem_):
        while isinstance(v, X.Ref):
            ks = [st[1] for st in v.path if st[0] == 'i']
            if ks:
                return ks[-1]
            v = E.read_path(mem_[v.cell], v.path, mem_, True, 'input')
        raise X.Unsupported('cannot tell which input %r is' % (v,))

    def h_contains(E_, m, func, argv, guard, mem_, dty, caller):
        k = which(argv[1], mem_)
        return X.B(contains[k] if isinstance(k, int) else z3.Or(*[z3.And(k == i, contains[i]) for i in range(NI)]))
    for rx, h in [
        (r'spends_watched_output$', lambda *a: X.B(spends)),
        (r'HashSet::<.*Txid.*>::contains::<', h_contains),
        (r'HashSet::<.*Txid.*>::insert$', lambda E_, m, func, argv, guard, mem_, dty, caller: (inserted.append(X.zbool(guard)), X.B(True))[1]),
        (r'Transaction::compute_txid$', lambda *a: X.Adt('Txid', {}, base='this_txid')),
    ]:
        E.models.insert(0, (re.compile(rx), h))
    rv = S.call(E, f, [X.Ref(ccell), X.Ref(pc2)], mem)
    matches = X.zbool(rv.t)
    # `input` is field 2 of bitcoin::Transaction (version, lock_time, input, output): the index the closure's MIR uses
    inputs = E.read_path(mem[tx.cell], (('f', 2, 'std::vec::Vec<bitcoin::TxIn>'),), mem, True, 'spec')
    n = inputs.n
    spec = z3.Or(spends, *[z3.And(n > i, contains[i]) for i in range(NI)])
    remembered = z3.Or(*inserted) if inserted else z3.BoolVal(False)
    panic = z3.Or(*[X.zbool(p[0]) for p in E.panics]) if E.panics else False
    # live replay: transaction B of the probe has two inputs, does not itself spend a watched output, and at most one of
    # its inputs spends the matched transaction A
    live = z3.And(n == 2, z3.Not(spends), z3.Not(z3.And(contains[0], contains[1])))
    b = Binding('filter_block_probe', [z3.If(contains[0], 0, z3.If(contains[1], 1, 2)), z3.If(live, 1, 0)], [None, z3.If(matches, 1, 0)],
                line_fn=lambda v: str(v[0]), which='oracle_tu', panic=panic, via_solver=True, domain=[(0, 2), (1, 1)])
    S.prove(ids[0], E, [], z3.And(matches == spec, remembered == matches),
            'a transaction of a connected block is selected iff it spends a watched output or any one of its inputs spends a transaction selected earlier in that block, and every selected transaction is remembered for the transactions that follow',
            [b], bounds='transactions with <= %d inputs; watched-output lookup and the set of earlier matches stubbed' % NI)
    S.no_panic(ids[1], E, [], 'total', [b])
    S.witness(ids[2], E, [z3.Not(spends), n == 2, z3.Not(contains[0]), contains[1]], matches)
    S.validate(ids[3], E, b, n=3, extra_vectors=[(0, 1), (1, 1), (2, 1)])
