"""C06 — a revoked commitment is fully punished: the fee / scheduling kernels that justice claims run on.

Justice transactions are ordinary malleable claim packages (chain/package.rs): the obligations of C07
(first-attempt fee, RBF bumping, package output, merge) and of C08.d (re-bump timer) are re-run here under
C06 ids, plus the classification of revoked outputs as malleable / aggregatable."""
import z3
from engine_m import exec as X
from engine_m.session import Binding, Inconclusive
from .common import *

EVIDENCE = dict(assumptions=[
    'retained data: after any protocol-order prefix of revocations (top m commitment indices, SHA-256 uninterpreted, symbolic seed) every revoked secret is recoverable from the counterparty-secret store',
    'kernel only (narrow): justice claims are re-issued with adequate, monotonically rising fees and on an urgency schedule tied to the counterparty CSV height; revoked outputs are classified malleable so that fee bumping applies',
    'detection of the revoked transaction, secret derivation (SHA-256), package construction, witness / script validity, HTLC-transaction follow-up, reload and block-delivery styles are outside the claim',
    'transaction weight ranges over a stated finite set; inputs <= 21e14 sat; fee estimator = arbitrary u32'])


def run(S):
    D = S.decls()
    from . import C07, C08
    S.alias = {'C07.a': 'C06.b.first_fee', 'C07.b': 'C06.b.bump', 'C07.c': 'C06.b.output', 'C07.d': 'C06.b.locktime', 'C07.f': 'C06.b.merge', 'C08.d': 'C06.b.timer'}
    W = C07.weights(S)
    from .secrets import honest_sequence
    honest_sequence(S, D, 'C06.a.secrets', 8 if S.tier == 'quick' else 32)
    revoked_classification(S, D)
    C07.fee_from_spent(S, D, W)
    C07.bump(S, D, W)
    C07.locktime_and_output(S, D, W)
    C07.merge(S, D)
    C08.height_timer(S, D)


def revoked_classification(S, D):
    E = S.engine()
    mem = {}
    f = S.fn('map_output_type_flags', first_param='PackageSolvingData')
    sd = E.sym('sd', f.params[0][1], mem)
    rv = S.call(E, f, [sd], mem)
    v = mem[sd.cell]
    kind = X.zint(v.d)
    MAL = D.variant_index('PackageMalleability', 'Malleable')
    S.prove('C06.a.revoked_outputs_are_malleable', E, [z3.Or(kind == 0, kind == 1)], X.zint(rv.d) == MAL,
            'claims on revoked to_local and revoked HTLC outputs are malleable packages: they can be aggregated and their fee bumped (they are never treated as pre-signed, untractable transactions)',
            bounds='both revoked input kinds, any HTLC direction')
    cluster = E.read_path(rv, (('v', 'Malleable'), ('f', 0, 'package::AggregationCluster')), mem, True, 'spec')
    UNPIN = D.variant_index('AggregationCluster', 'Unpinnable')
    S.prove('C06.a.revoked_to_local_unpinnable', E, [kind == 0], z3.And(X.zint(rv.d) == MAL, X.zint(cluster.d) == UNPIN),
            'the revoked balance output can only be claimed by us before its CSV expires, so it is aggregated with other unpinnable claims')
    S.no_panic('C06.a.nopanic', E, [], 'classification is total')
