"""C07 — unilateral-close claims: fee computation and fee bumping of on-chain claim packages."""
import re
import z3
from engine_m import exec as X
from engine_m.session import Binding, Inconclusive
from .common import *

SUPPLY_SAT = 21_000_000 * 100_000_000
FLOOR = 253
WEIGHTS_ALL = [400, 483, 562, 663, 703, 1000, 1250, 1999, 4000, 12345, 100000, 400000]

EVIDENCE = dict(assumptions=[
    'kernel only: package.rs fee kernels (compute_fee_from_spent_amounts, feerate_bump, compute_package_feerate, compute_package_output); which outputs are claimed, script/consensus validity, anchor bumping with wallet inputs and the sweeper are outside the claim',
    'predicted transaction weight ranges over a stated finite set of concrete weights (the kernels divide by the weight; each weight is a separate linear query); input amounts <= 21e14 sat; the fee estimator returns an arbitrary u32',
    'previous feerate <= input_amounts*1000/weight (no earlier claim can have paid more than its inputs) and >= the 253 sat/kW floor'])


def panic_of(E):
    return z3.Or(*[X.zbool(p[0]) for p in E.panics]) if E.panics else False


def opt2(toks):
    return [int(toks[0]), int(toks[1]) if toks[0] == '1' else None, int(toks[2]) if toks[0] == '1' else None]


def weights(S):
    if S.tier == 'thorough':
        return WEIGHTS_ALL
    k = S.seed % 3
    return sorted(set([400, 703, 1000] + WEIGHTS_ALL[k::3]))


def run(S):
    D = S.decls()
    W = weights(S)
    fee_from_spent(S, D, W)
    bump(S, D, W)
    package_feerate(S, D)
    locktime_and_output(S, D, W)
    merge(S, D)


def estimator(E):
    est = E.sym('est', 'u32')
    E.models.insert(0, (re.compile(r'get_est_sat_per_1000_weight$'), lambda *a: est))
    return est


def fee_from_spent(S, D, W):
    E = S.engine()
    est = estimator(E)
    f = S.fn('compute_fee_from_spent_amounts')
    inp, w = E.sym('inp', 'u64'), E.sym('w', 'u64')
    rv = S.call(E, f, [inp, w, X.Opaque('target'), X.Opaque('estimator'), X.Opaque('logger')], {})
    some = X.zint(rv.d) == 1
    fee, rate = rv.vs[1][0].fs[0].t, rv.vs[1][0].fs[1].t
    pre = [inp.t <= SUPPLY_SAT, z3.Or(*[w.t == c for c in W])]
    cases = [w.t == c for c in W]
    b = Binding('compute_fee_from_spent_amounts', [inp.t, w.t, est.t], [rv.d, fee, rate], parse=opt2, panic=panic_of(E),
                domain=[(0, SUPPLY_SAT), (400, 400000), (0, U32)], interesting=[253, 252, 506])
    S.validate('C07.a.validate', E, b)
    rate_est = z3.If(est.t >= FLOOR, est.t, FLOOR)
    cap0 = ((inp.t / 2) * 1000) / w.t
    cap = z3.If(cap0 > U32, U32, cap0)
    r = z3.If(rate_est <= cap, rate_est, cap)
    S.prove('C07.a.fee_from_spent', E, pre, z3.And(some == (r >= FLOOR), z3.Implies(some, z3.And(rate == r, fee == (r * w.t) / 1000))),
            'first-attempt claim fee: rate = min(max(estimate, 253), floor(input/2 * 1000 / weight)); refused iff that rate is below the 253 floor; fee = floor(rate*weight/1000)',
            [b], bounds='inputs <= 21e14 sat, any u32 estimate, weights %s' % W, split=cases)
    S.prove('C07.a.fee_bounds', E, pre, z3.Implies(some, z3.And(rate >= FLOOR, fee <= inp.t / 2, rate <= rate_est)),
            'a first claim never pays more than half of what it claims, never below the relay floor, never above the (floored) estimate', [b], split=cases)
    S.no_panic('C07.a.nopanic', E, pre, 'no overflow / division by zero for admitted inputs', [b])
    S.witness('C07.a.witness', E, pre, some)


def bump(S, D, W):
    E = S.engine()
    est = estimator(E)
    f = S.fn('feerate_bump')
    w, inp, dust, prev = E.sym('w', 'u64'), E.sym('inp', 'u64'), E.sym('dust', 'u64'), E.sym('prev', 'u64')
    mem = {}
    strat = E.sym('strategy', f.params[4][1], mem)
    sv = mem[strat.cell]
    rv = S.call(E, f, [w, inp, dust, prev, strat, X.Opaque('target'), X.Opaque('estimator'), X.Opaque('logger')], mem)
    some = X.zint(rv.d) == 1
    fee, rate = rv.vs[1][0].fs[0].t, rv.vs[1][0].fs[1].t
    SV = lambda n: D.variant_index('FeerateStrategy', n)
    sd = X.zint(sv.d)
    pre = [inp.t <= SUPPLY_SAT, z3.Or(*[w.t == c for c in W]), dust.t >= 1, dust.t <= 10000,
           prev.t >= FLOOR, prev.t * w.t <= inp.t * 1000]
    cases = [w.t == c for c in W]
    b = Binding('feerate_bump', [w.t, inp.t, dust.t, prev.t, sd, est.t], [rv.d, fee, rate], parse=opt2, panic=panic_of(E),
                domain=[(400, 400000), (0, SUPPLY_SAT), (1, 10000), (253, U32), (0, 2), (0, U32)], interesting=[253, 546, 330])
    S.validate('C07.b.validate', E, b)
    prev_fee = (prev.t * w.t) / 1000
    min_relay = (253 * w.t) / 1000
    S.prove('C07.b.monotone', E, pre, z3.Implies(some, rate >= prev.t),
            'the feerate of a re-issued claim never decreases', [b], bounds='weights %s, inputs <= 21e14, 253 <= prev <= input*1000/weight, dust 1..10000' % W, split=cases)
    S.prove('C07.b.retry_previous', E, pre + [sd == SV('RetryPrevious')], z3.Implies(some, z3.And(rate == prev.t, fee == prev_fee)),
            'RetryPrevious re-uses exactly the previous feerate and fee', [b], split=cases)
    S.prove('C07.b.rbf_rules', E, pre, z3.Implies(z3.And(some, rate > prev.t), z3.And(fee >= prev_fee + min_relay, fee <= inp.t, inp.t - fee >= dust.t)),
            'a bumped claim satisfies BIP-125 rules 3 and 4 (pays the previous absolute fee plus the minimum relay fee for its own weight) and still leaves an output of at least the dust limit', [b], split=cases)
    S.prove('C07.b.force_bump_progress', E, pre + [sd == SV('ForceBump')], z3.Implies(some, rate > prev.t),
            'ForceBump strictly increases the feerate whenever it returns a fee', [b], split=cases)
    S.prove('C07.b.highest_uses_estimate', E, pre + [sd != SV('RetryPrevious')],
            z3.Implies(z3.And(some, z3.If(est.t >= FLOOR, est.t, FLOOR) > prev.t, ((inp.t / 2) * 1000) / w.t >= z3.If(est.t >= FLOOR, est.t, FLOOR)),
                       rate >= z3.If(est.t >= FLOOR, est.t, FLOOR) - 3),
            'when the estimator asks for more than the previous feerate (and half the inputs can pay it) the new claim pays it (up to integer rounding of fee <-> rate)', [b], split=cases)
    S.no_panic('C07.b.nopanic', E, pre, 'no overflow and the internal debug_assert (feerate never decreases) cannot fire', [b])
    S.witness('C07.b.witness', E, pre + [sd == SV('ForceBump')], z3.And(some, rate > prev.t))


def package_feerate(S, D):
    E = S.engine()
    est = estimator(E)
    mem = {}
    f = S.fn('compute_package_feerate', first_param='PackageTemplate')
    pkg = E.sym('pkg', f.params[0][1], mem)
    strat = E.sym('strategy', f.params[3][1], mem)
    rv = S.call(E, f, [pkg, X.Opaque('estimator'), X.Opaque('target'), strat], mem)
    prev = field(E, D, 'PackageTemplate', 'feerate_previous', mem[pkg.cell], 'u64').t
    sd = X.zint(mem[strat.cell].d)
    SV = lambda n: D.variant_index('FeerateStrategy', n)
    b = Binding('compute_package_feerate', [prev, sd, est.t], [rv.t], panic=panic_of(E),
                domain=[(0, U64), (0, 2), (0, U32)], interesting=[253, 0, 1, (1 << 32) - 1])
    S.validate('C07.e.validate', E, b)
    e = z3.If(est.t >= FLOOR, est.t, FLOOR)
    p32 = z3.If(prev > U32, U32, prev)
    S.prove('C07.e.never_below_previous', E, [prev <= U32, est.t <= U32 / 5], z3.And(rv.t >= z3.If(prev == 0, e, p32), z3.Implies(prev == 0, rv.t == e)),
            'the feerate chosen for an externally-funded (anchor) claim is never below the previous one; a first attempt uses the floored estimate', [b],
            bounds='any previous feerate <= u32::MAX, estimates <= u32::MAX/5 (above that `estimate * 5` overflows: panics in the dev profile, wraps in release - an estimator returning > 858 M sat/kW is outside the claim)')
    S.prove('C07.e.strategies', E, [prev != 0, prev <= U32, est.t <= U32 / 5], z3.And(
        z3.Implies(sd == SV('RetryPrevious'), rv.t == p32),
        z3.Implies(sd == SV('HighestOfPreviousOrNew'), rv.t == z3.If(p32 >= e, p32, e)),
        z3.Implies(z3.And(sd == SV('ForceBump'), e > p32), rv.t == e),
        z3.Implies(z3.And(sd == SV('ForceBump'), e <= p32), z3.And(rv.t >= p32, rv.t <= p32 + p32 / 4))),
        'per strategy: retry = previous, highest = max(previous, estimate), force = estimate if higher else previous + 25% (capped at 5x the estimate but never below previous)', [b])
    S.no_panic('C07.e.nopanic', E, [prev <= U32, est.t <= U32 / 5], 'no overflow for estimates <= u32::MAX/5', [b])


def locktime_and_output(S, D, W):
    from .pkg_common import sym_package, oracle_input_args, inputs_line
    NCAP = 2 if S.tier == 'quick' else 3
    # ---- C07.d package_locktime -------------------------------------------------------------
    E = S.engine(unwind=NCAP + 1)
    mem = {}
    f = S.fn('package_locktime', first_param='PackageTemplate')
    pkg_ref, pkg, views, n = sym_package(S, E, D, mem, NCAP)
    h = E.sym('h', 'u32')
    rv = S.call(E, f, [pkg_ref, h], mem)
    # packages never mix pre-signed (holder HTLC) inputs with inputs that carry a minimum locktime,
    # and all pre-signed inputs of one package share their locktime; holder preimage claims carry cltv 0
    # (the aggregation rules in PackageTemplate::can_merge_with enforce this; the code debug_asserts it)
    holder = [z3.And(v['present'], v['kind'] == 4) for v in views]
    recv = [z3.And(v['present'], v['kind'] == 3) for v in views]
    wellformed = [z3.Not(z3.And(z3.Or(*holder), z3.Or(*recv)))]
    for i in range(NCAP):
        wellformed.append(z3.Implies(z3.And(holder[i], views[i]['preimage']), views[i]['hol_cltv'] == 0))
        for j in range(i + 1, NCAP):
            wellformed.append(z3.Implies(z3.And(holder[i], holder[j]), views[i]['hol_cltv'] == views[j]['hol_cltv']))
    pre = [h.t < (1 << 31)] + wellformed
    args = oracle_input_args(E, views, n) + [h.t]
    b = Binding('package_locktime', args, [rv.t], panic=panic_of(E), line_fn=inputs_line(NCAP))
    any_holder = z3.Or(*holder)
    S.prove('C07.d.locktime_final', E, pre, z3.And(
        z3.And(*[z3.Implies(recv[i], rv.t >= views[i]['rec_cltv']) for i in range(NCAP)]),
        z3.And(*[z3.Implies(holder[i], rv.t == views[i]['hol_cltv']) for i in range(NCAP)]),
        z3.Implies(z3.Not(any_holder), rv.t >= h.t)),
        'the locktime of a claim transaction is at least every input\'s CLTV (time-outs of outbound HTLCs), exactly the pre-signed locktime for holder HTLC transactions, and otherwise at least the current height (anti fee-sniping)',
        [b], bounds='<= %d inputs, heights < 2^31' % NCAP)
    S.prove('C07.d.locktime_not_premature', E, pre + [z3.Not(any_holder)], z3.Or(rv.t == h.t, z3.Or(*[z3.And(recv[i], rv.t == views[i]['rec_cltv']) for i in range(NCAP)])),
            'an unsigned package is locked to the current height unless an input forces a later one (it is never locked further into the future than required)', [b])
    S.no_panic('C07.d.nopanic', E, pre, 'no panic (the internal consistency debug_asserts cannot fire on well-formed packages)', [b])
    S.witness('C07.d.witness', E, pre + [n == NCAP], z3.And(recv[0], rv.t > h.t))

    # ---- C07.c compute_package_output ---------------------------------------------------------
    E = S.engine(unwind=NCAP + 1)
    est = estimator(E)
    mem = {}
    f = S.fn('compute_package_output', first_param='PackageTemplate')
    inp = E.sym('inp', 'u64')
    E.models.insert(0, (re.compile(r'PackageTemplate::package_amount$'), lambda *a: inp))
    PT = D.struct_fields('PackageTemplate')
    pkg = E.sym('pkg', f.params[0][1], mem)
    pv = mem[pkg.cell]
    mal = E.read_path(pv, (('f', PT.index('malleability'), 'package::PackageMalleability'),), mem, True, 'spec')
    prev = E.read_path(pv, (('f', PT.index('feerate_previous'), 'u64'),), mem, True, 'spec').t
    w, dust = E.sym('w', 'u64'), E.sym('dust', 'u64')
    strat = E.sym('strategy', f.params[3][1], mem)
    sd = X.zint(mem[strat.cell].d)
    rv = S.call(E, f, [pkg, w, dust, strat, X.Opaque('target'), X.Opaque('estimator'), X.Opaque('logger')], mem)
    some = X.zint(rv.d) == 1
    out, rate = rv.vs[1][0].fs[0].t, rv.vs[1][0].fs[1].t
    pre = [X.zint(mal.d) == D.variant_index('PackageMalleability', 'Malleable'), inp.t <= SUPPLY_SAT, z3.Or(*[w.t == c for c in W]),
           dust.t >= 1, dust.t <= 10000, z3.Or(prev == 0, z3.And(prev >= FLOOR, prev * w.t <= inp.t * 1000))]
    cases = [w.t == c for c in W]
    fee_paid = inp.t - out
    bo = Binding('compute_package_output', [z3.IntVal(1), z3.IntVal(0), z3.IntVal(0), z3.BoolVal(False), inp.t, w.t, dust.t, sd, est.t, prev], [rv.d, out, rate], parse=opt2, panic=panic_of(E))
    S.prove('C07.c.output_bounds', E, pre, z3.Implies(some, z3.And(out >= dust.t, z3.Or(out <= inp.t, out == dust.t), rate >= FLOOR, rate >= prev)),
            'the claim output is never below the dust limit and never above what is being claimed (unless clamped up to the dust limit), and its feerate is at least the floor and the previous feerate',
            bindings=[bo], bounds='weights %s, inputs <= 21e14 sat, dust 1..10000' % W, split=cases)
    S.prove('C07.c.fee_matches_rate', E, pre, z3.Implies(z3.And(some, out > dust.t), z3.And(fee_paid * 1000 >= (rate - 1) * w.t - 1000, fee_paid <= inp.t)),
            'unless the output was clamped to dust, the fee actually paid (inputs - output) corresponds to the reported feerate', [bo], split=cases)
    S.no_panic('C07.c.nopanic', E, pre, 'no overflow / failed assert for admitted inputs', [bo])
    S.witness('C07.c.witness', E, pre + [prev != 0], z3.And(some, out > dust.t))


def merge(S, D):
    """C07.f: merging two claim packages keeps the most urgent schedule of the two"""
    from .pkg_common import oracle_input_args
    E = S.engine(unwind=4)
    E.slice_cap = 1
    mem = {}
    f = S.fn('merge_package', first_param='PackageTemplate')
    can = z3.Bool('env.can_merge')
    E.models.insert(0, (re.compile(r'PackageTemplate::can_merge_with$'), lambda *a: X.B(can)))
    a = E.sym('pa', f.params[0][1], mem)
    bval = E.sym('pb', f.params[1][1], mem)
    h = E.sym('h', 'u32')
    before = mem[a.cell]

    def g(v, nm, ty):
        return field(E, D, 'PackageTemplate', nm, v, ty).t
    a_csh, a_fr, a_ht = g(before, 'counterparty_spendable_height', 'u32'), g(before, 'feerate_previous', 'u64'), g(before, 'height_timer', 'u32')
    b_csh, b_fr, b_ht = g(bval, 'counterparty_spendable_height', 'u32'), g(bval, 'feerate_previous', 'u64'), g(bval, 'height_timer', 'u32')
    PT = D.struct_fields('PackageTemplate')
    a_in = E.read_path(before, (('f', PT.index('inputs'), 'Vec<(bitcoin::OutPoint, package::PackageSolvingData)>'),), mem, True, 'spec')
    b_in = E.read_path(bval, (('f', PT.index('inputs'), 'Vec<(bitcoin::OutPoint, package::PackageSolvingData)>'),), mem, True, 'spec')
    rv = S.call(E, f, [a, bval, h], mem)
    after = mem[a.cell]
    ok = X.zint(rv.d) == 0
    n_csh, n_fr, n_ht = g(after, 'counterparty_spendable_height', 'u32'), g(after, 'feerate_previous', 'u64'), g(after, 'height_timer', 'u32')
    n_in = E.read_path(after, (('f', PT.index('inputs'), 'Vec<(bitcoin::OutPoint, package::PackageSolvingData)>'),), mem, True, 'spec')
    mn = lambda x, y: z3.If(x <= y, x, y)
    # native probe: two single revoked-output packages (mergeable when neither is close to its CSV height)
    native = [X.zint(a_in.n) == 1, X.zint(b_in.n) == 1, can, a_csh > h.t + 12, b_csh > h.t + 12, h.t < (1 << 30), a_csh < (1 << 30), b_csh < (1 << 30)]
    b = Binding('merge_probe', [z3.IntVal(1), z3.IntVal(0), z3.IntVal(0), z3.BoolVal(False), z3.IntVal(1000), a_csh, a_fr, a_ht,
                                z3.IntVal(1), z3.IntVal(0), z3.IntVal(0), z3.BoolVal(False), z3.IntVal(1000), b_csh, b_fr, b_ht, h.t],
                [z3.If(ok, 1, 0), n_csh, n_fr, n_ht, X.zint(n_in.n)])
    S.prove('C07.f.merge_keeps_most_urgent', E, [can], z3.And(ok, n_csh == mn(a_csh, b_csh), n_ht == mn(a_ht, b_ht), n_fr == mn(a_fr, b_fr),
            X.zint(n_in.n) == X.zint(a_in.n) + X.zint(b_in.n)),
            'a merged claim package is scheduled by the earlier of the two counterparty-spendable heights and the earlier bump timer, keeps every input of both packages, and restarts from the lower previous feerate',
            bounds='packages of <= 1 input each (inputs are only moved), all heights / feerates')
    S.prove('C07.f.merge_native', E, native, z3.And(ok, n_csh == mn(a_csh, b_csh), n_ht == mn(a_ht, b_ht), n_fr == mn(a_fr, b_fr), X.zint(n_in.n) == 2),
            'replayable form of the same claim on two single-input revoked-output packages', [b])
    S.prove('C07.f.refused_merge_changes_nothing', E, [z3.Not(can)], z3.And(z3.Not(ok), n_csh == a_csh, n_ht == a_ht, n_fr == a_fr, X.zint(n_in.n) == X.zint(a_in.n)),
            'a refused merge leaves the package untouched')
    S.no_panic('C07.f.nopanic', E, [], 'merge_package is total')
