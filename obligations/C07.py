"""C07 — unilateral-close claims: fee computation and fee bumping of on-chain claim packages."""
import re
import z3
from engine_m import exec as X
from engine_m.session import Binding, Inconclusive
from .common import *

SUPPLY_SAT = 21_000_000 * 100_000_000
FLOOR = 253
WEIGHTS_ALL = [400, 483, 562, 663, 703, 1000, 1250, 1999, 4000, 12345, 100000, 400000]

EVIDENCE = dict(assumptions=[
    'C07.h: one iteration of the loop of get_broadcasted_holder_htlc_descriptors and the package closure of get_broadcasted_holder_claims (our own commitment confirmed); commitment accessors, cloning, the preimage map and the package constructors are stubs',
    'C07.g: one iteration of the HTLC loop of ChannelMonitorImpl::get_counterparty_output_claim_info (which HTLC outputs of a confirmed counterparty commitment get a claim, and of what shape); keys, cloning, the preimage map, the package constructors and the output vector are stubs',
    'kernel only: package.rs fee kernels (compute_fee_from_spent_amounts, feerate_bump, compute_package_feerate, compute_package_output); which outputs are claimed, script/consensus validity, anchor bumping with wallet inputs and the sweeper are outside the claim',
    'predicted transaction weight ranges over a stated finite set of concrete weights (the kernels divide by the weight; each weight is a separate linear query); input amounts <= 21e14 sat; the fee estimator returns an arbitrary u32',
    'previous feerate <= input_amounts*1000/weight (no earlier claim can have paid more than its inputs) and >= the 253 sat/kW floor'])


def panic_of(E):
    return z3.Or(*[X.zbool(p[0]) for p in E.panics]) if E.panics else False


def opt2(toks):
    return [int(toks[0]), int(toks[1]) if toks[0] == '1' else None, int(toks[2]) if toks[0] == '1' else None]


def weights(S):
    if S.tier == 'thorough':
        return WEIGHTS_ALL
    k = S.seed % 3
    return sorted(set([400, 703, 1000] + WEIGHTS_ALL[k::3]))


def run(S):
    D = S.decls()
    W = weights(S)
    fee_from_spent(S, D, W)
    bump(S, D, W)
    package_feerate(S, D)
    locktime_and_output(S, D, W)
    merge(S, D)
    counterparty_commitment_claims(S, D)
    holder_commitment_claims(S, D)
    late_preimage_claims(S, D)
    monitor_role_wiring(S, D)


def estimator(E):
    est = E.sym('est', 'u32')
    E.models.insert(0, (re.compile(r'get_est_sat_per_1000_weight$'), lambda *a: est))
    return est


def fee_from_spent(S, D, W):
    E = S.engine()
    est = estimator(E)
    f = S.fn('compute_fee_from_spent_amounts')
    inp, w = E.sym('inp', 'u64'), E.sym('w', 'u64')
    rv = S.call(E, f, [inp, w, X.Opaque('target'), X.Opaque('estimator'), X.Opaque('logger')], {})
    some = X.zint(rv.d) == 1
    fee, rate = rv.vs[1][0].fs[0].t, rv.vs[1][0].fs[1].t
    pre = [inp.t <= SUPPLY_SAT, z3.Or(*[w.t == c for c in W])]
    cases = [w.t == c for c in W]
    b = Binding('compute_fee_from_spent_amounts', [inp.t, w.t, est.t], [rv.d, fee, rate], parse=opt2, panic=panic_of(E),
                domain=[(0, SUPPLY_SAT), (400, 400000), (0, U32)], interesting=[253, 252, 506])
    S.validate('C07.a.validate', E, b)
    rate_est = z3.If(est.t >= FLOOR, est.t, FLOOR)
    cap0 = ((inp.t / 2) * 1000) / w.t
    cap = z3.If(cap0 > U32, U32, cap0)
    r = z3.If(rate_est <= cap, rate_est, cap)
    S.prove('C07.a.fee_from_spent', E, pre, z3.And(some == (r >= FLOOR), z3.Implies(some, z3.And(rate == r, fee == (r * w.t) / 1000))),
            'first-attempt claim fee: rate = min(max(estimate, 253), floor(input/2 * 1000 / weight)); refused iff that rate is below the 253 floor; fee = floor(rate*weight/1000)',
            [b], bounds='inputs <= 21e14 sat, any u32 estimate, weights %s' % W, split=cases)
    S.prove('C07.a.fee_bounds', E, pre, z3.Implies(some, z3.And(rate >= FLOOR, fee <= inp.t / 2, rate <= rate_est)),
            'a first claim never pays more than half of what it claims, never below the relay floor, never above the (floored) estimate', [b], split=cases)
    S.no_panic('C07.a.nopanic', E, pre, 'no overflow / division by zero for admitted inputs', [b])
    S.witness('C07.a.witness', E, pre, some)


def bump(S, D, W):
    E = S.engine()
    est = estimator(E)
    f = S.fn('feerate_bump')
    w, inp, dust, prev = E.sym('w', 'u64'), E.sym('inp', 'u64'), E.sym('dust', 'u64'), E.sym('prev', 'u64')
    mem = {}
    strat = E.sym('strategy', f.params[4][1], mem)
    sv = mem[strat.cell]
    rv = S.call(E, f, [w, inp, dust, prev, strat, X.Opaque('target'), X.Opaque('estimator'), X.Opaque('logger')], mem)
    some = X.zint(rv.d) == 1
    fee, rate = rv.vs[1][0].fs[0].t, rv.vs[1][0].fs[1].t
    SV = lambda n: D.variant_index('FeerateStrategy', n)
    sd = X.zint(sv.d)
    pre = [inp.t <= SUPPLY_SAT, z3.Or(*[w.t == c for c in W]), dust.t >= 1, dust.t <= 10000,
           prev.t >= FLOOR, prev.t * w.t <= inp.t * 1000]
    cases = [w.t == c for c in W]
    b = Binding('feerate_bump', [w.t, inp.t, dust.t, prev.t, sd, est.t], [rv.d, fee, rate], parse=opt2, panic=panic_of(E),
                domain=[(400, 400000), (0, SUPPLY_SAT), (1, 10000), (253, U32), (0, 2), (0, U32)], interesting=[253, 546, 330])
    S.validate('C07.b.validate', E, b)
    prev_fee = (prev.t * w.t) / 1000
    min_relay = (253 * w.t) / 1000
    S.prove('C07.b.monotone', E, pre, z3.Implies(some, rate >= prev.t),
            'the feerate of a re-issued claim never decreases', [b], bounds='weights %s, inputs <= 21e14, 253 <= prev <= input*1000/weight, dust 1..10000' % W, split=cases)
    S.prove('C07.b.retry_previous', E, pre + [sd == SV('RetryPrevious')], z3.Implies(some, z3.And(rate == prev.t, fee == prev_fee)),
            'RetryPrevious re-uses exactly the previous feerate and fee', [b], split=cases)
    S.prove('C07.b.rbf_rules', E, pre, z3.Implies(z3.And(some, rate > prev.t), z3.And(fee >= prev_fee + min_relay, fee <= inp.t, inp.t - fee >= dust.t)),
            'a bumped claim satisfies BIP-125 rules 3 and 4 (pays the previous absolute fee plus the minimum relay fee for its own weight) and still leaves an output of at least the dust limit', [b], split=cases)
    S.prove('C07.b.force_bump_progress', E, pre + [sd == SV('ForceBump')], z3.Implies(some, rate > prev.t),
            'ForceBump strictly increases the feerate whenever it returns a fee', [b], split=cases)
    S.prove('C07.b.highest_uses_estimate', E, pre + [sd != SV('RetryPrevious')],
            z3.Implies(z3.And(some, z3.If(est.t >= FLOOR, est.t, FLOOR) > prev.t, ((inp.t / 2) * 1000) / w.t >= z3.If(est.t >= FLOOR, est.t, FLOOR)),
                       rate >= z3.If(est.t >= FLOOR, est.t, FLOOR) - 3),
            'when the estimator asks for more than the previous feerate (and half the inputs can pay it) the new claim pays it (up to integer rounding of fee <-> rate)', [b], split=cases)
    S.no_panic('C07.b.nopanic', E, pre, 'no overflow and the internal debug_assert (feerate never decreases) cannot fire', [b])
    S.witness('C07.b.witness', E, pre + [sd == SV('ForceBump')], z3.And(some, rate > prev.t))


def package_feerate(S, D):
    E = S.engine()
    est = estimator(E)
    mem = {}
    f = S.fn('compute_package_feerate', first_param='PackageTemplate')
    pkg = E.sym('pkg', f.params[0][1], mem)
    strat = E.sym('strategy', f.params[3][1], mem)
    rv = S.call(E, f, [pkg, X.Opaque('estimator'), X.Opaque('target'), strat], mem)
    prev = field(E, D, 'PackageTemplate', 'feerate_previous', mem[pkg.cell], 'u64').t
    sd = X.zint(mem[strat.cell].d)
    SV = lambda n: D.variant_index('FeerateStrategy', n)
    b = Binding('compute_package_feerate', [prev, sd, est.t], [rv.t], panic=panic_of(E),
                domain=[(0, U64), (0, 2), (0, U32)], interesting=[253, 0, 1, (1 << 32) - 1])
    S.validate('C07.e.validate', E, b)
    e = z3.If(est.t >= FLOOR, est.t, FLOOR)
    p32 = z3.If(prev > U32, U32, prev)
    S.prove('C07.e.never_below_previous', E, [prev <= U32, est.t <= U32 / 5], z3.And(rv.t >= z3.If(prev == 0, e, p32), z3.Implies(prev == 0, rv.t == e)),
            'the feerate chosen for an externally-funded (anchor) claim is never below the previous one; a first attempt uses the floored estimate', [b],
            bounds='any previous feerate <= u32::MAX, estimates <= u32::MAX/5 (above that `estimate * 5` overflows: panics in the dev profile, wraps in release - an estimator returning > 858 M sat/kW is outside the claim)')
    S.prove('C07.e.strategies', E, [prev != 0, prev <= U32, est.t <= U32 / 5], z3.And(
        z3.Implies(sd == SV('RetryPrevious'), rv.t == p32),
        z3.Implies(sd == SV('HighestOfPreviousOrNew'), rv.t == z3.If(p32 >= e, p32, e)),
        z3.Implies(z3.And(sd == SV('ForceBump'), e > p32), rv.t == e),
        z3.Implies(z3.And(sd == SV('ForceBump'), e <= p32), z3.And(rv.t >= p32, rv.t <= p32 + p32 / 4))),
        'per strategy: retry = previous, highest = max(previous, estimate), force = estimate if higher else previous + 25% (capped at 5x the estimate but never below previous)', [b])
    S.no_panic('C07.e.nopanic', E, [prev <= U32, est.t <= U32 / 5], 'no overflow for estimates <= u32::MAX/5', [b])


def locktime_and_output(S, D, W):
    from .pkg_common import sym_package, oracle_input_args, inputs_line
    NCAP = 2 if S.tier == 'quick' else 3
    # ---- C07.d package_locktime -------------------------------------------------------------
    E = S.engine(unwind=NCAP + 1)
    mem = {}
    f = S.fn('package_locktime', first_param='PackageTemplate')
    pkg_ref, pkg, views, n = sym_package(S, E, D, mem, NCAP)
    h = E.sym('h', 'u32')
    rv = S.call(E, f, [pkg_ref, h], mem)
    # packages never mix pre-signed (holder HTLC) inputs with inputs that carry a minimum locktime,
    # and all pre-signed inputs of one package share their locktime; holder preimage claims carry cltv 0
    # (the aggregation rules in PackageTemplate::can_merge_with enforce this; the code debug_asserts it)
    holder = [z3.And(v['present'], v['kind'] == 4) for v in views]
    recv = [z3.And(v['present'], v['kind'] == 3) for v in views]
    wellformed = [z3.Not(z3.And(z3.Or(*holder), z3.Or(*recv)))]
    for i in range(NCAP):
        wellformed.append(z3.Implies(z3.And(holder[i], views[i]['preimage']), views[i]['hol_cltv'] == 0))
        for j in range(i + 1, NCAP):
            wellformed.append(z3.Implies(z3.And(holder[i], holder[j]), views[i]['hol_cltv'] == views[j]['hol_cltv']))
    pre = [h.t < (1 << 31)] + wellformed
    args = oracle_input_args(E, views, n) + [h.t]
    b = Binding('package_locktime', args, [rv.t], panic=panic_of(E), line_fn=inputs_line(NCAP))
    any_holder = z3.Or(*holder)
    S.prove('C07.d.locktime_final', E, pre, z3.And(
        z3.And(*[z3.Implies(recv[i], rv.t >= views[i]['rec_cltv']) for i in range(NCAP)]),
        z3.And(*[z3.Implies(holder[i], rv.t == views[i]['hol_cltv']) for i in range(NCAP)]),
        z3.Implies(z3.Not(any_holder), rv.t >= h.t)),
        'the locktime of a claim transaction is at least every input\'s CLTV (time-outs of outbound HTLCs), exactly the pre-signed locktime for holder HTLC transactions, and otherwise at least the current height (anti fee-sniping)',
        [b], bounds='<= %d inputs, heights < 2^31' % NCAP)
    S.prove('C07.d.locktime_not_premature', E, pre + [z3.Not(any_holder)], z3.Or(rv.t == h.t, z3.Or(*[z3.And(recv[i], rv.t == views[i]['rec_cltv']) for i in range(NCAP)])),
            'an unsigned package is locked to the current height unless an input forces a later one (it is never locked further into the future than required)', [b])
    S.no_panic('C07.d.nopanic', E, pre, 'no panic (the internal consistency debug_asserts cannot fire on well-formed packages)', [b])
    S.witness('C07.d.witness', E, pre + [n == NCAP], z3.And(recv[0], rv.t > h.t))

    # ---- C07.c compute_package_output ---------------------------------------------------------
    E = S.engine(unwind=NCAP + 1)
    est = estimator(E)
    mem = {}
    f = S.fn('compute_package_output', first_param='PackageTemplate')
    inp = E.sym('inp', 'u64')
    E.models.insert(0, (re.compile(r'PackageTemplate::package_amount$'), lambda *a: inp))
    PT = D.struct_fields('PackageTemplate')
    pkg = E.sym('pkg', f.params[0][1], mem)
    pv = mem[pkg.cell]
    mal = E.read_path(pv, (('f', PT.index('malleability'), 'package::PackageMalleability'),), mem, True, 'spec')
    prev = E.read_path(pv, (('f', PT.index('feerate_previous'), 'u64'),), mem, True, 'spec').t
    w, dust = E.sym('w', 'u64'), E.sym('dust', 'u64')
    strat = E.sym('strategy', f.params[3][1], mem)
    sd = X.zint(mem[strat.cell].d)
    rv = S.call(E, f, [pkg, w, dust, strat, X.Opaque('target'), X.Opaque('estimator'), X.Opaque('logger')], mem)
    some = X.zint(rv.d) == 1
    out, rate = rv.vs[1][0].fs[0].t, rv.vs[1][0].fs[1].t
    pre = [X.zint(mal.d) == D.variant_index('PackageMalleability', 'Malleable'), inp.t <= SUPPLY_SAT, z3.Or(*[w.t == c for c in W]),
           dust.t >= 1, dust.t <= 10000, z3.Or(prev == 0, z3.And(prev >= FLOOR, prev * w.t <= inp.t * 1000))]
    cases = [w.t == c for c in W]
    fee_paid = inp.t - out
    bo = Binding('compute_package_output', [z3.IntVal(1), z3.IntVal(0), z3.IntVal(0), z3.BoolVal(False), inp.t, w.t, dust.t, sd, est.t, prev], [rv.d, out, rate], parse=opt2, panic=panic_of(E))
    S.prove('C07.c.output_bounds', E, pre, z3.Implies(some, z3.And(out >= dust.t, z3.Or(out <= inp.t, out == dust.t), rate >= FLOOR, rate >= prev)),
            'the claim output is never below the dust limit and never above what is being claimed (unless clamped up to the dust limit), and its feerate is at least the floor and the previous feerate',
            bindings=[bo], bounds='weights %s, inputs <= 21e14 sat, dust 1..10000' % W, split=cases)
    S.prove('C07.c.fee_matches_rate', E, pre, z3.Implies(z3.And(some, out > dust.t), z3.And(fee_paid * 1000 >= (rate - 1) * w.t - 1000, fee_paid <= inp.t)),
            'unless the output was clamped to dust, the fee actually paid (inputs - output) corresponds to the reported feerate', [bo], split=cases)
    S.no_panic('C07.c.nopanic', E, pre, 'no overflow / failed assert for admitted inputs', [bo])
    S.witness('C07.c.witness', E, pre + [prev != 0], z3.And(some, out > dust.t))


def merge(S, D):
    """C07.f: merging two claim packages keeps the most urgent schedule of the two"""
    from .pkg_common import oracle_input_args
    E = S.engine(unwind=4)
    E.slice_cap = 1
    mem = {}
    f = S.fn('merge_package', first_param='PackageTemplate')
    can = z3.Bool('env.can_merge')
    E.models.insert(0, (re.compile(r'PackageTemplate::can_merge_with$'), lambda *a: X.B(can)))
    a = E.sym('pa', f.params[0][1], mem)
    bval = E.sym('pb', f.params[1][1], mem)
    h = E.sym('h', 'u32')
    before = mem[a.cell]

    def g(v, nm, ty):
        return field(E, D, 'PackageTemplate', nm, v, ty).t
    a_csh, a_fr, a_ht = g(before, 'counterparty_spendable_height', 'u32'), g(before, 'feerate_previous', 'u64'), g(before, 'height_timer', 'u32')
    b_csh, b_fr, b_ht = g(bval, 'counterparty_spendable_height', 'u32'), g(bval, 'feerate_previous', 'u64'), g(bval, 'height_timer', 'u32')
    PT = D.struct_fields('PackageTemplate')
    a_in = E.read_path(before, (('f', PT.index('inputs'), 'Vec<(bitcoin::OutPoint, package::PackageSolvingData)>'),), mem, True, 'spec')
    b_in = E.read_path(bval, (('f', PT.index('inputs'), 'Vec<(bitcoin::OutPoint, package::PackageSolvingData)>'),), mem, True, 'spec')
    rv = S.call(E, f, [a, bval, h], mem)
    after = mem[a.cell]
    ok = X.zint(rv.d) == 0
    n_csh, n_fr, n_ht = g(after, 'counterparty_spendable_height', 'u32'), g(after, 'feerate_previous', 'u64'), g(after, 'height_timer', 'u32')
    n_in = E.read_path(after, (('f', PT.index('inputs'), 'Vec<(bitcoin::OutPoint, package::PackageSolvingData)>'),), mem, True, 'spec')
    mn = lambda x, y: z3.If(x <= y, x, y)
    # native probe: two single revoked-output packages (mergeable when neither is close to its CSV height)
    native = [X.zint(a_in.n) == 1, X.zint(b_in.n) == 1, can, a_csh > h.t + 12, b_csh > h.t + 12, h.t < (1 << 30), a_csh < (1 << 30), b_csh < (1 << 30)]
    b = Binding('merge_probe', [z3.IntVal(1), z3.IntVal(0), z3.IntVal(0), z3.BoolVal(False), z3.IntVal(1000), a_csh, a_fr, a_ht,
                                z3.IntVal(1), z3.IntVal(0), z3.IntVal(0), z3.BoolVal(False), z3.IntVal(1000), b_csh, b_fr, b_ht, h.t],
                [z3.If(ok, 1, 0), n_csh, n_fr, n_ht, X.zint(n_in.n)])
    S.prove('C07.f.merge_keeps_most_urgent', E, [can], z3.And(ok, n_csh == mn(a_csh, b_csh), n_ht == mn(a_ht, b_ht), n_fr == mn(a_fr, b_fr),
            X.zint(n_in.n) == X.zint(a_in.n) + X.zint(b_in.n)),
            'a merged claim package is scheduled by the earlier of the two counterparty-spendable heights and the earlier bump timer, keeps every input of both packages, and restarts from the lower previous feerate',
            bounds='packages of <= 1 input each (inputs are only moved), all heights / feerates')
    S.prove('C07.f.merge_native', E, native, z3.And(ok, n_csh == mn(a_csh, b_csh), n_ht == mn(a_ht, b_ht), n_fr == mn(a_fr, b_fr), X.zint(n_in.n) == 2),
            'replayable form of the same claim on two single-input revoked-output packages', [b])
    S.prove('C07.f.refused_merge_changes_nothing', E, [z3.Not(can)], z3.And(z3.Not(ok), n_csh == a_csh, n_ht == a_ht, n_fr == a_fr, X.zint(n_in.n) == X.zint(a_in.n)),
            'a refused merge leaves the package untouched')
    S.no_panic('C07.f.nopanic', E, [], 'merge_package is total')


def counterparty_commitment_claims(S, D):
    """C07.g: ChannelMonitorImpl::get_counterparty_output_claim_info - which HTLC outputs of a (non-revoked)
    counterparty commitment that hit the chain get a claim: one iteration of its HTLC loop from an arbitrary
    loop-head state. Keys, cloning, the preimage map, the package constructors and the output vector are stubs."""
    import re
    ids = ['C07.g.claim_iff_claimable', 'C07.g.claim_shape', 'C07.g.corrupt_data_stops', 'C07.g.nopanic', 'C07.g.witness', 'C07.g.validate']
    if all(S._skip(o) for o in ids):
        return
    f = S.fn('get_counterparty_output_claim_info')
    E = S.engine(unwind=1)
    mem = {}
    args = []
    for n, t in f.params:
        args.append(E.sym('a%d' % n, t, mem) if (t.startswith('&') and '[' not in t) or t in ('u32', 'u64') or 'Txid' in t or t.startswith('Option<u32>') or t.startswith('std::option::Option<u32>') else X.Opaque('arg%d' % n))
    run = X.FnRun(E, f, args, True, mem)
    succ, rpo, back, encl = run.analyse_cfg()
    head = None
    for h in sorted({h for (u, h) in back}):
        body = [b for b in rpo if h in encl[b]]
        if any(f.blocks[b][1][0] == 'call' and 'CounterpartyOfferedHTLCOutput::build' in str(f.blocks[b][1][2]) for b in body):
            head = h
    if head is None:
        raise X.Unsupported('HTLC claim loop not found in get_counterparty_output_claim_info')
    pair = E.sym('entry', '&(ln::chan_utils::HTLCOutputInCommitment, std::option::Option<std::boxed::Box<ln::channelmanager::HTLCSource>>)', mem)
    n_out, out_val = E.sym('tx.n_outputs', 'usize'), E.sym('tx.output_value_sat', 'u64')
    E.assume(n_out.t <= 1 << 32)
    known = z3.Bool('env.preimage_known')
    built, pushed, pkgs = [], [], []

    def deref(v, mem_):
        while isinstance(v, X.Ref):
            v = E.read_path(mem_[v.cell], v.path, mem_, True, 'spec')
        return v

    def amount_sat(v, mem_):
        v = deref(v, mem_)
        if getattr(v, 'base', None) == 'outamt':
            return out_val.t
        if isinstance(v, X.Adt) and 0 in v.fs and isinstance(v.fs[0], X.I):
            return v.fs[0].t
        if isinstance(v, X.I):
            return v.t
        if isinstance(v, X.Adt) and v.base is not None:
            return E.sym(v.base + '.sat', 'u64').t
        raise X.Unsupported('amount of %r' % (v,))

    def h_index(E_, m, func, argv, guard, mem_, dty, caller):
        E.panic(z3.And(X.zbool(guard), argv[1].t >= n_out.t), 'index out of bounds', caller.fn.name)
        c = E.new_cell()
        mem_[c] = X.Adt('TxOut', {0: X.Adt('Amount', {}, base='outamt')})
        return X.Ref(c)

    def h_amount_ne(E_, m, func, argv, guard, mem_, dty, caller):
        r = amount_sat(argv[0], mem_) == amount_sat(argv[1], mem_)
        return X.B(z3.Not(r) if m.group(1) == 'ne' else r)

    def h_get(E_, m, func, argv, guard, mem_, dty, caller):
        c = E.new_cell()
        mem_[c] = X.Tup([X.Adt('PaymentPreimage', {}, base='the_preimage'), X.Opaque('claim details')])
        return X.En('Option', z3.If(known, 1, 0), {1: [X.Ref(c)]})

    def h_build(kind):
        def h(E_, m, func, argv, guard, mem_, dty, caller):
            built.append((X.zbool(guard), kind, [deref(a, mem_) for a in argv]))
            return X.Adt(kind, {}, base='built%d' % len(built))
        return h

    def h_pkg(E_, m, func, argv, guard, mem_, dty, caller):
        pkgs.append((X.zbool(guard), argv[0], argv[1], argv[2], argv[3]))
        return X.Adt('PackageTemplate', {}, base='pkg%d' % len(pkgs))

    def h_push(E_, m, func, argv, guard, mem_, dty, caller):
        pushed.append((X.zbool(guard), argv[1]))
        return X.UNIT
    for rx, h in [
        (r'slice::Iter<.*HTLCOutputInCommitment.*> as Iterator>::next$', lambda *a: X.En('Option', 1, {1: [pair]})),
        (r'Vec::<(?:bitcoin::)?TxOut>::len$', lambda *a: n_out),
        (r'Vec<(?:bitcoin::)?TxOut> as (?:std::ops::)?Index<usize>>::index$', h_index),
        (r'Amount as PartialEq>::(eq|ne)$', h_amount_ne),
        (r'HashMap::<.*PaymentHash.*>::get::<', h_get),
        (r'(?:HTLCOutputInCommitment|ChannelTransactionParameters) as Clone>::clone$', lambda E_, m, func, argv, guard, mem_, dty, caller: deref(argv[0], mem_)),
        (r'CounterpartyOfferedHTLCOutput::build$', h_build('CounterpartyOfferedHTLCOutput')),
        (r'CounterpartyReceivedHTLCOutput::build$', h_build('CounterpartyReceivedHTLCOutput')),
        (r'PackageTemplate::build_package$', h_pkg),
        (r'Vec::<(?:package::)?PackageTemplate>::push$', h_push),
    ]:
        E.models.insert(0, (re.compile(rx), h))
    E.depth += 1
    rv, ret, m2 = run.run(start_bb=head)
    E.depth -= 1
    mem.update(m2)
    cont = X.zbool(E.merge_mem(run.cut_states)[0]) if run.cut_states else z3.BoolVal(False)
    returns = X.zbool(ret) if rv is not None else z3.BoolVal(False)
    HO = D.struct_fields('HTLCOutputInCommitment')
    hv = E.read_path(mem[pair.cell], (('f', 0, 'ln::chan_utils::HTLCOutputInCommitment'),), mem, True, 'spec')
    rdh = lambda nm, ty: E.read_path(hv, (('f', HO.index(nm), ty),), mem, True, 'spec')
    offered = X.zbool(rdh('offered', 'bool').t)          # offered BY THE COUNTERPARTY, i.e. inbound for us
    cltv = rdh('cltv_expiry', 'u32').t
    amt = rdh('amount_msat', 'u64').t
    toi = rdh('transaction_output_index', 'Option<u32>')
    has_idx = X.zint(toi.d) == 1
    idx = E.en_payload(toi, 'Some', 1, 0, 'u32', mem, 'spec').t
    consistent = z3.And(idx < n_out.t, out_val.t == amt / 1000)
    n_push = sum([z3.If(g, 1, 0) for g, _ in pushed]) if pushed else z3.IntVal(0)
    pre = [amt <= 21_000_000 * 100_000_000 * 1000, cltv < 500000000]
    if len(pkgs) != 1 or len(pushed) != 1 or len(built) != 2:
        raise X.Unsupported('unexpected loop body shape (%d build_package, %d push, %d output builders); %s' % (len(pkgs), len(pushed), len(built), [w for g_, w in E.unsupported][:3]))
    g_pkg, p_txid, p_vout, p_data, p_height = pkgs[0]
    claimable = z3.Or(z3.Not(offered), known)
    b_off = [b_ for b_ in built if b_[1] == 'CounterpartyOfferedHTLCOutput'][0]
    b_rcv = [b_ for b_ in built if b_[1] == 'CounterpartyReceivedHTLCOutput'][0]

    def ident(v):
        if getattr(v, 'alt', None) is not None:
            c_, x, y = v.alt
            return z3.If(X.zbool(c_), ident(x), ident(y))
        return z3.Int('ident.' + (getattr(v, 'base', None) or 'unknown%d' % next(E.nfresh)))
    txid_arg = [a for (n, t), a in zip(f.params, args) if 'Txid' in t][0]
    kind_ok = z3.And(b_off[0] == z3.And(g_pkg, offered), b_rcv[0] == z3.And(g_pkg, z3.Not(offered)),
                     z3.Implies(offered, z3.And(ident(b_off[2][2]) == ident(hv), ident(b_off[2][1]) == z3.Int('ident.the_preimage'))),
                     z3.Implies(z3.Not(offered), ident(b_rcv[2][1]) == ident(hv)))
    panic = z3.Or(*[X.zbool(p[0]) for p in E.panics]) if E.panics else False

    def line_fn(v):
        return '%d %d %d' % (v[0], v[1], v[2])
    b = Binding('counterparty_claim_probe', [z3.If(has_idx, 1, 0), z3.If(offered, 1, 0), z3.If(known, 1, 0), z3.If(z3.Or(z3.Not(has_idx), consistent), 1, 0)], [z3.If(n_push == 1, 1, 0), z3.If(n_push == 1, p_height.t - cltv, 0), None],
                line_fn=line_fn, which='oracle_tu', panic=panic, domain=[(0, 1), (0, 1), (0, 1), (1, 1)])
    S.prove(ids[0], E, pre + [z3.Or(z3.Not(has_idx), consistent)], z3.And(cont, z3.Not(returns), n_push == z3.If(z3.And(has_idx, claimable), 1, 0)),
            'after the counterparty\'s commitment confirms, an HTLC output gets a claim iff we can claim it: every HTLC we offered (timeout path) and every HTLC offered to us whose preimage we know; an inbound HTLC without preimage and a dust HTLC get none; the scan moves on either way',
            [b], bounds='one loop iteration from an arbitrary loop-head state (any number of HTLCs), amounts <= 21e14 sat, expiries < 500000000')
    S.prove(ids[1], E, pre + [has_idx, consistent, claimable],
            z3.And(g_pkg, pushed[0][0], p_vout.t == idx, ident(p_txid) == ident(deref(txid_arg, mem)), p_height.t == cltv, kind_ok, ident(pushed[0][1]) == z3.Int('ident.pkg1')),
            'the claim is for (commitment txid, the HTLC\'s output index), built from that HTLC - with the stored preimage when the counterparty offered it, as a timeout claim otherwise - and carries the HTLC\'s CLTV expiry as the height from which the counterparty can compete for the output', [b])
    S.prove(ids[2], E, pre + [has_idx, z3.Not(consistent)], z3.And(returns, z3.Not(cont), n_push == 0),
            'stored HTLC data that does not match the transaction stops the scan instead of claiming a wrong output', [])
    S.no_panic(ids[3], E, pre, 'no out-of-bounds index, no unwrap of a missing preimage', [b])
    S.witness(ids[4], E, pre + [has_idx, consistent, offered, known], cont)
    S.validate(ids[5], E, b, n=4, extra_vectors=[(1, 1, 1, 1), (1, 1, 0, 1), (1, 0, 0, 1), (0, 1, 1, 1), (0, 0, 0, 1)])


def holder_commitment_claims(S, D):
    """C07.h: our own commitment hit the chain - which of its HTLC outputs get a second-stage claim
    (get_broadcasted_holder_htlc_descriptors, one loop iteration) and with which urgency height the claim package is
    built (the closure of get_broadcasted_holder_claims)."""
    import re
    ids = ['C07.h.descriptor_iff_claimable', 'C07.h.nopanic', 'C07.h.package_shape', 'C07.h.nopanic2', 'C07.h.witness', 'C07.h.validate']      # (+ 'C07.h.validate2')
    if all(S._skip(o) for o in ids):
        return
    HO = D.struct_fields('HTLCOutputInCommitment')
    HD = D.struct_fields('HTLCDescriptor')

    def ident(E, v):
        if getattr(v, 'alt', None) is not None:
            c_, x, y = v.alt
            return z3.If(X.zbool(c_), ident(E, x), ident(E, y))
        return z3.Int('ident.' + (getattr(v, 'base', None) or 'unknown%d' % next(E.nfresh)))
    # ---- (a) the descriptor loop -----------------------------------------------------------------
    f = S.fn('get_broadcasted_holder_htlc_descriptors')
    E = S.engine(unwind=1)
    mem = {}
    args = [E.sym('a%d' % n, t, mem) if t.startswith('&') else X.Opaque('arg%d' % n) for n, t in f.params]
    run = X.FnRun(E, f, args, True, mem)
    succ, rpo, back, encl = run.analyse_cfg()
    heads = [h for h in sorted({h for (u, h) in back}) if f.blocks[h][1][0] == 'call' and 'Zip<' in str(f.blocks[h][1][2]) and 'Iterator>::next' in str(f.blocks[h][1][2])]
    if len(heads) != 1:
        raise X.Unsupported('descriptor loop not found (%d candidates)' % len(heads))
    htlc = E.sym('htlc', '&ln::chan_utils::HTLCOutputInCommitment', mem)
    sig = X.Ref(E.new_cell())
    mem[sig.cell] = X.Adt('Signature', {}, base='the_sig')
    known = z3.Bool('env.preimage_known')
    pushed = []

    def deref(v, mem_):
        while isinstance(v, X.Ref):
            v = E.read_path(mem_[v.cell], v.path, mem_, True, 'spec')
        return v

    def h_get(E_, m, func, argv, guard, mem_, dty, caller):
        c = E.new_cell()
        mem_[c] = X.Tup([X.Adt('PaymentPreimage', {}, base='the_preimage'), X.Opaque('claim details')])
        return X.En('Option', z3.If(known, 1, 0), {1: [X.Ref(c)]})

    def h_push(E_, m, func, argv, guard, mem_, dty, caller):
        pushed.append((X.zbool(guard), argv[1]))
        return X.UNIT
    for rx, h in [
        (r'Zip<.*> as Iterator>::next$', lambda *a: X.En('Option', 1, {1: [X.Tup([htlc, sig])]})),
        (r'HashMap::<.*PaymentHash.*>::get::<', h_get),
        (r'(?:HTLCOutputInCommitment|ChannelTransactionParameters) as Clone>::clone$', lambda E_, m, func, argv, guard, mem_, dty, caller: deref(argv[0], mem_)),
        (r'Vec::<(?:\w+::)*HTLCDescriptor>::push$', h_push),
        (r'TrustedCommitmentTransaction::<.*>::txid$', lambda *a: X.Adt('Txid', {}, base='the_txid')),
        (r'CommitmentTransaction::(?:per_commitment_point|negotiated_feerate_per_kw|commitment_number)$', lambda *a: X.Opaque('commitment field')),
        (r'TrustedCommitmentTransaction<.*> as (?:std::ops::)?Deref>::deref$', lambda *a: X.Ref(0)),
    ]:
        E.models.insert(0, (re.compile(rx), h))
    E.depth += 1
    rv, ret, m2 = run.run(start_bb=heads[0])
    E.depth -= 1
    mem.update(m2)
    cont = X.zbool(E.merge_mem(run.cut_states)[0]) if run.cut_states else z3.BoolVal(False)
    hv = mem[htlc.cell]
    rdh = lambda nm, ty: E.read_path(hv, (('f', HO.index(nm), ty),), mem, True, 'spec')
    offered = X.zbool(rdh('offered', 'bool').t)                  # offered by US (it is our commitment)
    has_idx = X.zint(rdh('transaction_output_index', 'Option<u32>').d) == 1
    if len(pushed) != 1:
        raise X.Unsupported('expected one push in the descriptor loop, found %d; %s' % (len(pushed), [w for g_, w in E.unsupported][:3]))
    g_push, desc = pushed[0]
    d_htlc = E.read_path(desc, (('f', HD.index('htlc'), 'ln::chan_utils::HTLCOutputInCommitment'),), mem, True, 'spec')
    d_pre = E.read_path(desc, (('f', HD.index('preimage'), 'Option<types::payment::PaymentPreimage>'),), mem, True, 'spec')
    d_sig = E.read_path(desc, (('f', HD.index('counterparty_sig'), 'bitcoin::secp256k1::ecdsa::Signature'),), mem, True, 'spec')
    claimable = z3.Or(offered, known)
    panic = z3.Or(*[X.zbool(p[0]) for p in E.panics]) if E.panics else False
    two = lambda v: '%d %d' % (v[0], v[1])
    # (third argument: the entry has an output index - always true in the live scenario)
    b = Binding('holder_claim_probe', [z3.If(offered, 1, 0), z3.If(known, 1, 0), z3.If(has_idx, 1, 0)], [z3.If(g_push, 1, 0), None], which='oracle_tu', panic=panic,
                domain=[(0, 1), (0, 1), (1, 1)], line_fn=two)
    S.prove(ids[0], E, [has_idx],
            z3.And(cont, g_push == claimable,
                   z3.Implies(g_push, z3.And(ident(E, d_htlc) == ident(E, hv), ident(E, d_sig) == z3.Int('ident.the_sig'),
                                             X.zint(d_pre.d) == z3.If(offered, 0, 1),
                                             z3.Implies(z3.Not(offered), ident(E, E.en_payload(d_pre, 'Some', 1, 0, 'types::payment::PaymentPreimage', mem, 'spec')) == z3.Int('ident.the_preimage'))))),
            'when our own commitment confirms, every non-dust HTLC we can resolve gets a second-stage descriptor - each HTLC we offered (HTLC-timeout, no preimage) and each received HTLC whose preimage is stored (HTLC-success with that preimage), carrying that HTLC and the counterparty signature paired with it; a received HTLC without preimage gets none; the scan always moves on',
            [b], bounds='one loop iteration from an arbitrary loop-head state (any number of HTLCs)')
    S.no_panic(ids[1], E, [has_idx], 'the non-dust list invariant (every entry has an output index) is the only assert', [b])
    S.witness(ids[4], E, [has_idx, z3.Not(offered), known], g_push)
    # ---- (b) the package closure -------------------------------------------------------------------
    ix = S.mir()
    c = [i for i in range(len(ix.offsets)) if re.search(r'::get_broadcasted_holder_claims::\{closure#0\}\(', ix.offsets[i][0])]
    if len(c) != 1:
        raise X.Unsupported('package closure of get_broadcasted_holder_claims: %d candidates' % len(c))
    fc = ix.get(c[0])
    E2 = S.engine()
    mem2 = {}
    conf_height = E2.sym('conf_height', 'u32')
    cap_names = {}
    for dn, dv in fc.debug.items():
        mm = re.search(r'\(\*_1\)\.(\d+): ', dv)
        if mm:
            cap_names[int(mm.group(1))] = dn
    caps = []
    for k in range(max(cap_names) + 1 if cap_names else 0):
        if cap_names.get(k) == 'conf_height':
            cc = E2.new_cell()
            mem2[cc] = conf_height
            caps.append(X.Ref(cc))
        else:
            cc = E2.new_cell()
            mem2[cc] = X.Opaque('captured ' + cap_names.get(k, '?'))
            caps.append(X.Ref(cc))
    key = re.search(r'\{closure@[^}]*\}', fc.params[0][1]).group(0)
    ccell = E2.new_cell()
    mem2[ccell] = X.Clo(key, caps)
    descv = E2.sym('desc', fc.params[1][1], mem2)
    pk = []
    for rx, h in [
        (r'TrustedCommitmentTransaction::<.*>::txid$', lambda *a: X.Adt('Txid', {}, base='the_txid')),
        (r'HolderHTLCOutput::build$', lambda E_, m, func, argv, guard, mem_, dty, caller: X.Adt('HolderHTLCOutput', {0: argv[0]}, base='holder_out')),
        (r'PackageTemplate::build_package$', lambda E_, m, func, argv, guard, mem_, dty, caller: (pk.append((X.zbool(guard), argv)), X.Adt('PackageTemplate', {}, base='pkg'))[1]),
    ]:
        E2.models.insert(0, (re.compile(rx), h))
    S.call(E2, fc, [X.Ref(ccell), descv], mem2)
    ret2 = S.ret_guard
    if len(pk) != 1:
        raise X.Unsupported('expected one build_package in the closure, found %d; %s' % (len(pk), [w for g_, w in E2.unsupported][:3]))
    g_pk, (p_txid, p_vout, p_data, p_height) = pk[0]
    dh = E2.read_path(descv, (('f', HD.index('htlc'), 'ln::chan_utils::HTLCOutputInCommitment'),), mem2, True, 'spec')
    rd2 = lambda nm, ty: E2.read_path(dh, (('f', HO.index(nm), ty),), mem2, True, 'spec')
    off2 = X.zbool(rd2('offered', 'bool').t)
    cltv2 = rd2('cltv_expiry', 'u32').t
    toi2 = rd2('transaction_output_index', 'Option<u32>')
    idx2 = E2.en_payload(toi2, 'Some', 1, 0, 'u32', mem2, 'spec').t
    # an HTLC still pending when the commitment confirms has not expired yet (otherwise the monitor would have gone on
    # chain before, C08.g); also keeps the two candidate heights distinguishable in the replay
    E2.assume(conf_height.t < cltv2)
    pre2 = [X.zint(toi2.d) == 1]
    panic2 = z3.Or(*[X.zbool(p[0]) for p in E2.panics]) if E2.panics else False
    b2 = Binding('holder_claim_probe', [z3.If(off2, 1, 0), z3.IntVal(1), z3.If(X.zint(toi2.d) == 1, 1, 0)], [None, z3.If(p_height.t == conf_height.t, 1, z3.If(p_height.t == cltv2, 0, 9))], which='oracle_tu', panic=panic2,
                 domain=[(0, 1), (1, 1), (1, 1)], line_fn=two)
    S.prove(ids[2], E2, pre2, z3.And(ret2, g_pk, p_vout.t == idx2, ident(E2, p_txid) == z3.Int('ident.the_txid'),
                                     p_height.t == z3.If(off2, conf_height.t, cltv2)),
            'the claim package spends (our commitment txid, the HTLC\'s output index) and carries the height from which the counterparty can compete for that output: the confirmation height for an HTLC we offered (they can claim it with the preimage at once), the CLTV expiry for one we received (they can time it out then)',
            [b2], bounds='every descriptor of the list')
    S.no_panic(ids[3], E2, pre2, 'no panic for a descriptor with an output index', [b2])
    S.validate(ids[5], E, b, n=4, extra_vectors=[(1, 0, 1), (1, 1, 1), (0, 1, 1), (0, 0, 1)])
    S.validate(ids[5] + '2', E2, b2, n=2, extra_vectors=[(1, 1, 1), (0, 1, 1)])


def late_preimage_claims(S, D):
    """C07.i: ChannelMonitorImpl::get_counterparty_output_claims_for_preimage - the preimage arrives after the
    counterparty's commitment confirmed: EVERY HTLC output it unlocks gets a claim (several HTLCs can share one payment
    hash: the parts of an MPP payment over one channel). Whole function on a list of <= 2 HTLCs; keys, hashing, cloning
    and the package constructors are stubs."""
    import re
    ids = ['C07.i.every_matching_htlc_claimed', 'C07.i.nopanic', 'C07.i.witness', 'C07.i.validate']
    if all(S._skip(o) for o in ids):
        return
    NP = 2
    f = S.fn('get_counterparty_output_claims_for_preimage')
    E = S.engine(unwind=NP + 2)
    E.slice_cap = NP
    mem = {}
    args = []
    for n, t in f.params:
        if 'Option<&' in t and 'Vec<' in t:
            lst = E.sym('htlcs', '&std::vec::Vec<(ln::chan_utils::HTLCOutputInCommitment, std::option::Option<std::boxed::Box<ln::channelmanager::HTLCSource>>)>', mem)
            args.append(X.En('Option', 1, {1: [lst]}))
        elif t.startswith('&') or t in ('u64', 'u32') or 'Txid' in t:
            args.append(E.sym('a%d' % n, t, mem))
        elif 'Option<u32>' in t:
            args.append(E.sym('a%d' % n, 'Option<u32>', mem))
        else:
            args.append(X.Opaque('arg%d' % n))
    point_known = z3.Bool('env.point_known')
    pkgs, built = [], []

    def which(v, mem_):
        while isinstance(v, X.Ref):
            ks = [st[1] for st in v.path if st[0] == 'i']
            if ks:
                return ks[-1]
            v = E.read_path(mem_[v.cell], v.path, mem_, True, 'htlc')
        raise X.Unsupported('cannot tell which HTLC %r is' % (v,))
    match = [z3.Bool('htlc%d.hash_matches_preimage' % i) for i in range(NP)]

    def h_hash_eq(E_, m, func, argv, guard, mem_, dty, caller):
        k = which(argv[0], mem_)
        r = match[k] if isinstance(k, int) else z3.Or(*[z3.And(k == i, match[i]) for i in range(NP)])
        return X.B(z3.Not(r) if m.group(1) == 'ne' else r)

    def deref(v, mem_):
        while isinstance(v, X.Ref):
            v = E.read_path(mem_[v.cell], v.path, mem_, True, 'spec')
        return v
    for rx, h in [
        (r'get_point_for_commitment_number$', lambda *a: X.En('Option', z3.If(point_known, 1, 0), {1: [X.Adt('PublicKey', {}, base='the_point')]})),
        (r'Vec::<(?:package::)?PackageTemplate>::new$', lambda *a: X.Seq([], 0, 'PackageTemplate')),
        (r'PaymentHash as From<.*PaymentPreimage>>::from$', lambda *a: X.Adt('PaymentHash', {}, base='hash_of_preimage')),
        (r'PaymentHash as PartialEq>::(eq|ne)$', h_hash_eq),
        (r'(?:HTLCOutputInCommitment|ChannelTransactionParameters) as Clone>::clone$', lambda E_, m, func, argv, guard, mem_, dty, caller: deref(argv[0], mem_)),
        (r'CounterpartyOfferedHTLCOutput::build$', lambda E_, m, func, argv, guard, mem_, dty, caller: (built.append((X.zbool(guard), argv)), X.Adt('CounterpartyOfferedHTLCOutput', {}, base='built%d' % len(built)))[1]),
        (r'PackageTemplate::build_package$', lambda E_, m, func, argv, guard, mem_, dty, caller: (pkgs.append((X.zbool(guard), argv)), X.Adt('PackageTemplate', {}, base='pkg%d' % len(pkgs)))[1]),
    ]:
        E.models.insert(0, (re.compile(rx), h))
    rv = S.call(E, f, args, mem)
    ret = S.ret_guard
    lst_v = mem[lst.cell]
    n = lst_v.n
    HO = D.struct_fields('HTLCOutputInCommitment')

    def hf(i, nm, ty):
        hv = E.read_path(lst_v.elems[i], (('f', 0, 'ln::chan_utils::HTLCOutputInCommitment'),), mem, True, 'spec')
        return E.read_path(hv, (('f', HO.index(nm), ty),), mem, True, 'spec')
    offered = [X.zbool(hf(i, 'offered', 'bool').t) for i in range(NP)]
    cltv = [hf(i, 'cltv_expiry', 'u32').t for i in range(NP)]
    toi = [hf(i, 'transaction_output_index', 'Option<u32>') for i in range(NP)]
    has_idx = [X.zint(t.d) == 1 for t in toi]
    idx = [E.en_payload(t, 'Some', 1, 0, 'u32', mem, 'spec').t for t in toi]
    want = [z3.And(point_known, n > i, has_idx[i], offered[i], match[i]) for i in range(NP)]
    if not isinstance(rv, X.Seq):
        raise X.Unsupported('expected the collected claims as a sequence, got %r; %s' % (rv, [w for g_, w in E.unsupported][:3]))
    n_out = rv.n
    n_want = sum([z3.If(w, 1, 0) for w in want])
    # every package built belongs to one HTLC: vout == that HTLC's index and height == its cltv, under that HTLC's condition
    shape = z3.And(*[z3.Implies(g, z3.Or(*[z3.And(want[i], a[1].t == idx[i], a[3].t == cltv[i]) for i in range(NP)])) for g, a in pkgs]) if pkgs else z3.BoolVal(True)
    panic = z3.Or(*[X.zbool(p[0]) for p in E.panics]) if E.panics else False
    live = z3.And(point_known, n == 2, *[z3.And(has_idx[i], offered[i], match[i]) for i in range(NP)])
    b = Binding('late_preimage_same_hash_probe', [z3.If(live, 1, 0)], [n_out], line_fn=lambda v: '', which='oracle_tu', panic=panic, via_solver=True, domain=[(1, 1)])
    S.prove(ids[0], E, [], z3.And(ret, n_out == n_want, shape),
            'when the preimage arrives after the counterparty commitment confirmed, every HTLC it unlocks (offered to us, with an output, paying to that hash) gets its own claim for (commitment txid, its output index) with its CLTV expiry as the counterparty-spendable height - also when several HTLCs share the payment hash - and no other HTLC does',
            [b], bounds='<= %d HTLCs in the commitment; commitment point lookup, hashing, cloning and package constructors stubbed' % NP)
    S.no_panic(ids[1], E, [], 'total', [b])
    S.witness(ids[2], E, [live], n_out == 2)
    S.validate(ids[3], E, b, n=1, extra_vectors=[(1,)])


def own_csv_binding(claim):
    """replay (oracle_tu own_csv_battery): two live nodes that impose DIFFERENT to_self_delays on each other; node 0 closes
    with its own commitment; its delayed balance must be announced for, and mature into a SpendableOutputs event after,
    the delay its PEER chose (descriptor.to_self_delay likewise); four delay pairs; output = number of bad scenarios"""
    c = claim if z3.is_expr(claim) else X.zbool(claim)
    return Binding('own_csv_battery', [z3.IntVal(0)], [z3.If(c, 0, 1)], parse=lambda t: [0 if t[0] == '0' else 1], line_fn=lambda v: '0',
                   which='oracle_tu', via_solver=True, domain=[(0, 0)], panic=False)


def monitor_role_wiring(S, D):
    """C07.j: `ChannelMonitor::new` - whose parameter ends up in which role. The CSV delay on OUR outputs of OUR commitment
    (to_local, second-stage HTLC outputs: `on_holder_tx_csv`, from which the monitor builds the script it recognises them
    by, the maturity height of the balances and the descriptor the signer gets) is the delay the COUNTERPARTY selected; the
    delay on the counterparty's outputs (`on_counterparty_tx_csv`, used for justice claims) is the one handed in by the
    channel (ours); the counterparty's delayed-payment / HTLC base keys and our revocation base key go where their names
    say. Whole function from its MIR; keys / scripts / maps / the claim handler are opaque stubs, `from_impl` records."""
    ids = ['C07.j.own_outputs_wait_for_peers_delay', 'C07.j.roles', 'C07.j.nopanic', 'C07.j.witness']
    if all(S._skip(o) for o in ids):
        return
    f = S.fn('new', contains='channelmonitor.rs', nargs=13)
    E = S.engine(unwind=2)
    mem = {}
    got = []

    def h_from_impl(E_, m, func, argv, guard, mem_, dty, caller):
        got.append((X.zbool(guard), argv[0]))
        return X.Opaque('monitor')
    opaque = lambda what: (lambda *a: X.Opaque(what))
    for rx, h in [
        (r'ChannelMonitor::<.*>::from_impl$', h_from_impl),
        (r'new_hash_(?:map|set)::<', opaque('empty table')),
        (r'HashMap::<.*>::insert$', opaque('inserted')),
        (r'OnchainTxHandler::<.*>::new$', opaque('claim handler')),
        (r'get_countersigner_payment_script$', opaque('script')),
        (r'make_funding_redeemscript$', opaque('script')),
        (r'Script::to_p2wsh$', opaque('script')),
        (r'ScriptBuf as (?:std::ops::)?Deref>::deref$', opaque('script')),
        (r'ScriptBuf as Clone>::clone$', opaque('script')),
        (r'Script as Into<(?:bitcoin::)?ScriptBuf>>::into$', opaque('script')),
        (r'CounterpartyCommitmentSecrets::new$', opaque('secrets')),
        (r'CommitmentHTLCData::new$', opaque('htlc data')),
        (r'ChannelSigner>::channel_keys_id$', opaque('keys id')),
        (r'HolderCommitmentTransaction as Clone>::clone$', opaque('holder tx')),
        (r'HolderCommitmentTransaction as (?:std::ops::)?Deref>::deref$', opaque('commitment tx')),
        (r'CommitmentTransaction::trust$', opaque('trusted tx')),
        (r'TrustedCommitmentTransaction<.*> as (?:std::ops::)?Deref>::deref$', opaque('commitment tx')),
        (r'CommitmentTransaction::commitment_number$', lambda *a: E.sym('holder_commitment_number', 'u64')),
        (r'ChannelTransactionParameters as Clone>::clone$', opaque('parameters copy')),
    ]:
        E.models.insert(0, (re.compile(rx), h))
    params = E.sym('params', '&chan_utils::ChannelTransactionParameters', mem)
    csv_in = E.sym('on_counterparty_tx_csv', 'u16')
    obscure = E.sym('obscure', 'u64')
    args = [X.Opaque('secp'), X.Opaque('signer'), X.Opaque('shutdown script'), csv_in, X.Opaque('dest script'), params, E.sym('outbound', 'bool'), obscure,
            X.Opaque('holder tx'), X.Opaque('best block'), X.Opaque('node id'), X.Opaque('channel id'), E.sym('manual', 'bool')]
    S.call(E, f, args, mem)
    if len(got) != 1:
        raise X.Unsupported('ChannelMonitor::new: %d from_impl calls' % len(got))
    g_built, imp = got[0]
    MI = D.struct_fields('ChannelMonitorImpl')
    CP = D.struct_fields('ChannelTransactionParameters')
    CC = D.struct_fields('CounterpartyChannelTransactionParameters')
    PK = D.struct_fields('ChannelPublicKeys')
    CCP = D.struct_fields('CounterpartyCommitmentParameters')
    rd = lambda v, fields, nm, ty: E.read_path(v, (('f', fields.index(nm), ty),), mem, True, 'spec')
    pv = mem[params.cell]
    cpo = rd(pv, CP, 'counterparty_parameters', 'Option<chan_utils::CounterpartyChannelTransactionParameters>')
    cp = E.en_payload(cpo, 'Some', 1, 0, 'chan_utils::CounterpartyChannelTransactionParameters', mem, 'spec')
    fo = rd(pv, CP, 'funding_outpoint', 'Option<chain::transaction::OutPoint>')
    pre = [X.zint(cpo.d) == 1, X.zint(fo.d) == 1, obscure.t <= (1 << 48)]
    peers_delay = rd(cp, CC, 'selected_contest_delay', 'u16').t
    our_delay = rd(pv, CP, 'holder_selected_contest_delay', 'u16').t
    own_csv = rd(imp, MI, 'on_holder_tx_csv', 'u16').t
    ccp = rd(imp, MI, 'counterparty_commitment_params', 'channelmonitor::CounterpartyCommitmentParameters')
    their_csv = rd(ccp, CCP, 'on_counterparty_tx_csv', 'u16').t

    def same(a, b):
        """identity of two opaque / lazily symbolic values (keys): the same Python object or the same symbolic origin"""
        if a is b:
            return True
        ba, bb = getattr(a, 'base', None), getattr(b, 'base', None)
        return ba is not None and ba == bb and getattr(a, 'fs', {}) == getattr(b, 'fs', {})
    cpk = rd(cp, CC, 'pubkeys', 'chan_utils::ChannelPublicKeys')
    hpk = rd(pv, CP, 'holder_pubkeys', 'chan_utils::ChannelPublicKeys')
    keys_ok = all([
        same(rd(ccp, CCP, 'counterparty_delayed_payment_base_key', 'DelayedPaymentBasepoint'), rd(cpk, PK, 'delayed_payment_basepoint', 'DelayedPaymentBasepoint')),
        same(rd(ccp, CCP, 'counterparty_htlc_base_key', 'HtlcBasepoint'), rd(cpk, PK, 'htlc_basepoint', 'HtlcBasepoint')),
        same(rd(imp, MI, 'holder_revocation_basepoint', 'RevocationBasepoint'), rd(hpk, PK, 'revocation_basepoint', 'RevocationBasepoint')),
    ])
    S.prove(ids[0], E, pre, z3.And(g_built, own_csv == peers_delay),
            "the monitor of a new channel records, as the CSV delay on OUR outputs of OUR commitment transaction (on_holder_tx_csv: script recognition, balance maturity, spendable-output descriptors), the contest delay the COUNTERPARTY selected - not our own, which may differ",
            [own_csv_binding(own_csv == peers_delay)], bounds='whole function; all u16 delays, both parties independent; keys, scripts, tables and the claim handler opaque',
            assumptions=['counterparty parameters and funding outpoint known (the constructor unwraps both), obscure factor <= 2^48 (asserted by the constructor)'])
    S.prove(ids[1], E, pre, z3.And(g_built, their_csv == csv_in.t, z3.BoolVal(keys_ok),
                                   rd(imp, MI, 'latest_update_id', 'u64').t == 0,
                                   rd(imp, MI, 'current_counterparty_commitment_number', 'u64').t == (1 << 48),
                                   rd(imp, MI, 'commitment_transaction_number_obscure_factor', 'u64').t == obscure.t),
            "the delay on the counterparty's outputs is the one the channel hands in; the counterparty's delayed-payment and HTLC base keys and our revocation base key are taken from the party their names say; update id 0, no counterparty commitment yet (2^48)",
            [], bounds='as above; keys as identities')
    S.no_panic(ids[2], E, pre, 'no panic under the constructor\'s own preconditions (the vec! literal\'s alignment / null checks included)', [])
    S.witness(ids[3], E, pre + [peers_delay != our_delay], g_built)
