"""C19 — storage layer: the decisions of the persister that writes incremental monitor updates
(util/persist.rs, MonitorUpdatingPersisterAsyncInner - the synchronous MonitorUpdatingPersister is a wrapper that
polls it), from the MIR, async bodies run through their poll functions (see C20 / DESIGN §3).  The key-value store is
an environment stub: every operation is a future that is ready at once with a free outcome."""
import re
import z3
from engine_m import exec as X
from engine_m.session import Binding
from .common import *
from .C20 import poll_once, future_stubs

EVIDENCE = dict(assumptions=[
    'kernel only (narrow): which store operations MonitorUpdatingPersisterAsyncInner issues, on which keys, in which order and under which conditions - update_persisted_channel (its synchronous part and its three async blocks), cleanup_in_range, cleanup_stale_updates_for_monitor_to',
    'the key-value store is a stub (each read / write / remove / list is ready at once with a free outcome); monitor and update serialisation, key formatting and ChannelMonitor::update_monitor are stubs; update ids are the only content modelled',
    'the stores themselves (FilesystemStore: rename atomicity, threads), the recovery path read_channel_monitor_with_updates (joined / batched futures) and crash points between operations are outside the claim',
    'async bodies are run through their poll function with every awaited future immediately ready; suspension and interleavings with other persists are not modelled'])

P_IMPL = r'persist::<impl at lightning/src/util/persist\.rs:\d+:1: \d+:63>'


def afn(S, name, k=None, inner='MonitorUpdatingPersisterAsyncInner'):
    """function `name` of the async inner persister (k: its k-th closure = async body / block)"""
    ix = S.mir()
    c = [i for i in range(len(ix.offsets)) if ix.offsets[i][0].split('(')[0].endswith('::' + name) and inner in ix.offsets[i][0]]
    if k is not None and len(c) == 1:
        # the async body / block is `<same impl>::name::{closure#k}`; its own header does not mention the persister type
        owner = ix.offsets[c[0]][0]
        prefix = owner[len('fn '):owner.index('(')]
        c = [i for i in range(len(ix.offsets)) if ix.offsets[i][0].startswith('fn %s::{closure#%d}(' % (prefix, k))]
    if len(c) != 1:
        raise X.Unsupported('%s%s of %s: %d candidates' % (name, '' if k is None else ' closure %d' % k, inner, len(c)))
    return ix.get(c[0])


def battery_binding(claim):
    """replay binding shared by the C19 obligations: two live nodes persisting through the real MonitorUpdatingPersister
    (maximum_pending_updates 0, 1, 2, 3, 4, 5, 7, 100; 9 payments and a force close each); after every step the store is
    read back the way a restart would and must yield the in-memory monitor's update id"""
    c = claim if z3.is_expr(claim) else X.zbool(claim)
    return Binding('persister_battery', [z3.IntVal(1)], [z3.If(c, 0, 1)], parse=lambda t: [0 if t[0] == '0' else 1], line_fn=lambda v: '9',
                   which='oracle_tu', via_solver=True, domain=[(1, 1)], panic=False)


def prove(S, oid, E, pre, claim, desc, **kw):
    return S.prove(oid, E, pre, claim, desc, [battery_binding(claim)], **kw)


def run(S):
    D = S.decls()
    stale_cleanup(S, D)
    range_cleanup(S, D)
    update_persisted(S, D)
    recovery(S, D)
    public_cleanup(S, D)


def _sid(v, E, mem):
    while isinstance(v, X.Ref):
        v = E.read_path(mem[v.cell], v.path, mem, True, 'id')
    if isinstance(v, X.I):
        return v.t
    if isinstance(v, X.Adt) and (0 in v.fs or v.alt is not None):
        return _sid(E.read_path(v, (('f', 0, 'u64'),), mem, True, 'id'), E, mem)
    raise X.Unsupported('update id of %r' % (v,))


def stale_cleanup(S, D):
    """C19.a: cleanup_stale_updates_for_monitor_to, N listed update names."""
    for N in ((0, 1, 2, 3) if S.tier == 'quick' else (0, 1, 2, 3, 4)):
        tag = 'C19.a.n%d' % N
        ids = [tag + s for s in ('.never_deletes_needed', '.deletes_superseded', '.nopanic', '.witness')]
        if all(S._skip(o) for o in ids):
            continue
        f = afn(S, 'cleanup_stale_updates_for_monitor_to', 0)
        E = S.engine(unwind=N + 1)
        mem = {}
        latest = E.sym('monitor.latest_update_id', 'u64')
        lazy = z3.Bool('lazy')
        uid = [E.sym('listed%d.update_id' % i, 'u64') for i in range(N)]
        name_ok = [z3.Bool('listed%d.name_parses' % i) for i in range(N)]
        rem_ok = [z3.Bool('store.remove%d_ok' % i) for i in range(N)]
        list_ok = z3.Bool('store.list_ok')
        removes = []
        names = X.Seq([X.I(i, 'u64') for i in range(N)], N, 'String')     # a listed name is its position

        def mk_list(argv, guard, mem_):
            return X.En('Result', z3.If(list_ok, 0, 1), {0: [names], 1: [X.Opaque('io error')]})

        def mk_remove(argv, guard, mem_):
            i = len(removes)
            rid = _sid(argv[3], E, mem_)
            okk = z3.Or(*[z3.And(rid == uid[j].t, rem_ok[j]) for j in range(N)]) if N else z3.BoolVal(True)
            removes.append((X.zbool(guard), rid, X.zbool(argv[4].t)))
            return X.En('Result', z3.If(okk, 0, 1), {0: [X.UNIT], 1: [X.Opaque('io error')]})

        def h_into_iter(E_, m, func, argv, guard, mem_, dty, caller):
            return X.Tup([argv[0], X.I(0, 'usize')])

        def h_next(E_, m, func, argv, guard, mem_, dty, caller):
            r_ = argv[0]
            st = E.read_path(mem_[r_.cell], r_.path, mem_, guard, 'next')
            seq, k = st.fs[0], st.fs[1].t
            if not isinstance(k, int):
                raise X.Unsupported('symbolic iterator position')
            if k >= len(seq.elems):
                return X.En('Option', 0, {})
            mem_[r_.cell] = E.write_path(mem_[r_.cell], r_.path, X.Tup([seq, X.I(k + 1, 'usize')]), mem_, guard, 'next')
            return X.En('Option', 1, {1: [seq.elems[k]]})

        def h_name(E_, m, func, argv, guard, mem_, dty, caller):
            k = argv[0].t
            return X.En('Result', z3.If(name_ok[k], 0, 1), {0: [X.Adt('UpdateName', {0: uid[k]})], 1: [X.Opaque('io error')]})
        for rx, h in future_stubs(E, [(r' as KVStore>::list$', mk_list), (r' as KVStore>::remove$', mk_remove)]) + [(re.compile(a), b) for a, b in [
                (r'Vec<(?:std::string::)?String> as IntoIterator>::into_iter$', h_into_iter),
                (r'IntoIter<(?:std::string::)?String> as Iterator>::next$', h_next),
                (r'UpdateName::new$', h_name),
                (r'UpdateName::as_str$', lambda E_, m, func, argv, guard, mem_, dty, caller: X.I(_sid(argv[0], E, mem_), 'u64'))]]:
            E.models.insert(0, (rx, h))
        out, st = poll_once(S, E, f, {0: X.Opaque('persister'), 1: X.Opaque('monitor key'), 2: latest, 3: X.B(lazy)}, mem)
        is_ok = X.zint(out.d) == 0
        prove(S, ids[0], E, [], z3.And(*[z3.Implies(g, z3.And(rid <= latest.t, lz == lazy)) for g, rid, lz in removes]),
                'the clean-up never removes an update newer than the stored monitor (recovery replays exactly the updates above the monitor\'s own update id), and hands the caller\'s lazy flag on', bounds='%d update names listed, ids / parse results / store outcomes arbitrary' % N)
        # expected: names are taken in order; a name that does not parse or a failed removal ends the run with an error
        alive = list_ok
        exp = []
        for i in range(N):
            alive_i = z3.And(alive, name_ok[i])
            exp.append(z3.And(alive_i, uid[i].t <= latest.t))
            alive = z3.And(alive_i, z3.Or(uid[i].t > latest.t, rem_ok[i]))
        pre = [z3.Distinct(*[u.t for u in uid])] if N > 1 else []
        if len(removes) != N:
            raise X.Unsupported('cleanup_stale_updates_for_monitor_to: %d remove sites for %d names' % (len(removes), N))
        prove(S, ids[1], E, pre, z3.And(is_ok == alive, *[z3.And(g == e, z3.Implies(e, rid == uid[i].t)) for i, ((g, rid, lz), e) in enumerate(zip(removes, exp))]),
                'every listed update at or below the monitor\'s update id is removed, in listing order, until a name fails to parse or a removal fails - which is reported')
        S.no_panic(ids[2], E, pre, 'total')
        S.witness(ids[3], E, pre, is_ok)


def range_cleanup(S, D):
    """C19.b: cleanup_in_range(start, end)."""
    ids = ['C19.b.exact_range', 'C19.b.nopanic', 'C19.b.witness']
    if all(S._skip(o) for o in ids):
        return
    W = 3 if S.tier == 'quick' else 5
    f = afn(S, 'cleanup_in_range', 0)
    E = S.engine(unwind=W + 2)
    mem = {}
    start, end = E.sym('start', 'u64'), E.sym('end', 'u64')
    removes = []

    def mk_remove(argv, guard, mem_):
        removes.append((X.zbool(guard), _sid(argv[3], E, mem_), X.zbool(argv[4].t)))
        return X.En('Result', z3.If(z3.Bool('store.remove_ok!%d' % next(E.nfresh)), 0, 1), {0: [X.UNIT], 1: [X.Opaque('io error')]})

    def h_range_new(E_, m, func, argv, guard, mem_, dty, caller):
        return X.Tup([argv[0], argv[1], X.B(False)])             # (next, last, exhausted)

    def h_range_next(E_, m, func, argv, guard, mem_, dty, caller):
        r_ = argv[0]
        st = E.read_path(mem_[r_.cell], r_.path, mem_, guard, 'next')
        lo, hi, done = st.fs[0].t, st.fs[1].t, X.zbool(st.fs[2].t)
        some = z3.And(z3.Not(done), lo <= hi)
        nxt = X.Tup([X.I(z3.If(z3.And(some, lo < hi), lo + 1, lo), 'u64'), st.fs[1], X.B(z3.Or(done, z3.Not(lo < hi)))])
        mem_[r_.cell] = E.write_path(mem_[r_.cell], r_.path, nxt, mem_, guard, 'next')
        return X.En('Option', z3.If(some, 1, 0), {1: [X.I(lo, 'u64')]})
    for rx, h in future_stubs(E, [(r' as KVStore>::remove$', mk_remove)]) + [(re.compile(a), b) for a, b in [
            (r'RangeInclusive::<u64>::new$', h_range_new),
            (r'RangeInclusive<u64> as IntoIterator>::into_iter$', lambda E_, m, func, argv, *a: argv[0]),
            (r'RangeInclusive<u64> as Iterator>::next$', h_range_next),
            (r'MonitorName::to_key$', lambda *a: X.Opaque('monitor key')),
            (r'InlineStr::<\d+>::as_str$', lambda *a: X.Opaque('key str')),
            (r'UpdateName as From<u64>>::from$', lambda E_, m, func, argv, *a: X.Adt('UpdateName', {0: argv[0]})),
            (r'UpdateName::as_str$', lambda E_, m, func, argv, guard, mem_, dty, caller: X.I(_sid(argv[0], E, mem_), 'u64'))]]:
        E.models.insert(0, (rx, h))
    out, st = poll_once(S, E, f, {0: X.Opaque('persister'), 1: X.Opaque('monitor name'), 2: start, 3: end}, mem)
    pre = [end.t - start.t < W, end.t < (1 << 64) - 1]
    claim = []
    for k, (g, rid, lz) in enumerate(removes):
        claim.append(g == (start.t + k <= end.t))
        claim.append(z3.Implies(g, z3.And(rid == start.t + k, lz)))
    prove(S, ids[0], E, pre, z3.And(*claim) if claim else z3.BoolVal(False),
            'exactly the update ids start ..= end are removed (lazily), in ascending order, each once, whether or not individual removals fail - nothing above `end`', bounds='ranges of fewer than %d ids (loop unrolled, unwinding side condition checked)' % W)
    S.no_panic(ids[1], E, pre, 'no overflow')
    S.witness(ids[2], E, pre + [end.t == start.t + 2])


def update_persisted(S, D):
    """C19.c: update_persisted_channel - the synchronous part that decides what to write and the async blocks that
    carry it out."""
    ids = ['C19.c.incremental_or_full', 'C19.c.write_before_cleanup', 'C19.c.cleanup_bounds', 'C19.c.result', 'C19.c.nopanic', 'C19.c.witness']
    if all(S._skip(o) for o in ids):
        return
    f = afn(S, 'update_persisted_channel')
    f_final = afn(S, 'update_persisted_channel', 2)
    E = S.engine(unwind=2)
    mem = {}
    IN = D.struct_fields('MonitorUpdatingPersisterAsyncInner')
    max_pending = E.sym('maximum_pending_updates', 'u64')
    inner = E.new_cell()
    mem[inner] = X.Adt('MonitorUpdatingPersisterAsyncInner', {IN.index('maximum_pending_updates'): max_pending}, base='persister')
    CU = D.struct_fields('ChannelMonitorUpdate')
    upd_id = E.sym('update.update_id', 'u64')
    has_update = z3.Bool('update_given')
    uc = E.new_cell()
    mem[uc] = X.Adt('ChannelMonitorUpdate', {CU.index('update_id'): upd_id}, base='update')
    mon = E.sym('monitor', f.params[3][1], mem)
    mon_latest = E.sym('monitor.latest_update_id', 'u64')
    ev = []         # store operations and clean-ups in program order
    w_ok, full_ok = z3.Bool('store.update_write_ok'), z3.Bool('store.monitor_write_ok')
    stale_ok = z3.Bool('cleanup.stale_ok')

    def mk_write(argv, guard, mem_):
        ev.append(('write_update', X.zbool(guard), _sid(argv[3], E, mem_)))
        return X.En('Result', z3.If(w_ok, 0, 1), {0: [X.UNIT], 1: [X.Opaque('io error')]})

    def mk_full(argv, guard, mem_):
        ev.append(('write_monitor', X.zbool(guard), None))
        return X.En('Result', z3.If(full_ok, 0, 1), {0: [X.UNIT], 1: [X.Opaque('io error')]})

    def mk_range(argv, guard, mem_):
        ev.append(('cleanup_range', X.zbool(guard), (argv[2].t, argv[3].t)))
        return X.UNIT

    def mk_stale(argv, guard, mem_):
        ev.append(('cleanup_to', X.zbool(guard), (argv[2].t, X.zbool(argv[3].t))))
        return X.En('Result', z3.If(stale_ok, 0, 1), {0: [X.UNIT], 1: [X.Opaque('io error')]})
    for rx, h in future_stubs(E, [(r' as KVStore>::write$', mk_write),
                                   (r'MonitorUpdatingPersisterAsyncInner::<.*>::persist_new_channel::<', mk_full),
                                   (r'MonitorUpdatingPersisterAsyncInner::<.*>::cleanup_in_range$', mk_range),
                                   (r'MonitorUpdatingPersisterAsyncInner::<.*>::cleanup_stale_updates_for_monitor_to$', mk_stale)]) + [(re.compile(a), b) for a, b in [
            (r'Arc<MonitorUpdatingPersisterAsyncInner<.*>> as (?:std::ops::)?Deref>::deref$', lambda *a: X.Ref(inner)),
            (r'MonitorName::to_key$', lambda *a: X.Opaque('monitor key')),
            (r'InlineStr::<\d+>::as_str$', lambda *a: X.Opaque('key str')),
            (r'UpdateName as From<u64>>::from$', lambda E_, m, func, argv, *a: X.Adt('UpdateName', {0: argv[0]})),
            (r'UpdateName::as_str$', lambda E_, m, func, argv, guard, mem_, dty, caller: X.I(_sid(argv[0], E, mem_), 'u64')),
            (r'ChannelMonitorUpdate as (?:util::ser::)?Writeable>::encode$', lambda *a: X.Opaque('encoded update')),
            (r'ChannelMonitor::<.*>::get_latest_update_id$', lambda *a: mon_latest)]]:
        E.models.insert(0, (rx, h))
    upd = X.En('Option', z3.If(has_update, 1, 0), {1: [X.Ref(uc)]})
    fut = S.call(E, f, [X.Opaque('arc persister'), X.Opaque('monitor name'), upd, mon], mem)
    if not isinstance(fut, X.Cor):
        raise X.Unsupported('update_persisted_channel returned %r' % (fut,))
    stc = E.new_cell()
    mem[stc] = fut
    rv = S.call(E, f_final, [X.Adt('Pin', {0: X.Ref(stc)}), X.Opaque('task context')], mem)
    out = E.en_payload(rv, 'Ready', 0, 0, None, mem, 'poll') if isinstance(rv, X.En) else E.read_path(rv, (('f', 0, '?'),), mem, True, 'poll')
    is_ok = X.zint(out.d) == 0
    kinds = [e[0] for e in ev]
    want = ['write_update', 'write_monitor', 'write_monitor', 'cleanup_to', 'cleanup_range']
    if sorted(kinds) != sorted(want):
        raise X.Unsupported('update_persisted_channel: unexpected store operations %s' % kinds)
    wu = [e for e in ev if e[0] == 'write_update'][0]
    wm = [e for e in ev if e[0] == 'write_monitor']
    cto = [e for e in ev if e[0] == 'cleanup_to'][0]
    crg = [e for e in ev if e[0] == 'cleanup_range'][0]
    LEGACY = (1 << 64) - 1
    incremental = z3.And(has_update, upd_id.t != LEGACY, max_pending.t != 0, upd_id.t % z3.If(max_pending.t == 0, 1, max_pending.t) != 0)
    full = z3.Or(*[e[1] for e in wm])
    # order of the events as issued: index in ev
    pos = {id(e): i for i, e in enumerate(ev)}
    # (WHICH ids get a full write - the multiples of maximum_pending_updates - is a tuning choice recovery does not depend
    #  on, so it is not part of the claim; `incremental` below only describes the tree as it is and is not asserted)
    may_be_incremental = z3.And(has_update, upd_id.t != LEGACY, max_pending.t != 0)
    prove(S, ids[0], E, [], z3.And(z3.Implies(wu[1], z3.And(may_be_incremental, wu[2] == upd_id.t)), full == z3.Not(wu[1]), z3.PbLe([(e[1], 1) for e in wm], 1)),
            'every call writes exactly one thing: either the update, under its own update id (only when an update was given, it is not the legacy closed-channel id and incremental updates are enabled), or the full monitor', bounds='all update ids, all maximum_pending_updates, any monitor; store outcomes free')
    incremental = wu[1]
    prove(S, ids[1], E, [], z3.And(z3.Implies(z3.Or(cto[1], crg[1]), z3.And(has_update, z3.Not(incremental), full_ok))),
            'superseded updates are cleaned up only after a full monitor write that SUCCEEDED (a failed or skipped write leaves every stored update in place)')
    prove(S, ids[2], E, [], z3.And(
        z3.Implies(crg[1], z3.And(mon_latest.t != LEGACY, crg[2][1] == mon_latest.t, crg[2][0] == z3.If(mon_latest.t >= max_pending.t, mon_latest.t - max_pending.t, 0))),
        z3.Implies(cto[1], z3.And(mon_latest.t == LEGACY, cto[2][0] == mon_latest.t, cto[2][1])),
        z3.Not(z3.And(cto[1], crg[1]))),
        'the clean-up after a full write is bounded by the update id of the monitor just written: ids (latest - maximum_pending_updates) ..= latest, or - for a monitor at the legacy closed-channel id - everything at or below it; never an id above the written monitor\'s')
    prove(S, ids[3], E, [], is_ok == z3.If(incremental, w_ok, z3.And(full_ok, z3.Implies(z3.And(has_update, mon_latest.t == LEGACY), stale_ok))),
            'the persist is reported successful iff the write it stands for succeeded (and, for a closed channel\'s final monitor, the clean-up did): a failed store write is never reported as persisted')
    S.no_panic(ids[4], E, [], 'no division by zero (maximum_pending_updates == 0 is tested first), no overflow')
    S.witness(ids[5], E, [has_update, z3.Not(incremental), full_ok, mon_latest.t == 10, max_pending.t == 3], is_ok)
    S.validate('C19.c.validate', E, battery_binding(z3.BoolVal(True)), n=1, extra_vectors=[(1,)])


def recovery(S, D):
    """C19.d: maybe_read_channel_monitor_with_updates - how a monitor is rebuilt from the stored monitor and the stored
    incremental updates.  N listed update names; the joined / batched reads are stubs that are ready at once."""
    for N in ((0, 1, 2) if S.tier == 'quick' else (0, 1, 2, 3)):
        tag = 'C19.d.n%d' % N
        ids = [tag + s for s in ('.applies_newer_in_order', '.errors_reported', '.nopanic', '.witness')]
        if all(S._skip(o) for o in ids):
            continue
        f = afn(S, 'maybe_read_channel_monitor_with_updates', 0)
        E = S.engine(unwind=N + 1)
        mem = {}
        cur = E.sym('stored_monitor.update_id', 'u64')
        uid = [E.sym('listed%d.update_id' % i, 'u64') for i in range(N)]
        name_ok = [z3.Bool('listed%d.name_parses' % i) for i in range(N)]
        read_ok = [z3.Bool('store.read_update%d_ok' % i) for i in range(N)]
        apply_ok = [z3.Bool('monitor.apply%d_ok' % i) for i in range(N)]
        key_ok, mon_ok, mon_some, list_ok = z3.Bool('key_parses'), z3.Bool('store.read_monitor_ok'), z3.Bool('store.monitor_present'), z3.Bool('store.list_ok')
        CU = D.struct_fields('ChannelMonitorUpdate')
        applied = []
        mon_c = E.new_cell()
        mem[mon_c] = X.Opaque('monitor')

        def by_id(term, flags):
            return z3.Or(*[z3.And(term == uid[j].t, flags[j]) for j in range(N)]) if N else z3.BoolVal(True)

        def mk_join(argv, guard, mem_):
            read_res = X.En('Result', z3.If(mon_ok, 0, 1), {0: [X.En('Option', z3.If(mon_some, 1, 0), {1: [X.Tup([X.Opaque('best block'), X.Opaque('monitor')])]})], 1: [X.Opaque('io error')]})
            list_res = X.En('Result', z3.If(list_ok, 0, 1), {0: [X.Opaque('names')], 1: [X.Opaque('io error')]})
            return X.Tup([read_res, list_res])

        def h_collect(E_, m, func, argv, guard, mem_, dty, caller):
            allok = z3.And(*name_ok) if N else z3.BoolVal(True)
            return X.En('Result', z3.If(allok, 0, 1), {0: [X.Seq([X.Adt('UpdateName', {0: uid[i], 1: X.Opaque('name text')}) for i in range(N)], N, 'UpdateName')], 1: [X.Opaque('io error')]})

        def h_sort(E_, m, func, argv, guard, mem_, dty, caller):
            r_ = argv[0]
            s_ = E.read_path(mem_[r_.cell], r_.path, mem_, guard, 'sort')
            if not (isinstance(s_, X.Seq) and isinstance(s_.n, int)):
                raise X.Unsupported('sort of %r' % (s_,))
            el = list(s_.elems[:s_.n])
            key = lambda v: _sid(v, E, mem_)
            # bubble sort as a network of compare-exchanges
            for a_ in range(len(el)):
                for b_ in range(len(el) - 1 - a_):
                    c_ = key(el[b_]) <= key(el[b_ + 1])
                    x, y = el[b_], el[b_ + 1]
                    el[b_], el[b_ + 1] = E.merge(c_, x, y), E.merge(c_, y, x)
            mem_[r_.cell] = E.write_path(mem_[r_.cell], r_.path, X.Seq(el, s_.n, s_.ety), mem_, guard, 'sort')
            return X.UNIT

        def mk_multi(argv, guard, mem_):
            v = argv[0]
            if not isinstance(v, X.Seq):
                raise X.Unsupported('futures to poll: %r' % (v,))
            import os
            if os.environ.get('C19_DEBUG'): print('MULTI prefix', v.prefix, 'n', v.n, 'pres', getattr(v, 'pres', None), 'len', len(v.elems))
            outs = []
            for e in v.elems:
                pl = e.vs.get(D.variant_index('ResultFuture', 'Pending'), [None])[0] if isinstance(e, X.En) else None
                cor = pl
                while isinstance(cor, X.Adt) and cor.name == 'Pin':
                    cor = cor.fs[0]
                if not isinstance(cor, X.Cor):
                    raise X.Unsupported('pending read is %r' % (e,))
                name_ref = cor.ups[0]
                nid = _sid(name_ref, E, mem_)
                upd = X.Adt('ChannelMonitorUpdate', {CU.index('update_id'): X.I(nid, 'u64')}, base='stored_update')
                outs.append(X.Tup([name_ref, X.En('Result', z3.If(by_id(nid, read_ok), 0, 1), {0: [upd], 1: [X.Opaque('io error')]})]))
            return X.Seq(outs, v.n, 'tuple') if v.prefix else X.Seq(outs, None, 'tuple', pres=v.pres)

        def h_results_iter(E_, m, func, argv, guard, mem_, dty, caller):
            v = argv[0]           # by value: the items are the tuples themselves
            its = [((True if v.prefix and isinstance(v.n, int) and i < v.n else (X.simp(X.zint(v.n) > i) if v.prefix else X.simp(v.pres[i]))), e) for i, e in enumerate(v.elems)]
            return X.It('list', extra=([(p_, e) for p_, e in its if p_ is not False], 0))

        def h_apply(E_, m, func, argv, guard, mem_, dty, caller):
            u = argv[1]
            uidv = E.read_path(mem_[u.cell], u.path + (('f', CU.index('update_id'), 'u64'),), mem_, guard, 'apply').t if isinstance(u, X.Ref) else _sid(u, E, mem_)
            applied.append((X.zbool(guard), uidv))
            return X.En('Result', z3.If(by_id(uidv, apply_ok), 0, 1), {0: [X.UNIT], 1: [X.UNIT]})
        for rx, h in future_stubs(E, [(r'TwoFutureJoiner::<.*>::new$', mk_join), (r'MultiResultFuturePoller::<.*>::new$', mk_multi)]) + [(re.compile(a), b) for a, b in [
                (r'MonitorName::from_str$', lambda *a: X.En('Result', z3.If(key_ok, 0, 1), {0: [X.Opaque('monitor name')], 1: [X.Opaque('io error')]})),
                (r'MonitorUpdatingPersisterAsyncInner::<.*>::maybe_read_monitor$', lambda *a: X.Opaque('read future')),
                (r' as KVStore>::list$', lambda *a: X.Opaque('list future')),
                (r'ChannelMonitor::<.*>::get_latest_update_id$', lambda *a: cur),
                (r'Vec<(?:std::string::)?String> as IntoIterator>::into_iter$', lambda *a: X.Opaque('names iter')),
                (r'IntoIter<(?:std::string::)?String> as Iterator>::map::<', lambda *a: X.Opaque('names map')),
                (r'Map<.*IntoIter<(?:std::string::)?String>, .*> as Iterator>::collect::<', h_collect),
                (r'slice::<impl \[UpdateName\]>::sort_unstable$', h_sort),
                (r'Filter<.*UpdateName.*> as Clone>::clone$', lambda E_, m, func, argv, guard, mem_, dty, caller: E.read_path(mem_[argv[0].cell], argv[0].path, mem_, guard, 'clone')),
                (r'Filter<.*UpdateName.*> as Iterator>::count$', lambda *a: E.sym('n_to_load!%d' % next(E.nfresh), 'usize')),
                (r'Box::<\{async block@.*\}>::pin$', lambda E_, m, func, argv, *a: argv[0]),
                (r'Vec<\(&UpdateName, .*\)> as IntoIterator>::into_iter$', h_results_iter),
                (r'UpdateName::as_str$', lambda *a: X.Opaque('name text')),
                (r'(?:bitcoin_io|io)::Error::new::<', lambda *a: X.Opaque('io error')),
                (r'ChannelMonitor::<.*>::update_monitor::<', h_apply)]]:
            E.models.insert(0, (rx, h))
        out, st = poll_once(S, E, f, {0: X.Opaque('persister'), 1: X.Opaque('monitor key')}, mem)
        S._dbg = dict(applied=applied, out=out)
        is_ok = X.zint(out.d) == 0
        got = E.en_payload(out, 'Ok', 0, 0, 'Option', mem, 'spec')
        got_some = z3.And(is_ok, X.zint(got.d) == 1)
        # expected: ids above the stored monitor's, ascending; stops at the first failed read / application
        pre = ([z3.Distinct(*[u.t for u in uid])] if N > 1 else []) + [u.t < (1 << 63) for u in uid] + [cur.t < (1 << 63)]
        start_ok = z3.And(key_ok, mon_ok, mon_some, list_ok, *name_ok)
        want = lambda i: uid[i].t > cur.t
        # the applications the run should make: in ascending id order, each wanted id after all smaller wanted ids succeeded
        def smaller_ok(i):
            return z3.And(*[z3.Implies(z3.And(want(j), uid[j].t < uid[i].t), z3.And(read_ok[j], apply_ok[j])) for j in range(N) if j != i])
        exp_applied = [z3.And(start_ok, want(i), smaller_ok(i), read_ok[i]) for i in range(N)]
        n_applied_id = lambda i: z3.Sum([z3.If(z3.And(g, u == uid[i].t), 1, 0) for g, u in applied]) if applied else z3.IntVal(0)
        order_ok = z3.And(*[z3.Implies(z3.And(applied[a_][0], applied[b_][0]), applied[a_][1] < applied[b_][1]) for a_ in range(len(applied)) for b_ in range(a_ + 1, len(applied))])
        all_fine = z3.And(start_ok, *[z3.Implies(want(i), z3.And(read_ok[i], apply_ok[i])) for i in range(N)])
        prove(S, ids[0], E, pre, z3.And(*[n_applied_id(i) == z3.If(exp_applied[i], 1, 0) for i in range(N)], order_ok,
                                         *[z3.Implies(g, z3.Or(*[u == uid[i].t for i in range(N)])) for g, u in applied]),
              'recovery applies exactly the stored updates whose id is above the stored monitor\'s own update id, each once, in ascending id order (whatever order the store lists them in), and none at or below it',
              bounds='%d update names listed; ids, parse results and store outcomes arbitrary' % N)
        prove(S, ids[1], E, pre, z3.And(got_some == all_fine, z3.Implies(z3.And(key_ok, mon_ok, z3.Not(mon_some)), z3.And(is_ok, z3.Not(got_some)))),
              'a recovered monitor is returned only if the stored monitor, the listing, every name and the reading and application of EVERY newer update succeeded; any failure is an error, never a silently shorter history')
        S.no_panic(ids[2], E, pre, 'total')
        S.witness(ids[3], E, pre + ([want(0)] if N else []), got_some)


def public_cleanup(S, D):
    """C19.e: cleanup_stale_updates (the public clean-up over all stored monitors)."""
    for N in ((1, 2) if S.tier == 'quick' else (1, 2, 3)):
        tag = 'C19.e.n%d' % N
        ids = [tag + '.bounded_by_stored_monitor', tag + '.nopanic', tag + '.witness']
        if all(S._skip(o) for o in ids):
            continue
        f = afn(S, 'cleanup_stale_updates', 0)
        E = S.engine(unwind=N + 1)
        mem = {}
        lazy = z3.Bool('lazy')
        stored_id = [E.sym('stored_monitor%d.update_id' % i, 'u64') for i in range(N)]
        recovered_id = [E.sym('recovered_monitor%d.update_id' % i, 'u64') for i in range(N)]
        list_ok = z3.Bool('store.list_ok')
        key_ok = [z3.Bool('key%d.parses' % i) for i in range(N)]
        read_ok = [z3.Bool('store.read_monitor%d_ok' % i) for i in range(N)]
        present = [z3.Bool('store.monitor%d_present' % i) for i in range(N)]
        clean_ok = [z3.Bool('cleanup%d_ok' % i) for i in range(N)]
        names = X.Seq([X.I(i, 'u64') for i in range(N)], N, 'String')
        calls = []

        def which(v, mem_):
            while isinstance(v, X.Ref):
                v = E.read_path(mem_[v.cell], v.path, mem_, True, 'key')
            if isinstance(v, X.I) and isinstance(v.t, int):
                return v.t
            raise X.Unsupported('monitor key %r' % (v,))

        def mon_future(kind):
            def mk(argv, guard, mem_):
                k = which(argv[-1], mem_)
                mon = X.Adt('ChannelMonitor', {0: X.I((stored_id if kind == 'stored' else recovered_id)[k].t, 'u64')})
                return X.En('Result', z3.If(read_ok[k], 0, 1), {0: [X.En('Option', z3.If(present[k], 1, 0), {1: [X.Tup([X.Opaque('best block'), mon])]})], 1: [X.Opaque('io error')]})
            return mk

        def mk_clean(argv, guard, mem_):
            k = which(argv[1], mem_)
            calls.append((X.zbool(guard), k, argv[2].t, X.zbool(argv[3].t)))
            return X.En('Result', z3.If(clean_ok[k], 0, 1), {0: [X.UNIT], 1: [X.Opaque('io error')]})

        def h_into_iter(E_, m, func, argv, guard, mem_, dty, caller):
            return X.Tup([argv[0], X.I(0, 'usize')])

        def h_next(E_, m, func, argv, guard, mem_, dty, caller):
            r_ = argv[0]
            st = E.read_path(mem_[r_.cell], r_.path, mem_, guard, 'next')
            seq, k = st.fs[0], st.fs[1].t
            if k >= len(seq.elems):
                return X.En('Option', 0, {})
            mem_[r_.cell] = E.write_path(mem_[r_.cell], r_.path, X.Tup([seq, X.I(k + 1, 'usize')]), mem_, guard, 'next')
            return X.En('Option', 1, {1: [seq.elems[k]]})
        for rx, h in future_stubs(E, [(r' as KVStore>::list$', lambda argv, guard, mem_: X.En('Result', z3.If(list_ok, 0, 1), {0: [names], 1: [X.Opaque('io error')]})),
                                       (r'MonitorUpdatingPersisterAsyncInner::<.*>::maybe_read_monitor$', mon_future('stored')),
                                       (r'MonitorUpdatingPersisterAsyncInner::<.*>::maybe_read_channel_monitor_with_updates$', mon_future('recovered')),
                                       (r'MonitorUpdatingPersisterAsyncInner::<.*>::cleanup_stale_updates_for_monitor_to$', mk_clean)]) + [(re.compile(a), b) for a, b in [
                (r'Vec<(?:std::string::)?String> as IntoIterator>::into_iter$', h_into_iter),
                (r'IntoIter<(?:std::string::)?String> as Iterator>::next$', h_next),
                (r'String as (?:std::ops::)?Deref>::deref$', lambda E_, m, func, argv, *a: argv[0]),
                (r'MonitorName::from_str$', lambda E_, m, func, argv, guard, mem_, dty, caller: X.En('Result', z3.If(key_ok[which(argv[0], mem_)], 0, 1), {0: [X.Opaque('monitor name')], 1: [X.Opaque('io error')]})),
                (r'ChannelMonitor::<.*>::get_latest_update_id$', lambda E_, m, func, argv, guard, mem_, dty, caller: X.I(_sid(argv[0], E, mem_), 'u64'))]]:
            E.models.insert(0, (rx, h))
        out, st = poll_once(S, E, f, {0: X.Opaque('persister'), 1: X.B(lazy)}, mem)
        is_ok = X.zint(out.d) == 0
        alive = list_ok
        claim = []
        per_key = {}
        for g, k, bound, lz in calls:
            per_key.setdefault(k, []).append((g, bound, lz))
        for i in range(N):
            reach = z3.And(alive, key_ok[i], read_ok[i])
            want = z3.And(reach, present[i])
            cs = per_key.get(i, [])
            claim.append(z3.PbEq([(g, 1) for g, b_, l_ in cs], 1) == want if cs else z3.Not(want))
            for g, b_, l_ in cs:
                claim.append(z3.Implies(g, z3.And(b_ == stored_id[i].t, l_ == lazy)))
            alive = z3.And(reach, z3.Or(z3.Not(present[i]), clean_ok[i]))
        claim.append(is_ok == alive)
        pre = [recovered_id[i].t > stored_id[i].t for i in range(N)]      # update files on top of the stored monitor: recovery gets further than the stored monitor
        prove(S, ids[0], E, pre, z3.And(*claim),
              'for every stored monitor the public clean-up removes updates up to the update id of the monitor AS STORED (not of the monitor recovery would build from it and the stored updates, which those updates are still needed for), once per monitor, passing the lazy flag on; a key that does not parse, a failed read or a failed clean-up ends the run with an error',
              bounds='%d stored monitors; ids and store outcomes arbitrary' % N)
        S.no_panic(ids[1], E, pre, 'total')
        S.witness(ids[2], E, pre, is_ok)
