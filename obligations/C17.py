"""C17 — the network graph only moves forward: channel_update acceptance predicate."""
import re
import z3
from engine_m import exec as X
from engine_m.session import Binding, Inconclusive
from .common import *

MAX_VALUE_MSAT = 21_000_000 * 100_000_000 * 1000

EVIDENCE = dict(assumptions=[
    'kernel only (narrow): the two acceptance closures of NetworkGraph::update_channel_internal (timestamp strictly newer per direction, htlc_maximum <= capacity, capacity sane); the surrounding function (chain hash, MAX_VALUE_MSAT bound, storing the update) is exercised only by the native probe used for replay',
    'signatures, channel/node announcements, pruning, permutation-invariance over message sets, serialisation and rapid gossip sync are outside the claim'])


def find_closure(S, fname, second_param):
    ix = S.mir()
    c = [i for i in range(len(ix.offsets)) if ('::%s::{closure#' % fname) in ix.offsets[i][0] and re.search(r'_2: &(?:\w+::)*' + second_param, ix.offsets[i][0])]
    if len(c) != 1:
        raise Inconclusive('%s: %d closures over %s' % (fname, len(c), second_param))
    return ix.get(c[0])


def run(S):
    D = S.decls()
    E = S.engine()
    mem = {}
    f_latest = find_closure(S, 'update_channel_internal', r'Option<(?:\w+::)*ChannelUpdateInfo>')
    f_sanity = find_closure(S, 'update_channel_internal', r'ChannelInfo\b')
    key = lambda fn: re.search(r'\{closure@[^}]*\}', fn.params[0][1]).group(0)
    # captured message
    msg = E.sym('msg', '&ln::msgs::UnsignedChannelUpdate', mem)
    c_latest = X.Clo(key(f_latest), [msg])
    cl = E.new_cell()
    mem[cl] = c_latest
    # capture order of check_msg_sanity from its debug info
    caps = {}
    for dn, dv in f_sanity.debug.items():
        mm = re.search(r'\(\*_1\)\.(\d+): ', dv)
        if mm:
            caps[int(mm.group(1))] = dn
    vals = []
    for k in range(max(caps) + 1):
        if caps[k] == 'msg':
            vals.append(msg)
        elif caps[k] == 'check_update_latest':
            vals.append(X.Ref(cl))
        else:
            raise Inconclusive('unexpected capture %s in check_msg_sanity' % caps[k])
    c_sanity = X.Clo(key(f_sanity), vals)
    cs = E.new_cell()
    mem[cs] = c_sanity
    chan = E.sym('chan', f_sanity.params[1][1], mem)
    rv = S.call(E, f_sanity, [X.Ref(cs), chan], mem)
    ok = X.zint(rv.d) == 0
    mv = mem[msg.cell]
    cv = mem[chan.cell]
    ts = field(E, D, 'UnsignedChannelUpdate', 'timestamp', mv, 'u32').t
    flags = field(E, D, 'UnsignedChannelUpdate', 'channel_flags', mv, 'u8').t
    hmax = field(E, D, 'UnsignedChannelUpdate', 'htlc_maximum_msat', mv, 'u64').t
    cap = field(E, D, 'ChannelInfo', 'capacity_sats', cv, 'Option<u64>')
    d12 = field(E, D, 'ChannelInfo', 'one_to_two', cv, 'Option<ChannelUpdateInfo>')
    d21 = field(E, D, 'ChannelInfo', 'two_to_one', cv, 'Option<ChannelUpdateInfo>')
    lu_idx = D.field_index('ChannelUpdateInfo', 'last_update')

    def last_update(o):
        return E.read_path(o, (('v', 'Some'), ('f', 0, 'ChannelUpdateInfo'), ('f', lu_idx, 'u32')), mem, True, 'spec').t
    lu12, lu21 = last_update(d12), last_update(d21)
    has12, has21 = X.zint(d12.d) == 1, X.zint(d21.d) == 1
    cap_some, cap_v = X.zint(cap.d) == 1, cap.vs[1][0].t
    dir1 = (flags % 2) == 1
    # native probe: timestamps are offsets (0..100000) from an unknown base
    base = z3.Int('base')
    off = lambda t: t - base
    pre_probe = [base >= 0, ts - base >= 0, ts - base <= 100000, z3.Implies(has12, z3.And(lu12 - base >= 0, lu12 - base <= 100000)),
                 z3.Implies(has21, z3.And(lu21 - base >= 0, lu21 - base <= 100000)), hmax <= MAX_VALUE_MSAT]
    a_capd, a_capv, a_mask, a_o0, a_o1, a_ts = z3.Int('o.capd'), z3.Int('o.capv'), z3.Int('o.mask'), z3.Int('o.off0'), z3.Int('o.off1'), z3.Int('o.ts')
    E.assume(a_capd == z3.If(cap_some, 1, 0)); E.assume(a_capv == z3.If(cap_some, cap_v, 0))
    E.assume(a_mask == z3.If(has12, 1, 0) + z3.If(has21, 2, 0))
    E.assume(a_o0 == z3.If(has12, off(lu12), 0)); E.assume(a_o1 == z3.If(has21, off(lu21), 0)); E.assume(a_ts == off(ts))
    # existing updates are planted with htlc_maximum 1 msat: they need capacity >= 1 sat (or unknown) and a sane capacity
    probe_ok = z3.Implies(z3.And(cap_some, z3.Or(has12, has21)), z3.And(cap_v >= 1, cap_v <= MAX_VALUE_MSAT / 1000))
    b = Binding('update_channel_probe', [a_capd, a_capv, a_mask, a_o0, a_o1, flags, a_ts, hmax, z3.BoolVal(False)],
                [z3.If(ok, 1, 0)], parse=lambda t: [int(t[0])])
    addressed_has = z3.If(dir1, has21, has12)
    addressed_lu = z3.If(dir1, lu21, lu12)
    spec = z3.And(z3.Implies(cap_some, z3.And(cap_v <= MAX_VALUE_MSAT / 1000, hmax <= cap_v * 1000)),
                  z3.Implies(addressed_has, ts > addressed_lu))
    pre = pre_probe + [probe_ok]
    S.prove('C17.a.accept_iff', E, pre, ok == spec,
            'a channel_update passes the sanity closure iff its timestamp is strictly newer than the stored update of the direction it addresses (bit 0 of channel_flags selects node_two->node_one) and htlc_maximum_msat <= capacity*1000 with a sane capacity when the capacity is known',
            [b], bounds='all u32 timestamps (probe window: offsets <= 100000 s), all u8 flags, all u64 amounts <= MAX_VALUE_MSAT')
    S.prove('C17.a.never_older_or_equal', E, pre, z3.Implies(z3.And(ok, addressed_has), ts > addressed_lu),
            'information is never replaced by a message carrying an older or equal timestamp (equal timestamps are refused, so the first accepted update wins regardless of delivery order)', [b])
    S.prove('C17.a.other_direction_irrelevant', E, pre, z3.Implies(z3.And(spec, z3.Not(addressed_has)), ok),
            'the stored update of the opposite direction never blocks an update', [b])
    S.prove('C17.a.capacity', E, pre, z3.Implies(z3.And(ok, cap_some), hmax <= cap_v * 1000),
            'an accepted update never advertises an htlc_maximum above the known channel capacity', [b])
    S.no_panic('C17.a.nopanic', E, [], 'the acceptance closures are total (no overflow in capacity*1000 for any u64 capacity)', [b])
    S.witness('C17.a.witness', E, pre + [addressed_has, cap_some], ok)
    node_announcements(S, D)
    pruning_step(S, D)
    announcement_signatures(S, D)


def node_announcements(S, D):
    """C17.b: a node_announcement never replaces information with an older or equal timestamp, on the
    signed and on the unsigned (rapid-gossip-sync / replay) path alike, and is refused for unknown nodes"""
    E = S.engine()
    E.slice_cap = 2          # excess data / address vectors of <= 2 elements (only their lengths are inspected)
    mem = {}
    f = S.fn('update_node_from_announcement_intern')
    found, has_info = z3.Bool('env.node_found'), z3.Bool('env.has_announcement_info')
    last = E.sym('env.last_update', 'u32')
    node = X.Adt('NodeInfo', {}, base='node')
    cn = E.new_cell()
    mem[cn] = node
    E.models.insert(0, (re.compile(r'IndexedMap::<.*>::get_mut$'), lambda *a: X.En('Option', z3.If(found, 1, 0), {1: [X.Ref(cn)]})))
    E.models.insert(0, (re.compile(r'NodeAnnouncementInfo::last_update$'), lambda *a: last))
    E.models.insert(0, (re.compile(r'check_hold_pending_node_announcement$'), lambda *a: X.En('Result', z3.If(z3.Bool('env.pending_ok'), 0, 1), {0: [X.UNIT], 1: [X.Opaque('err')]})))
    E.models.insert(0, (re.compile(r'as Clone>::clone$'), lambda E_, m, func, argv, *r: X.Opaque('clone')))
    args = [E.sym('a%d' % n, t, mem) for n, t in f.params]
    # the stored announcement info: present iff has_info
    ai_idx = D.field_index('NodeInfo', 'announcement_info')
    ai = E.read_path(mem[cn], (('f', ai_idx, 'Option<routing::gossip::NodeAnnouncementInfo>'),), mem, True, 'spec')
    E.assume(X.zint(ai.d) == z3.If(has_info, 1, 0))
    rv = S.call(E, f, args, mem)
    ret = S.ret_guard
    ok = z3.And(ret, X.zint(rv.d) == 0)
    ts = field(E, D, 'UnsignedNodeAnnouncement', 'timestamp', mem[args[1].cell], 'u32').t
    b = Binding('node_announcement_probe', [found, has_info, z3.If(has_info, last.t, 0), ts], [z3.If(ok, 1, 0)], parse=lambda t: [int(t[0])])
    S.prove('C17.b.node_newer_only', E, [], ok == z3.And(found, z3.Or(z3.Not(has_info), ts > last.t)),
            'a node_announcement is applied iff the node is known (has a channel) and its timestamp is strictly newer than the stored announcement (if any) - independent of whether the signed message accompanies it',
            [b], bounds='all u32 timestamps; map lookup and stored info abstracted')
    S.no_panic('C17.b.nopanic', E, [], 'total', [b])
    S.witness('C17.b.witness', E, [has_info], ok)


STALE_LIMIT = 60 * 60 * 24 * 14


def pruning_step(S, D):
    """C17.c: one iteration of the per-channel loop of remove_stale_channels_and_tracking_with_time, from an
    arbitrary loop-head state (any channel of a graph of any size): each direction is judged by its OWN
    timestamp, a direction that is current is kept, and the channel is scheduled for removal iff a direction is
    missing afterwards and the announcement itself is older than the limit."""
    if all(S._skip(o) for o in ('C17.c.directions', 'C17.c.removal', 'C17.c.nopanic', 'C17.c.witness', 'C17.c.validate')):
        return
    E = S.engine(unwind=1)
    mem = {}
    f = S.fn('remove_stale_channels_and_tracking_with_time')
    run = X.FnRun(E, f, [X.Ref(E.new_cell()), E.sym('now', 'u64')], True, mem)
    succ, rpo, back, encl = run.analyse_cfg()
    heads = sorted({h for (u, h) in back})
    head = None
    for h in heads:
        term = f.blocks[h][1]
        if term[0] == 'call' and 'IterMut' in str(term[2]) and 'Iterator>::next' in str(term[2]):
            head = h
    if head is None:
        raise X.Unsupported('per-channel loop of remove_stale_channels_and_tracking_with_time not found')
    min_time = E.sym('min_time_unix', 'u32')
    info = E.sym('info', 'routing::gossip::ChannelInfo', mem)
    ci = E.new_cell()
    mem[ci] = info
    cs = E.new_cell()
    mem[cs] = E.sym('scid', 'u64')
    inserted = []

    def h_next(E_, m, func, argv, guard, mem_, dest_ty, caller):
        return X.En('Option', 1, {1: [X.Tup([X.Ref(cs), X.Ref(ci)])]})

    def h_insert(E_, m, func, argv, guard, mem_, dest_ty, caller):
        inserted.append(X.zbool(guard))
        return X.B(z3.Bool('env.set_insert_new'))
    E.models.insert(0, (re.compile(r'IterMut<.*> as Iterator>::next$'), h_next))
    E.models.insert(0, (re.compile(r'HashSet::<u64.*>::insert$'), h_insert))
    i12 = D.field_index('ChannelInfo', 'one_to_two')
    i21 = D.field_index('ChannelInfo', 'two_to_one')
    iann = D.field_index('ChannelInfo', 'announcement_received_time')
    ilu = D.field_index('ChannelUpdateInfo', 'last_update')
    OT = 'std::option::Option<routing::gossip::ChannelUpdateInfo>'

    def direction(val, idx):
        o = E.read_path(val, (('f', idx, OT),), mem, True, 'spec')
        some = X.zint(o.d) == 1
        lu = E.read_path(o, (('v', 'Some'), ('f', 0, 'ChannelUpdateInfo'), ('f', ilu, 'u32')), mem, True, 'spec').t
        return some, lu
    pre12, t12 = direction(info, i12)
    pre21, t21 = direction(info, i21)
    ann = E.read_path(info, (('f', iann, 'u64'),), mem, True, 'spec').t
    loc = lambda name: int(f.debug[name].lstrip('_'))
    init = {loc('min_time_unix'): min_time, loc('scids_to_remove'): X.Opaque('scids_to_remove'), loc('iter'): X.Opaque('iter'),
            loc('channels'): X.Opaque('channels guard')}
    # the prefix of the function returns early unless LIMIT <= now <= u32::MAX, so min_time = now - LIMIT
    E.assume(min_time.t <= (1 << 32) - 1 - STALE_LIMIT)
    E.depth += 1
    rv, ret, m2 = run.run(start_bb=head, init=init)
    E.depth -= 1
    if not run.cut_states:
        raise X.Unsupported('the loop body never returns to the loop head')
    cg, cm = E.merge_mem(run.cut_states)
    cg = X.zbool(cg)
    post = cm[ci]
    mem.update(cm)
    post12, _ = direction(post, i12)
    post21, _ = direction(post, i21)
    removal = z3.Or(*inserted) if inserted else z3.BoolVal(False)
    panic = z3.Or(*[X.zbool(p[0]) for p in E.panics]) if E.panics else False

    def line_fn(v):
        h12, a12, h21, a21, an, mt = v
        return ' '.join(str(x) for x in [h12, a12, h21, a21, an, mt + STALE_LIMIT])
    b = Binding('prune_probe', [z3.If(pre12, 1, 0), z3.If(pre12, t12, 0), z3.If(pre21, 1, 0), z3.If(pre21, t21, 0), ann, min_time.t],
                [z3.If(removal, 0, 1), z3.If(z3.And(z3.Not(removal), post12), 1, 0), z3.If(z3.And(z3.Not(removal), post21), 1, 0)],
                panic=panic, line_fn=line_fn, which='oracle_tu',
                domain=[(0, 1), (0, (1 << 32) - 1), (0, 1), (0, (1 << 32) - 1), (0, (1 << 33)), (0, (1 << 32) - 1 - STALE_LIMIT)])
    S.prove('C17.c.directions', E, [], z3.Implies(cg, z3.And(post12 == z3.And(pre12, t12 >= min_time.t), post21 == z3.And(pre21, t21 >= min_time.t))),
            'pruning judges each direction by its own last update: a directional update is dropped iff its timestamp is older than the two-week limit; the other direction is untouched',
            [b], bounds='one iteration of the per-channel loop from an arbitrary loop-head state (a graph of any size), all u32 timestamps, all u64 announcement times')
    S.prove('C17.c.removal', E, [], z3.Implies(cg, removal == z3.And(z3.Or(z3.Not(post12), z3.Not(post21)), ann < min_time.t)),
            'the channel itself is scheduled for removal iff a direction is missing after that and the announcement was received before the limit (a recently announced channel waiting for its first updates is kept)', [b])
    S.no_panic('C17.c.nopanic', E, [], 'the loop body is total', [b])
    S.witness('C17.c.witness', E, [], z3.And(cg, pre12, pre21, z3.Not(post12), post21, z3.Not(removal)))
    S.validate('C17.c.validate', E, b, n=60 if S.tier == 'quick' else 300)


def announcement_signatures(S, D):
    """C17.d: routing::gossip::verify_channel_announcement - a channel_announcement is authentic only if each of its four
    signatures verifies under the key it belongs to (node 1, node 2, bitcoin key 1, bitcoin key 2). Whole function;
    SHA-256d, key parsing and secp256k1 verification are stubs; a verification's outcome is a free boolean per
    (signature field, key field) pair."""
    ids = ['C17.d.all_four_signatures', 'C17.d.nopanic', 'C17.d.witness', 'C17.d.validate']
    if all(S._skip(o) for o in ids):
        return
    f = S.fn('verify_channel_announcement')
    E = S.engine(unwind=6)
    mem = {}
    msg = E.sym('msg', f.params[0][1], mem)
    CA = D.struct_fields('ChannelAnnouncement')
    UA = D.struct_fields('UnsignedChannelAnnouncement')
    sig_names = ['node_signature_1', 'node_signature_2', 'bitcoin_signature_1', 'bitcoin_signature_2']
    key_names = ['node_id_1', 'node_id_2', 'bitcoin_key_1', 'bitcoin_key_2']
    sig_idx = {CA.index(nm): k for k, nm in enumerate(sig_names)}
    key_idx = {UA.index(nm): k for k, nm in enumerate(key_names)}
    contents_idx = CA.index('contents')
    checks = []       # (guard, sig k, key k, outcome)
    valid = {}

    def field_of(v, table, inner=None):
        """which of the named fields of the message a reference points to"""
        seen = 0
        while isinstance(v, X.Ref) and seen < 8:
            fs = [st[1] for st in v.path if st[0] == 'f']
            if v.cell == msg.cell and fs:
                if inner is None and fs[-1] in table and len(fs) == 1:
                    return table[fs[-1]]
                if inner is not None and len(fs) >= 2 and fs[0] == inner and fs[1] in table:
                    return table[fs[1]]
            v = E.read_path(mem_cur[0][v.cell], v.path, mem_cur[0], True, 'sig')
            seen += 1
        return getattr(v, 'base', None)
    mem_cur = [mem]

    def h_as_slice(E_, m, func, argv, guard, mem_, dty, caller):
        mem_cur[0] = mem_
        k = field_of(argv[0], key_idx, inner=contents_idx)
        return X.Adt('slice', {}, base='keybytes.%s' % k)

    def h_from_slice(E_, m, func, argv, guard, mem_, dty, caller):
        b = getattr(argv[0], 'base', '') or ''
        k = b.split('.')[-1]
        parse_ok = z3.Bool('env.key%s_parses' % k)
        return X.En('Result', z3.If(parse_ok, 0, 1), {0: [X.Adt('PublicKey', {}, base='pubkey.%s' % k)], 1: [X.Opaque('secp error')]})

    def h_verify(E_, m, func, argv, guard, mem_, dty, caller):
        mem_cur[0] = mem_
        sk = field_of(argv[2], sig_idx)
        kv = argv[3]
        while isinstance(kv, X.Ref):
            kv = E.read_path(mem_[kv.cell], kv.path, mem_, True, 'key')
        kk = (getattr(kv, 'base', '') or '').split('.')[-1]
        name = 'env.sig%s_verifies_under_key%s' % (sk, kk)
        valid.setdefault((sk, kk), z3.Bool(name))
        checks.append((X.zbool(guard), sk, kk, valid[(sk, kk)]))
        return X.En('Result', z3.If(valid[(sk, kk)], 0, 1), {0: [X.UNIT], 1: [X.Opaque('secp error')]})
    for rx, h in [
        (r'message_sha256d_hash::<', lambda *a: X.Opaque('hash')),
        (r'Message::from_digest\w*$', lambda *a: X.En('Result', 0, {0: [X.Opaque('digest')]})),
        (r'NodeId::as_slice$', h_as_slice),
        (r'PublicKey::from_slice$', h_from_slice),
        (r'verify_ecdsa$', h_verify),
        (r'^format$|^must_use::<|ChannelId::new_zero$|Index<RangeFull>>::index$', lambda *a: X.Opaque('fmt')),
    ]:
        E.models.insert(0, (re.compile(rx), h))
    rv = S.call(E, f, [msg, X.Opaque('secp context')], mem)
    ok = z3.And(S.ret_guard, X.zint(rv.d) == 0)
    panic = z3.Or(*[X.zbool(p[0]) for p in E.panics]) if E.panics else False

    def checked_ok(k):
        c = [z3.And(g, v) for g, sk, kk, v in checks if sk == k and kk == str(k)]
        return z3.Or(*c) if c else z3.BoolVal(False)
    diag = [valid.get((k, str(k)), z3.BoolVal(False)) for k in range(4)]
    off = [v for (sk, kk), v in valid.items() if str(sk) != kk]
    parses = [z3.Bool('env.key%d_parses' % k) for k in range(4)]
    # live replay: real keys and signatures; a signature made by one key never verifies under another, keys always parse
    live = z3.And(*(parses + [z3.Not(v) for v in off]))
    b = Binding('channel_announcement_sig_probe', [z3.If(d, 1, 0) for d in diag] + [z3.If(live, 1, 0)], [z3.If(ok, 1, 0)],
                line_fn=lambda v: ' '.join(str(x) for x in v[:4]), which='oracle', panic=panic, via_solver=True, domain=[(0, 1)] * 4 + [(1, 1)])
    S.prove(ids[0], E, [], z3.Implies(ok, z3.And(*[checked_ok(k) for k in range(4)])),
            'a channel_announcement passes only if all four signatures were verified, each against its own key - node_signature_1/2 under node_id_1/2 and bitcoin_signature_1/2 under bitcoin_key_1/2 - and every one of them is valid',
            [b], bounds='all outcomes of the (stubbed) key parsing and signature verifications')
    S.no_panic(ids[1], E, [], 'total', [b])
    S.witness(ids[2], E, [], ok)
    S.validate(ids[3], E, b, n=4, extra_vectors=[(1, 1, 1, 1, 1), (0, 1, 1, 1, 1), (1, 0, 1, 1, 1), (1, 1, 0, 1, 1), (1, 1, 1, 0, 1)])
