"""C16 — returned routes are valid: routing-fee arithmetic and its agreement with the forwarder's check."""
import z3
from engine_m import exec as X
from engine_m.session import Binding
from .common import *

EVIDENCE = dict(assumptions=[
    'kernel only: compute_fees / compute_fees_saturating / max_htlc_from_capacity and the cross-module agreement with FundedChannel::internal_htlc_satisfies_config',
    'the path search, liquidity bookkeeping across paths, scorer and completeness are outside the claim'])


def opt_parse(toks):
    return [int(toks[0]), int(toks[1]) if toks[0] == '1' else None]


def run(S):
    D = S.decls()
    # ---- C16.a ----------------------------------------------------------------------
    E = S.engine()
    f = S.fn('compute_fees', nargs=2)
    mem = {}
    amt = E.sym('amt', 'u64')
    fees = E.sym('fees', f.params[1][1], mem)
    rv = S.call(E, f, [amt, fees], mem)
    base = field(E, D, 'RoutingFees', 'base_msat', fees, 'u32')
    prop = field(E, D, 'RoutingFees', 'proportional_millionths', fees, 'u32')
    some = X.zint(rv.d) == 1
    val = rv.vs[1][0].t
    panic = z3.Or(*[X.zbool(p[0]) for p in E.panics]) if E.panics else False
    b = Binding('compute_fees', [amt.t, base.t, prop.t], [rv.d, val], parse=opt_parse, panic=panic,
                domain=[(0, U64), (0, U32), (0, U32)], interesting=[1000000])
    S.validate('C16.a.validate', E, b)
    exact = base.t + (amt.t * prop.t) / 1000000
    S.prove('C16.a.compute_fees', E, [], z3.And(some == z3.And(amt.t * prop.t <= U64, exact <= U64), z3.Implies(some, val == exact)),
            'compute_fees = Some(base + floor(amt*prop/1e6)) iff neither the product nor the sum overflows u64, else None',
            [b], bounds='all u64 amounts, u32 fee parameters')
    S.no_panic('C16.a.nopanic', E, [], 'compute_fees is total', [b])

    E = S.engine()
    f = S.fn('compute_fees_saturating', nargs=2)
    mem = {}
    amt = E.sym('amt', 'u64')
    fees = E.sym('fees', f.params[1][1], mem)
    rv = S.call(E, f, [amt, fees], mem)
    base = field(E, D, 'RoutingFees', 'base_msat', fees, 'u32')
    prop = field(E, D, 'RoutingFees', 'proportional_millionths', fees, 'u32')
    panic = z3.Or(*[X.zbool(p[0]) for p in E.panics]) if E.panics else False
    b = Binding('compute_fees_saturating', [amt.t, base.t, prop.t], [rv.t], panic=panic,
                domain=[(0, U64), (0, U32), (0, U32)], interesting=[1000000])
    S.validate('C16.a.sat.validate', E, b)
    exact = base.t + (amt.t * prop.t) / 1000000
    S.prove('C16.a.saturating', E, [], rv.t == z3.If(z3.And(amt.t * prop.t <= U64, exact <= U64), exact, U64),
            'compute_fees_saturating = min(u64::MAX, exact fee); saturates whenever the product overflows', [b])
    S.no_panic('C16.a.sat.nopanic', E, [], 'compute_fees_saturating is total', [b])

    # ---- C16.b cross-module: router-paid fee satisfies the forwarding node's check -------------
    E = S.engine()
    fr = S.fn('compute_fees', nargs=2)
    fc = S.fn('internal_htlc_satisfies_config')
    mem = {}
    a = E.sym('a', 'u64')
    fees = E.sym('fees', fr.params[1][1], mem)
    fee_o = S.call(E, fr, [a, fees], mem)
    base = field(E, D, 'RoutingFees', 'base_msat', fees, 'u32')
    prop = field(E, D, 'RoutingFees', 'proportional_millionths', fees, 'u32')
    fee = fee_o.vs[1][0].t
    args = [E.sym('c%d' % n, t, mem) for n, t in fc.params]
    htlc = mem[args[1].cell]
    cfg = mem[args[4].cell]
    amt_in = field(E, D, 'UpdateAddHTLC', 'amount_msat', htlc, 'u64')
    cltv_in = field(E, D, 'UpdateAddHTLC', 'cltv_expiry', htlc, 'u32')
    cprop = field(E, D, 'ChannelConfig', 'forwarding_fee_proportional_millionths', cfg, 'u32')
    cbase = field(E, D, 'ChannelConfig', 'forwarding_fee_base_msat', cfg, 'u32')
    cdelta = field(E, D, 'ChannelConfig', 'cltv_expiry_delta', cfg, 'u16')
    rv = S.call(E, fc, args, mem)
    reason = err_payload(rv).d
    FEE_INSUFF = D.variant_index('LocalHTLCFailureReason', 'FeeInsufficient')
    same_policy = [cprop.t == prop.t, cbase.t == base.t, args[2].t == a.t, X.zint(fee_o.d) == 1]
    b1 = Binding('compute_fees', [a.t, base.t, prop.t], [fee_o.d, fee], parse=opt_parse)
    b2 = Binding('htlc_satisfies_config', [amt_in.t, cltv_in.t, args[2].t, args[3].t, cbase.t, cprop.t, cdelta.t], [rv.d, reason],
                 parse=reason_parser(D))
    S.prove('C16.b.router_fee_admitted', E, same_policy + [amt_in.t == a.t + fee, a.t + fee <= U64],
            z3.Not(z3.And(X.zint(rv.d) == 1, reason == FEE_INSUFF)),
            'if the router adds compute_fees(a, policy) on top of a, the forwarding node (same policy) never answers FeeInsufficient',
            [b1, b2], bounds='all u64 amounts and u32 policies')
    S.prove('C16.b.one_msat_less_refused', E, same_policy + [amt_in.t == a.t + fee - 1, a.t + fee <= U64, a.t + fee >= 1],
            z3.And(X.zint(rv.d) == 1, reason == FEE_INSUFF),
            'paying one msat less than compute_fees is refused with FeeInsufficient (the router does not overpay by construction)',
            [b1, b2])
    S.witness('C16.b.witness', E, same_policy + [amt_in.t == a.t + fee, a.t + fee <= U64, prop.t > 0, a.t > 5000000], X.zint(rv.d) == 0)

    # ---- C16.c max_htlc_from_capacity ------------------------------------------------------------
    E = S.engine()
    f = S.fn('max_htlc_from_capacity')
    mem = {}
    cap = E.sym('cap', f.params[0][1], mem)
    pw = E.sym('pow', 'u8')
    rv = S.call(E, f, [cap, pw], mem)
    V = lambda n: D.variant_index('EffectiveCapacity', n)
    # payload symbols, created lazily by the encoding; address them through the same names
    def pl(variant, k, ty='u64'):
        return E.read_path(cap, (('v', variant), ('f', k, ty)), mem, True, 'spec').t
    liq, adv = pl('ExactLiquidity', 0), pl('AdvertisedMaxHTLC', 0)
    tot_c, tot_m, hint = pl('Total', 0), pl('Total', 1), pl('HintMaxHTLC', 0)
    kind = cap.d
    # oracle kind numbering: 0 exact, 1 advertised, 2 total, 3 infinite, 4 hint, 5 unknown
    okind = z3.If(kind == V('ExactLiquidity'), 0, z3.If(kind == V('AdvertisedMaxHTLC'), 1, z3.If(kind == V('Total'), 2,
            z3.If(kind == V('Infinite'), 3, z3.If(kind == V('HintMaxHTLC'), 4, 5)))))
    x = z3.If(kind == V('ExactLiquidity'), liq, z3.If(kind == V('AdvertisedMaxHTLC'), adv, z3.If(kind == V('Total'), tot_c, z3.If(kind == V('HintMaxHTLC'), hint, 0))))
    panic = z3.Or(*[X.zbool(p[0]) for p in E.panics]) if E.panics else False
    # binding args must be plain symbols: introduce oracle-side symbols equal to the derived terms
    ok_s, x_s = z3.Int('okind'), z3.Int('x_arg')
    E.assume(ok_s == okind); E.assume(x_s == x)
    b = Binding('max_htlc_from_capacity', [ok_s, x_s, tot_m, pw.t], [rv.t], panic=panic)
    def shr(v, s):
        r = 0
        for k in range(63, -1, -1):
            r = z3.If(s == k, v / (1 << k), r)
        return r
    spec = z3.If(kind == V('ExactLiquidity'), liq,
           z3.If(kind == V('Infinite'), U64,
           z3.If(kind == V('Unknown'), 250000 * 1000,
           z3.If(kind == V('AdvertisedMaxHTLC'), shr(adv, pw.t),
           z3.If(kind == V('HintMaxHTLC'), hint,
                 z3.If(shr(tot_c, pw.t) <= tot_m, shr(tot_c, pw.t), tot_m))))))
    S.prove('C16.c.max_htlc_from_capacity', E, [], rv.t == spec,
            'per capacity kind: exact / hint pass through, advertised and total are shifted right by the saturation power (0 when >= 64), total is capped by htlc_maximum, unknown = 250k sat',
            [b], bounds='all u64 capacities, all u8 powers (case split on the power: 0..63 and >= 64)',
            split=[pw.t == k for k in range(64)] + [pw.t >= 64])
    S.prove('C16.c.bounded_by_capacity', E, [kind == V('Total')], z3.And(rv.t <= tot_c, rv.t <= tot_m),
            'for a channel of known capacity the usable maximum never exceeds the capacity nor htlc_maximum_msat', [b])
    S.no_panic('C16.c.nopanic', E, [], 'max_htlc_from_capacity is total', [b])
