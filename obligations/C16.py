"""C16 — returned routes are valid: routing-fee arithmetic and its agreement with the forwarder's check."""
import z3
from engine_m import exec as X
from engine_m.session import Binding
from .common import *

EVIDENCE = dict(assumptions=[
    'kernel only: compute_fees / compute_fees_saturating / max_htlc_from_capacity and the cross-module agreement with FundedChannel::internal_htlc_satisfies_config',
    'C16.d: PaymentPath::update_value_and_recompute_fees, whole function, 1..4 (quick) / 1..5 (thorough) hops; per-hop policies and minima are stubs of CandidateRouteHop::fees / htlc_minimum_msat',
    'C16.e: one application of the add_entry! macro inside get_route (a region of its MIR; 3 of the 8 expansions in the quick tier, all 8 in the thorough tier) from an arbitrary state: every live local havocked; CandidateRouteHop accessors other than short_channel_id, max_htlc_from_capacity, compute_fees_saturating (uninterpreted; C16.a covers it), the scorer, used_liquidities.get, previously_failed_*.contains (uninterpreted membership), dist[] indexing and the heap push are stubs; src_node_counter == payer_node_counter is tied to src_node_id == our_node_id',
    'C16.f: one iteration of the used-liquidity bookkeeping loop of get_route from an arbitrary loop-head state; the hash-map entry API is a stub (entry present or absent: free); executions that fail the debug_assert at the end of the body are excluded (it rests on the path-level invariants)',
    'the order in which the search visits nodes (heap), that the regions compose to a whole valid route, the scorer and completeness are outside the claim'])


def opt_parse(toks):
    return [int(toks[0]), int(toks[1]) if toks[0] == '1' else None]


def run(S):
    D = S.decls()
    # ---- C16.a ----------------------------------------------------------------------
    E = S.engine()
    f = S.fn('compute_fees', nargs=2)
    mem = {}
    amt = E.sym('amt', 'u64')
    fees = E.sym('fees', f.params[1][1], mem)
    rv = S.call(E, f, [amt, fees], mem)
    base = field(E, D, 'RoutingFees', 'base_msat', fees, 'u32')
    prop = field(E, D, 'RoutingFees', 'proportional_millionths', fees, 'u32')
    some = X.zint(rv.d) == 1
    val = rv.vs[1][0].t
    panic = z3.Or(*[X.zbool(p[0]) for p in E.panics]) if E.panics else False
    b = Binding('compute_fees', [amt.t, base.t, prop.t], [rv.d, val], parse=opt_parse, panic=panic,
                domain=[(0, U64), (0, U32), (0, U32)], interesting=[1000000])
    S.validate('C16.a.validate', E, b)
    exact = base.t + (amt.t * prop.t) / 1000000
    S.prove('C16.a.compute_fees', E, [], z3.And(some == z3.And(amt.t * prop.t <= U64, exact <= U64), z3.Implies(some, val == exact)),
            'compute_fees = Some(base + floor(amt*prop/1e6)) iff neither the product nor the sum overflows u64, else None',
            [b], bounds='all u64 amounts, u32 fee parameters')
    S.no_panic('C16.a.nopanic', E, [], 'compute_fees is total', [b])

    E = S.engine()
    f = S.fn('compute_fees_saturating', nargs=2)
    mem = {}
    amt = E.sym('amt', 'u64')
    fees = E.sym('fees', f.params[1][1], mem)
    rv = S.call(E, f, [amt, fees], mem)
    base = field(E, D, 'RoutingFees', 'base_msat', fees, 'u32')
    prop = field(E, D, 'RoutingFees', 'proportional_millionths', fees, 'u32')
    panic = z3.Or(*[X.zbool(p[0]) for p in E.panics]) if E.panics else False
    b = Binding('compute_fees_saturating', [amt.t, base.t, prop.t], [rv.t], panic=panic,
                domain=[(0, U64), (0, U32), (0, U32)], interesting=[1000000])
    S.validate('C16.a.sat.validate', E, b)
    exact = base.t + (amt.t * prop.t) / 1000000
    S.prove('C16.a.saturating', E, [], rv.t == z3.If(z3.And(amt.t * prop.t <= U64, exact <= U64), exact, U64),
            'compute_fees_saturating = min(u64::MAX, exact fee); saturates whenever the product overflows', [b])
    S.no_panic('C16.a.sat.nopanic', E, [], 'compute_fees_saturating is total', [b])

    # ---- C16.b cross-module: router-paid fee satisfies the forwarding node's check -------------
    E = S.engine()
    fr = S.fn('compute_fees', nargs=2)
    fc = S.fn('internal_htlc_satisfies_config')
    mem = {}
    a = E.sym('a', 'u64')
    fees = E.sym('fees', fr.params[1][1], mem)
    fee_o = S.call(E, fr, [a, fees], mem)
    base = field(E, D, 'RoutingFees', 'base_msat', fees, 'u32')
    prop = field(E, D, 'RoutingFees', 'proportional_millionths', fees, 'u32')
    fee = fee_o.vs[1][0].t
    args = [E.sym('c%d' % n, t, mem) for n, t in fc.params]
    htlc = mem[args[1].cell]
    cfg = mem[args[4].cell]
    amt_in = field(E, D, 'UpdateAddHTLC', 'amount_msat', htlc, 'u64')
    cltv_in = field(E, D, 'UpdateAddHTLC', 'cltv_expiry', htlc, 'u32')
    cprop = field(E, D, 'ChannelConfig', 'forwarding_fee_proportional_millionths', cfg, 'u32')
    cbase = field(E, D, 'ChannelConfig', 'forwarding_fee_base_msat', cfg, 'u32')
    cdelta = field(E, D, 'ChannelConfig', 'cltv_expiry_delta', cfg, 'u16')
    rv = S.call(E, fc, args, mem)
    reason = err_payload(rv).d
    FEE_INSUFF = D.variant_index('LocalHTLCFailureReason', 'FeeInsufficient')
    same_policy = [cprop.t == prop.t, cbase.t == base.t, args[2].t == a.t, X.zint(fee_o.d) == 1]
    b1 = Binding('compute_fees', [a.t, base.t, prop.t], [fee_o.d, fee], parse=opt_parse)
    b2 = Binding('htlc_satisfies_config', [amt_in.t, cltv_in.t, args[2].t, args[3].t, cbase.t, cprop.t, cdelta.t], [rv.d, reason],
                 parse=reason_parser(D))
    S.prove('C16.b.router_fee_admitted', E, same_policy + [amt_in.t == a.t + fee, a.t + fee <= U64],
            z3.Not(z3.And(X.zint(rv.d) == 1, reason == FEE_INSUFF)),
            'if the router adds compute_fees(a, policy) on top of a, the forwarding node (same policy) never answers FeeInsufficient',
            [b1, b2], bounds='all u64 amounts and u32 policies')
    S.prove('C16.b.one_msat_less_refused', E, same_policy + [amt_in.t == a.t + fee - 1, a.t + fee <= U64, a.t + fee >= 1],
            z3.And(X.zint(rv.d) == 1, reason == FEE_INSUFF),
            'paying one msat less than compute_fees is refused with FeeInsufficient (the router does not overpay by construction)',
            [b1, b2])
    S.witness('C16.b.witness', E, same_policy + [amt_in.t == a.t + fee, a.t + fee <= U64, prop.t > 0, a.t > 5000000], X.zint(rv.d) == 0)

    # ---- C16.c max_htlc_from_capacity ------------------------------------------------------------
    E = S.engine()
    f = S.fn('max_htlc_from_capacity')
    mem = {}
    cap = E.sym('cap', f.params[0][1], mem)
    pw = E.sym('pow', 'u8')
    rv = S.call(E, f, [cap, pw], mem)
    V = lambda n: D.variant_index('EffectiveCapacity', n)
    # payload symbols, created lazily by the encoding; address them through the same names
    def pl(variant, k, ty='u64'):
        return E.read_path(cap, (('v', variant), ('f', k, ty)), mem, True, 'spec').t
    liq, adv = pl('ExactLiquidity', 0), pl('AdvertisedMaxHTLC', 0)
    tot_c, tot_m, hint = pl('Total', 0), pl('Total', 1), pl('HintMaxHTLC', 0)
    kind = cap.d
    # oracle kind numbering: 0 exact, 1 advertised, 2 total, 3 infinite, 4 hint, 5 unknown
    okind = z3.If(kind == V('ExactLiquidity'), 0, z3.If(kind == V('AdvertisedMaxHTLC'), 1, z3.If(kind == V('Total'), 2,
            z3.If(kind == V('Infinite'), 3, z3.If(kind == V('HintMaxHTLC'), 4, 5)))))
    x = z3.If(kind == V('ExactLiquidity'), liq, z3.If(kind == V('AdvertisedMaxHTLC'), adv, z3.If(kind == V('Total'), tot_c, z3.If(kind == V('HintMaxHTLC'), hint, 0))))
    panic = z3.Or(*[X.zbool(p[0]) for p in E.panics]) if E.panics else False
    # binding args must be plain symbols: introduce oracle-side symbols equal to the derived terms
    ok_s, x_s = z3.Int('okind'), z3.Int('x_arg')
    E.assume(ok_s == okind); E.assume(x_s == x)
    b = Binding('max_htlc_from_capacity', [ok_s, x_s, tot_m, pw.t], [rv.t], panic=panic)
    def shr(v, s):
        r = 0
        for k in range(63, -1, -1):
            r = z3.If(s == k, v / (1 << k), r)
        return r
    spec = z3.If(kind == V('ExactLiquidity'), liq,
           z3.If(kind == V('Infinite'), U64,
           z3.If(kind == V('Unknown'), 250000 * 1000,
           z3.If(kind == V('AdvertisedMaxHTLC'), shr(adv, pw.t),
           z3.If(kind == V('HintMaxHTLC'), hint,
                 z3.If(shr(tot_c, pw.t) <= tot_m, shr(tot_c, pw.t), tot_m))))))
    S.prove('C16.c.max_htlc_from_capacity', E, [], rv.t == spec,
            'per capacity kind: exact / hint pass through, advertised and total are shifted right by the saturation power (0 when >= 64), total is capped by htlc_maximum, unknown = 250k sat',
            [b], bounds='all u64 capacities, all u8 powers (case split on the power: 0..63 and >= 64)',
            split=[pw.t == k for k in range(64)] + [pw.t >= 64])
    S.prove('C16.c.bounded_by_capacity', E, [kind == V('Total')], z3.And(rv.t <= tot_c, rv.t <= tot_m),
            'for a channel of known capacity the usable maximum never exceeds the capacity nor htlc_maximum_msat', [b])
    S.no_panic('C16.c.nopanic', E, [], 'max_htlc_from_capacity is total', [b])
    path_fees(S, D)
    from . import C16_route
    C16_route.add_entry_step(S, D)
    C16_route.liquidity_bookkeeping(S, D)
    C16_route.derived_limits(S, D)
    C16_route.merge_key(S, D)


def path_fees(S, D):
    """C16.d: PaymentPath::update_value_and_recompute_fees - the function that fixes every hop's fee_msat of a
    candidate path (called when a path is built, when its value is reduced to remove an overpayment and when two
    equal paths are combined). Whole function, N = 1..3 hops (loop fully unrolled), hop policies and htlc minima
    symbolic (CandidateRouteHop::fees / htlc_minimum_msat stubbed per hop)."""
    import re
    for N in ((1, 2, 3, 4) if S.tier == 'quick' else (1, 2, 3, 4, 5)):
        tag = 'C16.d.n%d' % N
        ids = [tag + k for k in ('.paid_policy_fee', '.htlc_minimum', '.returns_delivered', '.nopanic', '.witness', '.validate')]
        if all(S._skip(o) for o in ids):
            continue
        f = S.fn('update_value_and_recompute_fees')
        E = S.engine(unwind=N + 1)
        mem = {}
        PB = D.struct_fields('PathBuildingHop')
        RF = D.struct_fields('RoutingFees')
        hops = [X.Tup([X.Adt('PathBuildingHop', {}, base='hop%d' % i), X.Opaque('features')]) for i in range(N)]
        pp = X.Adt('PaymentPath', {0: X.Seq(hops, N, '(PathBuildingHop, NodeFeatures)')})
        cp = E.new_cell()
        mem[cp] = pp
        hmin = [E.sym('hop%d.htlc_min' % i, 'u64') for i in range(N)]
        fbase = [E.sym('hop%d.base' % i, 'u32') for i in range(N)]
        fprop = [E.sym('hop%d.prop' % i, 'u32') for i in range(N)]

        def which(v, mem_):
            while isinstance(v, X.Ref):
                ks = [st[1] for st in v.path if st[0] == 'i']
                if ks:
                    return ks[-1]
                v = E.read_path(mem_[v.cell], v.path, mem_, True, 'hop')
            raise X.Unsupported('cannot tell which hop %r belongs to' % (v,))

        def sel(lst, k):
            if isinstance(k, int):
                return lst[k]
            r = lst[-1]
            for j in range(len(lst) - 2, -1, -1):
                r = E.merge(k == j, lst[j], r)
            return r

        def h_rev(E_, m, func, argv, guard, mem_, dty, caller):
            lo = E.read_path(argv[0], (('f', 0, 'usize'),), mem_, guard, 'rev').t
            hi = E.read_path(argv[0], (('f', 1, 'usize'),), mem_, guard, 'rev').t
            if not (isinstance(lo, int) and isinstance(hi, int)):
                raise X.Unsupported('symbolic reversed range')
            return X.It('revrange', extra=(lo, hi))

        def h_rev_next(E_, m, func, argv, guard, mem_, dty, caller):
            r = argv[0]
            it = E.read_path(mem_[r.cell], r.path, mem_, guard, 'next')
            lo, hi = it.extra
            if hi <= lo:
                return X.En('Option', 0, {})
            mem_[r.cell] = E.write_path(mem_[r.cell], r.path, X.It('revrange', extra=(lo, hi - 1)), mem_, guard, 'next')
            return X.En('Option', 1, {1: [X.I(hi - 1, 'usize')]})
        for rx, h in [(r'CandidateRouteHop::<.*>::htlc_minimum_msat$', lambda E_, m, func, argv, guard, mem_, dty, caller: sel(hmin, which(argv[0], mem_))),
                      (r'CandidateRouteHop::<.*>::fees$', lambda E_, m, func, argv, guard, mem_, dty, caller: X.Adt('RoutingFees', {
                          RF.index('base_msat'): sel(fbase, which(argv[0], mem_)), RF.index('proportional_millionths'): sel(fprop, which(argv[0], mem_))})),
                      (r'Range<usize> as Iterator>::rev$', h_rev),
                      (r'Rev<(?:std::ops::)?Range<usize>> as Iterator>::next$', h_rev_next)]:
            E.models.insert(0, (re.compile(rx), h))
        value = E.sym('value', 'u64')
        rv = S.call(E, f, [X.Ref(cp), value], mem)
        ret = S.ret_guard
        out = mem[cp]
        rdh = lambda v, i, nm: E.read_path(v, (('f', 0, 'Vec'), ('i', i), ('f', 0, 'PathBuildingHop'), ('f', PB.index(nm), 'u64')), mem, True, 'spec').t
        fee = [rdh(out, i, 'fee_msat') for i in range(N)]
        hu = [rdh(pp, i, 'hop_use_fee_msat') for i in range(N)]
        pen = [rdh(pp, i, 'path_penalty_msat') for i in range(N)]
        last = N - 1
        A = [None] * N                      # amount carried by the channel of hop j = everything paid from hop j on
        A[last] = fee[last]
        for j in range(N - 2, -1, -1):
            A[j] = fee[j] + A[j + 1]
        # bounds under which no fee computation can overflow u64 (the function relies on its callers for that)
        pre = [value.t >= 1, value.t <= 1 << 40] + [h.t <= 1 << 40 for h in hmin] + [p.t <= 1 << 19 for p in fprop] + [x <= 1 << 40 for x in hu + pen]
        policy_fee = lambda a, j: fbase[j].t + (a * fprop[j].t) / 1000000
        panic = z3.Or(*[X.zbool(p[0]) for p in E.panics]) if E.panics else False
        flat = [value.t]
        for i in range(N):
            flat += [fbase[i].t, fprop[i].t, hmin[i].t, hu[i]]

        def line_fn(v, N=N):
            return ' '.join(str(x) for x in [v[0], N] + list(v[1:]))
        b = Binding('recompute_fees_probe', flat, [rv.t] + fee, panic=panic, line_fn=line_fn,
                    domain=[(1, 1 << 40)] + [(0, U32), (0, 1 << 19), (0, 1 << 40), (0, 1 << 40)] * N, interesting=[1000000, 1 << 40], via_solver=True)
        if N > 1:
            S.prove(ids[0], E, pre + [ret], z3.And(*[fee[j] >= policy_fee(A[j + 1], j + 1) for j in range(N - 1)]),
                    'every forwarding node is paid at least the fee its advertised policy requires for the amount it actually forwards: fee_msat[j] >= base + prop * (amount carried by the next channel) / 10^6, where that amount is everything paid from the next hop on (including what the final hop overpays to meet its htlc_minimum)',
                    [b], bounds='%d hops, value and htlc minima <= 2^40 msat, proportional fees <= 2^19 ppm, any base fee' % N)
        S.prove(ids[1], E, pre + [ret], z3.And(*[A[j] >= hmin[j].t for j in range(N)]),
                'every hop carries at least its channel\'s htlc_minimum_msat', [b], bounds='%d hops' % N)
        S.prove(ids[2], E, pre + [ret], z3.And(rv.t == A[last], A[last] >= value.t),
                'the value reported back is what the final hop delivers, and it is at least the requested value', [b])
        S.no_panic(ids[3], E, pre, 'no overflow, the unreachable!() after compute_fees is not reached within the bounds', [b])
        S.witness(ids[4], E, pre + ([hmin[last].t > value.t, fprop[last].t > 0] if N > 1 else []), ret)
        S.validate(ids[5], E, b, n=100 if S.tier == 'quick' else 400)
