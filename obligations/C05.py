"""C05 - engine K (Kani) harnesses, see harness/src/c05.rs and engine_k/harnesses.json"""
from engine_k import runner as K

EVIDENCE = dict(assumptions=['kernel only: CounterpartyCommitmentSecrets slot arithmetic (place_secret, get_min_seen_secret, slot masks) under Kani; the derive/provide consistency check needs SHA-256 and is not covered by these harnesses', 'HolderCommitmentPoint advance, release_commitment_secret ordering, signer/broadcaster call sequences, reestablish and restart are schedule-level and outside the claim'])


def run(S):
    K.run_property(S, 'C05')
