"""C05 - revoked state: the counterparty-secret store (engine M with SHA-256 uninterpreted for the
derive/provide consistency check; engine K harnesses for the slot arithmetic, see harness/src/c05.rs)"""
from engine_k import runner as K

EVIDENCE = dict(assumptions=['kernel only: CounterpartyCommitmentSecrets (provide_secret / derive_secret / get_secret / place_secret / get_min_seen_secret) and build_commitment_secret; SHA-256 is an uninterpreted function, the 32-byte seed is symbolic, commitment indices are the top m of the 2^48 range (protocol order)', 'the check of a received secret against the announced commitment point is an EC operation (secp256k1) and is NOT covered; HolderCommitmentPoint advance, release_commitment_secret ordering, signer/broadcaster call sequences, reestablish and restart are schedule-level and outside the claim'])


def run(S):
    D = S.decls()
    from .secrets import honest_sequence, inconsistent_rejected
    m = 8 if S.tier == 'quick' else 32
    honest_sequence(S, D, 'C05.a', m)
    inconsistent_rejected(S, D, 'C05.a', [2, 4] if S.tier == 'quick' else [2, 4, 6, 8, 16])
    K.run_property(S, 'C05')
