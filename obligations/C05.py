"""C05 - revoked state: the counterparty-secret store (engine M with SHA-256 uninterpreted for the
derive/provide consistency check; engine K harnesses for the slot arithmetic, see harness/src/c05.rs)"""
from engine_k import runner as K

EVIDENCE = dict(assumptions=['C05.d: validate_commitment_signed as a whole with <= 2 non-dust HTLCs; build_commitment_transaction, scripts, sighashes, verify_ecdsa (free outcome per call), validate_update_fee and the signer are stubs', 'C05.c: revoke_and_ack executed as a region up to the call of provide_secret; ChannelState predicates, SecretKey::from_slice, PublicKey::from_secret_key, PublicKey equality and the signer validation are stubs with free outcomes', 'kernel only: CounterpartyCommitmentSecrets (provide_secret / derive_secret / get_secret / place_secret / get_min_seen_secret) and build_commitment_secret; SHA-256 is an uninterpreted function, the 32-byte seed is symbolic, commitment indices are the top m of the 2^48 range (protocol order)', 'the check of a received secret against the announced commitment point is an EC operation (secp256k1) and is NOT covered; HolderCommitmentPoint advance, release_commitment_secret ordering, signer/broadcaster call sequences, reestablish and restart are schedule-level and outside the claim'])


def run(S):
    D = S.decls()
    from .secrets import honest_sequence, inconsistent_rejected
    m = 8 if S.tier == 'quick' else 32
    honest_sequence(S, D, 'C05.a', m)
    inconsistent_rejected(S, D, 'C05.a', [2, 4] if S.tier == 'quick' else [2, 4, 6, 8, 16])
    raa_acceptance(S, D)
    channel_ready_points(S, D)
    fully_signed_commitment(S, D)
    K.run_property(S, 'C05')


def raa_acceptance(S, D):
    """C05.c: FundedChannel::revoke_and_ack as a region - from its entry to the call that stores the peer's secret
    (CounterpartyCommitmentSecrets::provide_secret). When is a revocation accepted for storage? The channel-state
    predicates, secp256k1 (key parsing, point derivation, key comparison) and the signer's validation are stubs."""
    import re
    import z3
    from engine_m import exec as X
    from engine_m.session import Binding
    ids = ['C05.c.accepted_iff', 'C05.c.nopanic', 'C05.c.witness', 'C05.c.validate']     # (+ 'C05.c.accepted_iff.live_states')
    if all(S._skip(o) for o in ids):
        return
    ix = S.mir()
    c = [i for i in range(len(ix.offsets)) if re.search(r'^fn channel::<impl at [^>]*>::revoke_and_ack\(', ix.offsets[i][0])]
    if len(c) != 1:
        raise X.Unsupported('FundedChannel::revoke_and_ack: %d candidates' % len(c))
    f = ix.get(c[0])
    E = S.engine(unwind=50)
    mem = {}
    args = [E.sym('a%d' % n, t, mem) if t.startswith('&') else (X.B(z3.Bool('hold_mon_update')) if t == 'bool' else X.Opaque('arg%d' % n)) for n, t in f.params]
    preds = {}

    def h_pred(E_, m, func, argv, guard, mem_, dty, caller):
        preds.setdefault(m.group(1), z3.Bool('state.' + m.group(1)))
        return X.B(preds[m.group(1)])
    key_ok, pt_match, sig_ok = z3.Bool('env.secret_is_valid_key'), z3.Bool('env.derived_point_matches'), z3.Bool('env.signer_accepts')
    for rx, h in [
        (r'ChannelState::(is_\w+)$', h_pred),
        (r'SecretKey::from_slice$', lambda *a: X.En('Result', z3.If(key_ok, 0, 1), {0: [X.Adt('SecretKey', {}, base='the_secret')], 1: [X.Opaque('secp error')]})),
        (r'PublicKey::from_secret_key::<', lambda *a: X.Adt('PublicKey', {}, base='derived_point')),
        (r'PublicKey as PartialEq>::(ne|eq)$', lambda E_, m, func, argv, guard, mem_, dty, caller: X.B(z3.Not(pt_match) if m.group(1) == 'ne' else pt_match)),
        (r'ChannelSigner>::validate_counterparty_revocation$', lambda *a: X.En('Result', z3.If(sig_ok, 0, 1), {0: [X.UNIT], 1: [X.UNIT]})),
        (r'ChannelError::close$|ToOwned>::to_owned$', lambda *a: X.Opaque('err')),
    ]:
        E.models.insert(0, (re.compile(rx), h))
    run = X.FnRun(E, f, args, True, mem)
    stops = {b for b, (body, term) in f.blocks.items() if term[0] == 'call' and re.search(r'CounterpartyCommitmentSecrets::provide_secret$', str(term[2]))}
    if len(stops) != 1:
        raise X.Unsupported('the call that stores the secret was not found in revoke_and_ack (%d candidates)' % len(stops))
    E.depth += 1
    rv, ret, m2 = run.run(stop_bbs=stops)
    E.depth -= 1
    st = run.stop_states.get(list(stops)[0], [])
    stored = z3.Or(*[X.zbool(g) for g, _ in st]) if st else z3.BoolVal(False)
    chan = mem[args[0].cell]
    FC = D.struct_fields('FundedChannel', hint='ln/channel.rs')
    CC = D.struct_fields('ChannelContext', hint='ln/channel.rs')
    ctx = E.read_path(chan, (('f', FC.index('context'), 'ln::channel::ChannelContext<SP>'),), mem, True, 'spec')
    state = E.read_path(ctx, (('f', CC.index('channel_state'), 'ln::channel::ChannelState'),), mem, True, 'spec')
    ready = X.zint(state.d) == D.variant_index('ChannelState', 'ChannelReady', hint='ln/channel.rs')
    closing_fee = X.zint(E.read_path(ctx, (('f', CC.index('last_sent_closing_fee'), 'Option<(u64, bool, ClosingSignedFeeRange, Option<Signature>)>'),), mem, True, 'spec').d) == 1
    point_known = X.zint(E.read_path(ctx, (('f', CC.index('counterparty_current_commitment_point'), 'Option<bitcoin::secp256k1::PublicKey>'),), mem, True, 'spec').d) == 1
    cn = E.read_path(ctx, (('f', CC.index('counterparty_next_commitment_transaction_number'), 'u64'),), mem, True, 'spec').t
    P = lambda nm: preds.get(nm, z3.BoolVal(False))
    operational = z3.And(z3.Not(P('is_quiescent')), ready, z3.Not(P('is_peer_disconnected')), z3.Not(z3.And(P('is_both_sides_shutdown'), closing_fee)))
    spec = z3.And(operational, key_ok, z3.Implies(point_known, pt_match), P('is_awaiting_remote_revoke'), sig_ok)
    E.assume(cn < (1 << 48))        # commitment numbers count down from 2^48 - 1
    panic = z3.Or(*[X.zbool(p[0]) for p in E.panics]) if E.panics else False
    normal = z3.And(z3.Not(P('is_quiescent')), ready, z3.Not(z3.And(P('is_both_sides_shutdown'), closing_fee)), key_ok, point_known, sig_ok)

    def line_fn(v):
        return '%d %d %d %d' % (v[0], v[1], v[2], v[3])
    b = Binding('raa_probe', [z3.If(P('is_awaiting_remote_revoke'), 1, 0), z3.If(P('is_monitor_update_in_progress'), 1, 0), z3.If(P('is_peer_disconnected'), 1, 0),
                              z3.If(pt_match, 1, 0), z3.If(normal, 1, 0)], [z3.If(stored, 1, 0)], line_fn=line_fn, which='oracle_tu', panic=panic, via_solver=True,
                domain=[(0, 1), (0, 1), (0, 1), (0, 1), (1, 1)])
    S.prove(ids[0] + '.live_states', E, [normal], stored == spec,
            'the same, restricted to the states the live replay can realise (ready, announced point known, signer accepts): accepted iff connected, awaiting a revocation and the secret matches the announced point',
            [b], bounds='subset of the obligation below (kept separate so that a counterexample lands in the replayable subspace)')
    S.prove(ids[0], E, [], stored == spec,
            'a revocation secret received from the peer reaches the secret store iff the channel is operational (ready, connected, not quiescent, not exchanging closing_signed), the secret is a valid key that derives the commitment point the peer announced for the commitment being revoked, we are actually awaiting a revocation (we signed a newer commitment the peer has not acknowledged), and the signer accepts it - never on an unsolicited or mismatching revoke_and_ack',
            [b], bounds='all combinations of the channel-state predicates and of the stubbed secp256k1 / signer outcomes; execution cut at the call to provide_secret')
    S.no_panic(ids[1], E, [], 'no panic on the way (commitment numbers < 2^48)', [b])
    S.witness(ids[2], E, [z3.Not(P('is_awaiting_remote_revoke')), operational, key_ok, pt_match], z3.Not(stored))
    S.validate(ids[3], E, b, n=8, extra_vectors=[(1, 0, 0, 1, 1), (1, 0, 0, 0, 1), (0, 0, 0, 1, 1), (0, 1, 0, 1, 1), (1, 1, 0, 1, 1), (1, 0, 1, 1, 1)])


def fully_signed_commitment(S, D):
    """C05.d: ChannelContext::validate_commitment_signed - what "a fully signed newer commitment" means when the peer's
    commitment_signed is accepted (only then is the previous commitment revoked). Whole function; the commitment
    construction, scripts, sighashes, secp256k1 signature verification, the fee re-check and the signer are stubs; the
    commitment has <= 2 non-dust HTLCs and the message <= 2 HTLC signatures."""
    import re
    import z3
    from engine_m import exec as X
    from engine_m.session import Binding
    ids = ['C05.d.fully_signed', 'C05.d.fully_signed.live_states', 'C05.d.nopanic', 'C05.d.witness', 'C05.d.validate']
    if all(S._skip(o) for o in ids):
        return
    NP = 2
    f = S.fn('validate_commitment_signed')
    E = S.engine(unwind=NP + 2)
    E.slice_cap = NP
    mem = {}
    args = [E.sym('a%d' % n, t, mem) if t.startswith('&') else X.Opaque('arg%d' % n) for n, t in f.params]
    cd = E.sym('cdata', "ln::channel::CommitmentData<'_>", mem)
    verifs = []
    fee_ok, signer_ok = z3.Bool('env.fee_ok'), z3.Bool('env.signer_ok')

    def h_verify(E_, m, func, argv, guard, mem_, dty, caller):
        okv = z3.Bool('env.sig%d_valid' % len(verifs))
        verifs.append((X.zbool(guard), okv))
        return X.En('Result', z3.If(okv, 0, 1), {0: [X.UNIT], 1: [X.Opaque('secp err')]})
    for rx, h in [
        (r'ChannelContext::<SP>::build_commitment_transaction::<', lambda *a: cd),
        (r'verify_ecdsa$', h_verify),
        (r'validate_update_fee::<', lambda *a: X.En('Result', z3.If(fee_ok, 0, 1), {0: [X.UNIT], 1: [X.Opaque('err')]})),
        (r'validate_holder_commitment$', lambda *a: X.En('Result', z3.If(signer_ok, 0, 1), {0: [X.UNIT], 1: [X.UNIT]})),
        (r'HolderCommitmentTransaction::new$', lambda *a: X.Adt('HolderCommitmentTransaction', {}, base='holder_tx')),
        (r'FundingScope::is_outbound$', lambda *a: X.B(z3.Bool('env.we_are_funder'))),
        (r'ChannelError::close$|ToOwned>::to_owned$|^format$|^must_use::<|ScriptBuf as (?:std::ops::)?Deref>::deref$', lambda *a: X.Opaque('err')),
        (r'p2wsh_signature_hash$|Message::from_digest\w*$|Message::from_slice$', lambda *a: X.En('Result', 0, {0: [X.Opaque('digest')]})),
        (r'get_counterparty_selected_contest_delay$', lambda *a: X.En('Option', 1, {1: [E.sym('env.csv', 'u16')]})),
        (r'supports_anchor\w*$', lambda E_, m, func, argv, *r: X.B(z3.Bool('env.' + func.split('::')[-1]))),
        (r'get_funding_redeemscript$|get_sighash_all$|serialize_compact$|PublicKey::serialize$|serialize_hex::<|build_htlc_transaction$|get_htlc_redeemscript$|SighashCache::<.*>::new$|channel_id$|counterparty_funding_pubkey$|get_holder_pubkeys$|to_public_key$|get_value_satoshis$|get_channel_type$|TrustedCommitmentTransaction::<.*>::keys$|negotiated_feerate_per_kw$|as Clone>::clone$|Index<RangeFull>>::index$|as_ref$|Hash>::from_slice',
         lambda *a: X.Opaque('opaque helper')),
    ]:
        E.models.insert(0, (re.compile(rx), h))
    rv = S.call(E, f, args, mem)
    ok = z3.And(S.ret_guard, X.zint(rv.d) == 0)
    CS = D.struct_fields('CommitmentSigned')
    n_sig = E.read_path(mem[args[4].cell], (('f', CS.index('htlc_signatures'), 'std::vec::Vec<bitcoin::secp256k1::ecdsa::Signature>'),), mem, True, 'spec').n
    CD = D.struct_fields('CommitmentData', hint='ln/channel.rs')
    CT = D.struct_fields('CommitmentTransaction')
    tx = E.read_path(cd, (('f', CD.index('tx'), 'ln::chan_utils::CommitmentTransaction'),), mem, True, 'spec')
    htlcs = E.read_path(tx, (('f', CT.index('nondust_htlcs'), 'std::vec::Vec<ln::chan_utils::HTLCOutputInCommitment>'),), mem, True, 'spec')
    n_htlc = htlcs.n
    HO = D.struct_fields('HTLCOutputInCommitment')
    # invariant of a built commitment: every entry of the non-dust list has an output index (asserted by the code)
    for i in range(NP):
        E.assume(X.zint(E.read_path(htlcs.elems[i], (('f', HO.index('transaction_output_index'), 'Option<u32>'),), mem, True, 'spec').d) == 1)
    # only the non-funder can have a fee update announced by the peer (update_fee from the non-funder is refused)
    CC = D.struct_fields('ChannelContext', hint='ln/channel.rs')
    pf = E.read_path(mem[args[0].cell], (('f', CC.index('pending_update_fee'), 'Option<(u32, ln::channel::FeeUpdateState)>'),), mem, True, 'spec')
    pf_state = E.read_path(E.en_payload(pf, 'Some', 1, 0, '(u32, ln::channel::FeeUpdateState)', mem, 'spec'), (('f', 1, 'ln::channel::FeeUpdateState'),), mem, True, 'spec')
    E.assume(z3.Implies(z3.And(X.zint(pf.d) == 1, X.zint(pf_state.d) == D.variant_index('FeeUpdateState', 'RemoteAnnounced')), z3.Not(z3.Bool('env.we_are_funder'))))
    if len(verifs) < 2:
        raise X.Unsupported('expected the commitment signature check and the per-HTLC checks, found %d verify_ecdsa calls' % len(verifs))
    commit_g, commit_ok = verifs[0]
    htlc_checks = verifs[1:]
    n_checked = sum([z3.If(g, 1, 0) for g, _ in htlc_checks])
    all_valid = z3.And(*[z3.Implies(g, v) for g, v in verifs])
    panic = z3.Or(*[X.zbool(p[0]) for p in E.panics]) if E.panics else False
    live = z3.And(n_htlc == 1, commit_ok, fee_ok, signer_ok)

    def line_fn(v):
        return '%d %d' % (v[0], v[1])
    first_htlc_sig_ok = z3.Or(*[z3.And(g, v) for g, v in htlc_checks]) if htlc_checks else z3.BoolVal(False)
    b = Binding('commitment_signed_probe', [n_sig, z3.If(z3.And(*[z3.Implies(g, v) for g, v in htlc_checks]), 1, 0), z3.If(live, 1, 0)], [z3.If(ok, 1, 0)],
                line_fn=line_fn, which='oracle_tu', panic=panic, via_solver=True, domain=[(0, 2), (0, 1), (1, 1)])
    claim = z3.Implies(ok, z3.And(n_sig == n_htlc, commit_g, commit_ok, n_checked == n_htlc, all_valid, signer_ok))
    S.prove(ids[1], E, [live], claim,
            'restricted to what the live replay can realise (one HTLC; commitment signature, fee check and signer fine): accepted only with exactly one, valid, HTLC signature',
            [b], bounds='subset of the obligation below (kept separate so that a counterexample lands in the replayable subspace)')
    S.prove(ids[0], E, [], claim,
            'a commitment_signed is accepted only if the commitment is FULLY signed: the commitment signature was checked and is valid, the message carries exactly one signature per non-dust HTLC, every one of them was checked against its HTLC transaction and is valid, and the signer accepts the result',
            [b], bounds='<= %d non-dust HTLCs, <= %d HTLC signatures; commitment construction, scripts, sighashes and secp256k1 verification stubbed (free outcomes)' % (NP, NP))
    S.no_panic(ids[2], E, [], 'no panic (every non-dust HTLC has an output index)', [b])
    S.witness(ids[3], E, [n_htlc == 2, n_sig == 2], ok)
    S.validate(ids[4], E, b, n=4, extra_vectors=[(1, 1, 1), (0, 1, 1), (2, 1, 1), (1, 0, 1)])



def channel_ready_points(S, D):
    """C05.e: FundedChannel::channel_ready - when the peer's announced commitment points move. The point a later
    revoke_and_ack is checked against (C05.c) is `counterparty_next_commitment_point` shifted into
    `counterparty_current_commitment_point`; `channel_ready` performs the first shift. Whole function up to the call of
    get_announcement_sigs, REAL state-flag arithmetic (the macro-generated flag types from the MIR), the point comparison a
    free boolean: the points are shifted only by the peer's FIRST channel_ready; once the peer's channel_ready has been
    recorded (THEIR_CHANNEL_READY, with or without WAITING_FOR_BATCH, or the channel is already ready) a further
    channel_ready changes neither point and is accepted only if it names the expected point."""
    import re
    import z3
    from engine_m import exec as X
    ids = ['C05.e.points_move_once', 'C05.e.unused', 'C05.e.witness']
    if all(S._skip(o) for o in ids):
        return
    f = S.fn('channel_ready', first_param='FundedChannel')
    E = S.engine(unwind=2)
    mem = {}
    ch = E.sym('chan', '&mut ln::channel::FundedChannel<SP>', mem)
    msg = E.sym('msg', '&ln::msgs::ChannelReady', mem)
    same_point = z3.Bool('env.point_matches')
    sigs = []
    for rx, h in [
        (r'Option<(?:bitcoin::secp256k1::)?PublicKey> as PartialEq>::ne$', lambda *a: X.B(z3.Not(same_point))),
        (r'Option<(?:bitcoin::secp256k1::)?PublicKey> as PartialEq>::eq$', lambda *a: X.B(same_point)),
        (r'get_announcement_sigs::<', lambda E_, m, func, argv, guard, *a: (sigs.append(X.zbool(guard)), X.Opaque('announcement sigs'))[1]),
        (r'ChannelReady as Clone>::clone$', lambda *a: X.Opaque('msg copy')),
        (r'PublicKey::from_secret_key::<', lambda *a: X.Opaque('derived point')),
        (r'SecretKey::from_slice$', lambda *a: X.En('Result', 0, {0: [X.Opaque('secret key')]})),
        (r'CounterpartyCommitmentSecrets::get_secret$', lambda *a: X.En('Option', 1, {1: [X.Opaque('secret')]})),
        (r'ChannelError::close$', lambda *a: X.Opaque('channel error')),
        (r'ChannelContext::<.*>::channel_id$', lambda *a: X.Opaque('channel id')),
    ]:
        E.models.insert(0, (re.compile(rx), h))
    FC = D.struct_fields('FundedChannel')
    CC = D.struct_fields('ChannelContext')
    rd = lambda v, fields, nm, ty: E.read_path(v, (('f', fields.index(nm), ty),), mem, True, 'spec')
    PK = 'Option<bitcoin::secp256k1::PublicKey>'

    def point_byte(ctxv, nm):
        o = rd(ctxv, CC, nm, PK)
        pk = E.en_payload(o, 'Some', 1, 0, 'bitcoin::secp256k1::PublicKey', mem, 'spec')
        b0 = E.read_path(pk, (('f', 0, 'bitcoin::secp256k1::ffi::PublicKey'), ('f', 0, '[u8; 64]'), ('i', 0)), mem, True, 'spec')
        return X.zint(o.d), X.zint(b0.t)
    msg2 = E.sym('msg2', '&ln::msgs::ChannelReady', mem)
    same_point2 = z3.Bool('env.point_matches2')
    calls_eq = []
    E.models.insert(0, (re.compile(r'Option<(?:bitcoin::secp256k1::)?PublicKey> as PartialEq>::ne$'), lambda *a: (calls_eq.append(1), X.B(z3.Not(same_point if len(calls_eq) <= n_first[0] else same_point2)))[1]))
    n_first = [10 ** 9]
    CS = 'ln::channel::ChannelState'
    ACR = D.variant_index('ChannelState', 'AwaitingChannelReady', hint='channel.rs')
    CR = D.variant_index('ChannelState', 'ChannelReady', hint='channel.rs')
    ctx0 = rd(mem[ch.cell], FC, 'context', 'ln::channel::ChannelContext<SP>')
    st0 = rd(ctx0, CC, 'channel_state', CS)
    # representation invariant of the flag types: only declared flags are ever set (from_u32 refuses anything else, the
    # setters set declared flags only). The bit numbers are read from `mod state_flags` in the source.
    src = open('/repo/lightning/src/ln/channel.rs').read()
    bit = lambda nm: int(re.search(r'pub const %s: u32 = 1 << (\d+);' % nm, src).group(1))
    allowed = [bit(nm) for nm in ('PEER_DISCONNECTED', 'MONITOR_UPDATE_IN_PROGRESS', 'REMOTE_SHUTDOWN_SENT', 'LOCAL_SHUTDOWN_SENT',
                                  'THEIR_CHANNEL_READY', 'OUR_CHANNEL_READY', 'WAITING_FOR_BATCH')]
    fl0 = E.en_payload(st0, 'AwaitingChannelReady', ACR, 0, 'ln::channel::AwaitingChannelReadyFlags', mem, 'spec')
    bits0 = X.zint(E.read_path(fl0, (('f', 0, 'u32'),), mem, True, 'spec').t)
    fb = [z3.Bool('state.flag_bit%d' % k) for k in allowed]
    pre = [z3.Or(X.zint(st0.d) == ACR, X.zint(st0.d) == CR),
           bits0 == sum([z3.If(b, 1 << k, 0) for b, k in zip(fb, allowed)], z3.IntVal(0))]
    others = [X.Opaque('arg%d' % i) for i in range(2, len(f.params))]
    n_first[0] = 0            # one call per engine: every point comparison is "the repeated message's point"
    THEIR = fb[allowed.index(bit('THEIR_CHANNEL_READY'))]
    nd0, nb0 = point_byte(ctx0, 'counterparty_next_commitment_point')
    cd0, cb0 = point_byte(ctx0, 'counterparty_current_commitment_point')
    rv1 = S.call(E, f, [ch, msg] + others, mem)
    ret1 = S.ret_guard
    ctx1 = rd(mem[ch.cell], FC, 'context', 'ln::channel::ChannelContext<SP>')
    nd1, nb1 = point_byte(ctx1, 'counterparty_next_commitment_point')
    cd1, cb1 = point_byte(ctx1, 'counterparty_current_commitment_point')
    st1 = rd(ctx1, CC, 'channel_state', CS)
    fl1 = E.en_payload(st1, 'AwaitingChannelReady', ACR, 0, 'ln::channel::AwaitingChannelReadyFlags', mem, 'spec')
    bits1 = X.zint(E.read_path(fl1, (('f', 0, 'u32'),), mem, True, 'spec').t)
    tb = bit('THEIR_CHANNEL_READY')
    their_after = z3.Or(X.zint(st1.d) == CR, z3.And(X.zint(st1.d) == ACR, (bits1 / (1 << tb)) % 2 == 1))
    recorded = z3.Or(X.zint(st0.d) == CR, z3.And(X.zint(st0.d) == ACR, THEIR))
    ok1 = X.zint(rv1.d) == 0
    unchanged = z3.And(nd1 == nd0, z3.Implies(nd0 == 1, nb1 == nb0), cd1 == cd0, z3.Implies(cd0 == 1, cb1 == cb0))
    claim = z3.And(z3.Implies(z3.And(recorded, ret1), z3.And(unchanged, z3.Implies(ok1, same_point2))),
                   z3.Implies(z3.And(z3.Not(recorded), ret1, ok1), their_after))
    ix3 = [allowed.index(bit(nm)) for nm in ('THEIR_CHANNEL_READY', 'OUR_CHANNEL_READY', 'WAITING_FOR_BATCH')]
    cases = []
    for var in (ACR, CR):
        for combo in range(8):
            cases.append(z3.And(X.zint(st0.d) == var, *[(fb[ix3[j]] if (combo >> j) & 1 else z3.Not(fb[ix3[j]])) for j in range(3)]))
    from engine_m.session import Binding
    bat = Binding('channel_ready_battery', [z3.IntVal(0)], [z3.If(claim, 0, 1)], parse=lambda t: [0 if t[0] == '0' else 1], line_fn=lambda v: '0',
                  which='oracle_tu', via_solver=True, domain=[(0, 0)], panic=False)
    S.prove(ids[0], E, pre, claim,
            "an accepted channel_ready is RECORDED (THEIR_CHANNEL_READY set, or the channel becomes ready), and once it is recorded - in whatever state that leaves the channel: still waiting for the rest of a funding batch, our own channel_ready sent or not, channel ready - a further channel_ready changes neither of the peer's announced commitment points and is accepted only if it names the expected point. By induction over the messages: the point the first revoke_and_ack is checked against (C05.c) cannot be replaced by re-sending channel_ready",
            [bat], split=cases, bounds='one call of channel_ready (whole function up to get_announcement_sigs) from an arbitrary AwaitingChannelReady / ChannelReady state: the inductive step of "recorded stays recorded and then nothing moves"; the real flag arithmetic of the macro-generated state-flag types; points observed through their first byte (free symbols), point comparison a free boolean',
            assumptions=['only declared flags are set in the AwaitingChannelReady state (representation invariant of the macro-generated flag types; bit numbers read from mod state_flags)', 'claims are about executions that do not panic (debug assertion: OUR_CHANNEL_READY and WAITING_FOR_BATCH are never set together)'])
    S.witness(ids[2], E, pre + [ret1, ok1, z3.Not(recorded)], z3.And(X.zint(st0.d) == ACR, nd1 == 1))
