"""C04 — inbound payments claimable only if complete and authentic: payment-secret metadata
packing / unpacking and the amount / expiry / min-final-CLTV acceptance inequalities."""
import re
import z3
from engine_m import exec as X
from engine_m.session import Binding, Inconclusive
from .common import *

MAX_VALUE_MSAT = 21_000_000 * 100_000_000 * 1000

EVIDENCE = dict(assumptions=[
    'kernel only: inbound_payment::{construct_info_bytes, verify (metadata-free path), calculate_absolute_expiry, min_final_cltv_expiry_delta_from_info, Method::from_bits}',
    'cryptography is abstracted: decrypt_info returns the info bytes that were packed (ChaCha20 involution), the HMAC comparison and the LDK preimage derivation are arbitrary booleans; unforgeability of payment secrets is NOT claimed',
    'C04.f: claim_payment_internal from its entry to the start of the claim path (region cut); begin_claiming_payment, locks and maps stubbed; <= 2 parts',
    'MPP accumulation and ordering, what happens after the claim path starts (per-part claims, monitor updates), crediting of balances and payment metadata are outside the claim'])


def run(S):
    D = S.decls()
    mpp_timeout(S, D)
    all_or_nothing_claim(S, D)
    # C04.g: the acceptance side of "a payment becomes claimable exactly when complete": handle_claimable_htlc (the
    # obligation family C08.h, re-labelled) - PaymentClaimable iff the parts complete the payment, the purposes agree and NO
    # earlier claim of the same hash is still in flight (a hash being claimed must not become claimable again)
    from .C08 import claim_deadline
    S.alias = {'C08.h': 'C04.g'}
    claim_deadline(S, D)
    S.alias = {}
    E = S.engine()
    mem = {}
    f_info = S.fn('construct_info_bytes', nargs=5)
    f_ver = S.fn('verify', contains='FinalOnionHopData')
    MV = lambda n: D.variant_index('Method', n, hint='inbound_payment')
    minv = E.sym('min', 'Option<u64>', mem)
    method = E.sym('method', f_info.params[1][1], mem)
    delta, time = E.sym('delta', 'u32'), E.sym('time', 'u64')
    cltv = E.sym('cltv', 'Option<u16>', mem)
    info = S.call(E, f_info, [minv, method, delta, time, cltv], mem)
    info_ok = X.zint(info.d) == 0
    info_bytes = info.vs[0][0]
    info_panics = list(E.panics)
    md = X.zint(method.d)
    min_some, min_v = X.zint(minv.d) == 1, minv.vs[1][0].t
    cltv_some, cltv_v = X.zint(cltv.d) == 1, cltv.vs[1][0].t
    custom = z3.Or(md == MV('LdkPaymentHashCustomFinalCltv'), md == MV('UserPaymentHashCustomFinalCltv'))
    expiry = time.t + delta.t + 7200
    pre_time = [time.t < (1 << 40)]          # unix timestamps (block header times are u32)
    caller = [custom == cltv_some]            # how create / create_from_hash pick the method
    b_info = Binding('construct_info_bytes', [z3.If(min_some, 1, 0), z3.If(min_some, min_v, 0), md, delta.t, time.t, z3.If(cltv_some, 1, 0), z3.If(cltv_some, cltv_v, 0)],
                     [info.d] + [z3.If(info_ok, bt.t, 0) for bt in info_bytes.fs],
                     panic=z3.Or(*[X.zbool(p[0]) for p in info_panics]) if info_panics else False)
    # plain-symbol arguments for the oracle
    S.prove('C04.b.refuses_unrepresentable', E, pre_time, info_ok == z3.And(z3.Implies(min_some, z3.And(min_v <= MAX_VALUE_MSAT, min_v < (1 << 61))),
                                                                       z3.Implies(cltv_some, expiry < (1 << 48))),
            'payment-secret metadata is produced iff the minimum amount fits 61 bits and the money supply and (with a custom final CLTV) the expiry fits 48 bits; nothing is silently truncated',
            bounds='all u64 amounts, u32 deltas, times < 2^40, u16 CLTV deltas, 5 methods')
    S.no_panic('C04.b.nopanic', E, pre_time, 'metadata construction is total for unix-era timestamps', only=lambda p: p in info_panics)

    # ---- verify on the packed bytes, crypto abstracted -----------------------------------------
    hmac_ok, ldk_ok = z3.Bool('hmac_ok'), z3.Bool('ldk_ok')
    iv = X.Tup([E.sym('iv%d' % i, 'u8') for i in range(16)])
    E.models.insert(0, (re.compile(r'^(?:inbound_payment::)?decrypt_info$'), lambda *a: X.Tup([iv, info_bytes])))
    E.models.insert(0, (re.compile(r'^(?:inbound_payment::)?derive_ldk_payment_preimage$'),
                        lambda *a: X.En('Result', z3.If(ldk_ok, 0, 1), {0: [X.Opaque('preimage')], 1: [X.Opaque('bad preimage')]})))
    E.models.insert(0, (re.compile(r'fixed_time_eq$'), lambda *a: X.B(hmac_ok)))
    E.models.insert(0, (re.compile(r'HmacEngine::<.*>::new$|as HashEngine>::input$|Hmac::<.*>::from_engine$|as (?:bitcoin::hashes::)?Hash>::from_engine$|::to_byte_array$'),
                        lambda E_, m, func, argv, *r: X.Tup([X.Opaque('hmac byte')] * 32) if func.endswith('to_byte_array') else (X.UNIT if func.endswith('input') else X.Opaque('hmac'))))
    data = E.sym('data', f_ver.params[1][1], mem)
    seen = E.sym('seen', 'u64')
    none_meta = X.En('Option', 0, {})
    npan = len(E.panics)
    rv = S.call(E, f_ver, [X.Opaque('payment_hash'), data, none_meta, seen, X.Opaque('keys'), X.Opaque('logger')], mem)
    ver_panics = E.panics[npan:]
    total = field(E, D, 'FinalOnionHopData', 'total_msat', mem[data.cell], 'u64').t
    ok = X.zint(rv.d) == 0
    out_cltv = rv.vs[0][0].fs[1]
    is_ldk = z3.Or(md == MV('LdkPaymentHash'), md == MV('LdkPaymentHashCustomFinalCltv'))
    auth = z3.If(is_ldk, ldk_ok, hmac_ok)
    pre = pre_time + caller + [info_ok]
    spec_ok = z3.And(auth, total >= z3.If(min_some, min_v, 0), expiry >= seen.t)
    cases = [z3.And(md == k, min_some == ms) for k in range(5) for ms in (True, False)]
    b_rt = Binding('inbound_roundtrip', [z3.If(min_some, 1, 0), z3.If(min_some, min_v, 0), delta.t, time.t, z3.If(cltv_some, 1, 0), z3.If(cltv_some, cltv_v, 0), total, seen.t],
                   [z3.IntVal(0), z3.If(ok, 1, 0), z3.If(z3.And(ok, X.zint(out_cltv.d) == 1), 1, 0), z3.If(z3.And(ok, X.zint(out_cltv.d) == 1), out_cltv.vs[1][0].t, 0)])
    user = z3.Or(md == MV('UserPaymentHash'), md == MV('UserPaymentHashCustomFinalCltv'))
    names = ['LdkPaymentHash', 'UserPaymentHash', 'LdkPaymentHashCustomFinalCltv', 'UserPaymentHashCustomFinalCltv', 'SpontaneousPayment']
    for k, nm in enumerate(names):
        S.prove('C04.a.thresholds.%s' % nm, E, pre + [md == MV(nm)], ok == spec_ok,
                'method %s: a payment secret issued for (min amount, expiry) verifies iff the authentication check passes, total_msat >= the committed minimum and the committed expiry (time + delta + 7200 s) has not passed; the method bits, the 61-bit amount, the 2-byte CLTV delta and the 6/8-byte expiry never overlap' % nm,
                [b_info], bounds='all u64 amounts/totals, u32 deltas, times < 2^40', split=[min_some, z3.Not(min_some)])
    S.prove('C04.a.thresholds_native', E, pre + [user, hmac_ok], ok == z3.And(total >= z3.If(min_some, min_v, 0), expiry >= seen.t),
            'same boundary, replayable end to end through the real create_from_hash + verify (real HMAC/ChaCha20) for user-hash payments',
            [b_rt, b_info], split=cases)
    S.prove('C04.a.cltv_roundtrip', E, pre, z3.Implies(ok, z3.And((X.zint(out_cltv.d) == 1) == cltv_some, z3.Implies(cltv_some, out_cltv.vs[1][0].t == cltv_v))),
            'the min_final_cltv_expiry_delta committed at creation is returned unchanged by verify (and none is returned when none was committed)', [b_rt, b_info], split=cases)
    S.prove('C04.a.unauthentic_refused', E, pre + [z3.Not(auth)], z3.Not(ok),
            'a secret failing the HMAC / preimage check is refused whatever amounts it carries')
    S.no_panic('C04.a.nopanic', E, pre, 'verify is panic-free on every packed metadata block', [b_rt], only=lambda p: p in ver_panics)
    S.witness('C04.a.witness', E, pre + [cltv_some, min_some, min_v > 1 << 40], ok)

    # ---- total decoding: arbitrary decrypted bytes never panic ------------------------------------
    E2 = S.engine()
    mem2 = {}
    ivb = X.Tup([E2.sym('iv%d' % i, 'u8') for i in range(16)])
    raw = X.Tup([E2.sym('raw%d' % i, 'u8') for i in range(16)])
    h2, l2 = z3.Bool('hmac_ok'), z3.Bool('ldk_ok')
    E2.models.insert(0, (re.compile(r'^(?:inbound_payment::)?decrypt_info$'), lambda *a: X.Tup([ivb, raw])))
    E2.models.insert(0, (re.compile(r'^(?:inbound_payment::)?derive_ldk_payment_preimage$'),
                         lambda *a: X.En('Result', z3.If(l2, 0, 1), {0: [X.Opaque('preimage')], 1: [X.Opaque('bad preimage')]})))
    E2.models.insert(0, (re.compile(r'fixed_time_eq$'), lambda *a: X.B(h2)))
    E2.models.insert(0, (re.compile(r'HmacEngine::<.*>::new$|as HashEngine>::input$|Hmac::<.*>::from_engine$|as (?:bitcoin::hashes::)?Hash>::from_engine$|::to_byte_array$'),
                         lambda E_, m, func, argv, *r: X.Tup([X.Opaque('hmac byte')] * 32) if func.endswith('to_byte_array') else (X.UNIT if func.endswith('input') else X.Opaque('hmac'))))
    data2 = E2.sym('data', f_ver.params[1][1], mem2)
    seen2 = E2.sym('seen', 'u64')
    rv2 = S.call(E2, f_ver, [X.Opaque('payment_hash'), data2, X.En('Option', 0, {}), seen2, X.Opaque('keys'), X.Opaque('logger')], mem2)
    method_bits = raw.fs[0].t / 32
    S.prove('C04.c.unknown_method_refused', E2, [method_bits > 4], X.zint(rv2.d) == 1,
            'metadata whose three method bits name no known method is refused', bounds='all 2^128 decrypted metadata blocks')
    S.no_panic('C04.c.total', E2, [], 'verify never panics, whatever 16 bytes the decryption yields')


def mpp_timeout(S, D):
    """C04.e: the periodic MPP time-out never fires on a payment whose parts already add up to the
    sender's intended total (the completeness condition used when the payment was shown claimable)"""
    N = 2 if S.tier == 'quick' else 3
    E = S.engine(unwind=N + 1)
    E.slice_cap = N
    mem = {}
    f = S.fn('check_mpp_timeout')
    parts = E.sym_slice('parts', 'MppPart', N, mem)
    fields = E.sym('fields', f.params[1][1], mem)
    it = X.It('slice', inner=parts, extra=0)
    rv = S.call(E, f, [it, fields], mem)
    seq0 = None
    total = field(E, D, 'RecipientOnionFields', 'total_mpp_amount_msat', mem[fields.cell], 'u64').t
    n = z3.Int('parts.len')
    MP = D.struct_fields('MppPart')

    def pf(i, nm, ty):
        return E.sym('parts[%d].%d' % (i, MP.index(nm)), ty).t
    val = [pf(i, 'value', 'u64') for i in range(N)]
    intended = [pf(i, 'sender_intended_value', 'u64') for i in range(N)]
    ticks = [pf(i, 'timer_ticks', 'u8') for i in range(N)]
    pres = [n > i for i in range(N)]
    sum_intended = sum([z3.If(pres[i], intended[i], 0) for i in range(N)])
    MPP_TIMEOUT_TICKS = 3
    any_old = z3.Or(*[z3.And(pres[i], ticks[i] + 1 >= MPP_TIMEOUT_TICKS) for i in range(N)])
    pre = [x <= 21_000_000 * 100_000_000 * 1000 for x in intended + val] + [t < 200 for t in ticks]
    after = mem[parts.cell]
    ticks_after = [E.read_path(after.elems[i], (('f', MP.index('timer_ticks'), 'u8'),), mem, True, 'spec').t for i in range(N)]
    flat = []
    for i in range(N):
        flat += [val[i], intended[i], ticks[i]]

    def line(vals):
        k = vals[0]
        return ' '.join(str(v) for v in [k] + vals[1:1 + 3 * k] + [vals[-1]])

    def parse(t):
        out = [int(t[0])] + [int(x) for x in t[1:]]
        return out + [None] * (1 + N - len(out))
    b = Binding('check_mpp_timeout', [n] + flat + [total], [z3.If(X.zbool(rv.t), 1, 0)] + ticks_after, parse=parse, line_fn=line,
                panic=z3.Or(*[X.zbool(p[0]) for p in E.panics]) if E.panics else False)
    S.prove('C04.e.complete_never_times_out', E, pre, z3.Implies(sum_intended >= total, z3.Not(X.zbool(rv.t))),
            'a payment whose parts add up to the sender-intended total is never failed by the MPP timer (same completeness condition as the receive path: sum of sender_intended_value, which includes skimmed fees)',
            [b], bounds='<= %d parts, all amounts <= MAX_VALUE_MSAT, tick counters < 200' % N)
    S.prove('C04.e.timeout_iff', E, pre, X.zbool(rv.t) == z3.And(sum_intended < total, any_old),
            'an incomplete payment times out exactly when one of its parts has waited MPP_TIMEOUT_TICKS ticks', [b])
    S.prove('C04.e.ticks_advance', E, pre, z3.And(*[z3.Implies(pres[i], ticks_after[i] == ticks[i] + 1) for i in range(N)]),
            'every held part ages by exactly one tick per timer call', [b])
    S.no_panic('C04.e.nopanic', E, pre, 'no overflow', [b])
    S.witness('C04.e.witness', E, pre + [n == N], rv.t)


def all_or_nothing_claim(S, D):
    """C04.f: ChannelManager::claim_payment_internal - "if any part can no longer be claimed, none is". The function is
    executed from its entry up to the point where it starts releasing the preimage (region cut at the block that
    builds the MPP claim sources); the parts handed over by begin_claiming_payment are an arbitrary list of <= 2
    parts. Stubs: begin_claiming_payment, the peer-state lock, the pending-claims map, the persistence guard."""
    import re
    ids = ['C04.f.claims_iff_complete', 'C04.f.refusal_cleans_up', 'C04.f.nopanic', 'C04.f.witness', 'C04.f.validate']
    if all(S._skip(o) for o in ids):
        return
    NP = 2
    f = S.fn('claim_payment_internal')
    E = S.engine(unwind=NP + 2)
    E.slice_cap = NP
    mem = {}
    args = [E.sym('a%d' % n, t, mem) if t.startswith('&') or t == 'bool' else X.Opaque('arg%d' % n) for n, t in f.params]
    srcs = E.sym('sources', 'std::vec::Vec<ln::channelmanager::ClaimableHTLC>', mem)
    begin_ok = z3.Bool('env.begin_ok')
    removed = []
    for rx, h in [
        (r'PaymentPreimage as Into<.*PaymentHash>>::into$', lambda *a: X.Adt('PaymentHash', {}, base='the_hash')),
        (r'PersistenceNotifierGuard::<.*>::notify_on_drop', lambda *a: X.Opaque('guard')),
        (r'ClaimablePayments::begin_claiming_payment::<', lambda *a: X.En('Result', z3.If(begin_ok, 0, 1), {
            0: [X.Tup([srcs, X.Adt('ClaimingPayment', {}, base='claiming')])], 1: [X.Seq([], 0, 'ClaimableHTLC')]})),
        (r'FairRwLock::<.*>::read$', lambda *a: X.En('Result', 0, {0: [X.Opaque('peers')]})),
        (r'Vec::<\(.*MsgHandleErrInternal\)>::new$', lambda *a: X.Seq([], 0, 'err')),
        (r'HashMap::<.*ClaimingPayment.*>::remove::<', lambda E_, m, func, argv, guard, mem_, dty, caller: (removed.append(X.zbool(guard)), X.En('Option', 0, {}))[1]),
    ]:
        E.models.insert(0, (re.compile(rx), h))
    run = X.FnRun(E, f, args, True, mem)
    stops = {b for b, (body, term) in f.blocks.items() if term[0] == 'call' and re.search(r'filter_map::<(?:\w+::)*MPPClaimHTLCSource', str(term[2]))}
    if len(stops) != 1:
        raise X.Unsupported('start of the claim path not found in claim_payment_internal (%d candidates)' % len(stops))
    E.depth += 1
    rv, ret, m2 = run.run(stop_bbs=stops)
    E.depth -= 1
    st = run.stop_states.get(list(stops)[0], [])
    proceeds = z3.Or(*[X.zbool(g) for g, _ in st]) if st else z3.BoolVal(False)
    returns = X.zbool(ret) if ret is not False else z3.BoolVal(False)
    CH, MP = D.struct_fields('ClaimableHTLC'), D.struct_fields('MppPart')
    n = srcs.n

    def part(i, nm, ty):
        mp = E.read_path(srcs.elems[i], (('f', CH.index('mpp_part'), 'ln::channelmanager::MppPart'),), mem, True, 'spec')
        return E.read_path(mp, (('f', MP.index(nm), ty),), mem, True, 'spec')
    val = [part(i, 'value', 'u64').t for i in range(NP)]
    rec = [part(i, 'total_value_received', 'Option<u64>') for i in range(NP)]
    rec_some = [X.zint(r.d) == 1 for r in rec]
    rec_v = [E.en_payload(r, 'Some', 1, 0, 'u64', mem, 'spec').t for r in rec]
    total = sum([z3.If(n > i, val[i], 0) for i in range(NP)])
    # invariants of a claimable payment: begin_claiming_payment hands over at least one part; every part carries the
    # total that was recorded when the payment became claimable (check_incoming_mpp_part writes the same Some(total) into all)
    pre = [z3.Implies(begin_ok, n >= 1)] + [z3.And(v >= 1, v <= 1 << 50) for v in val] + [z3.And(rec_some[i] == rec_some[0], rec_v[i] == rec_v[0]) for i in range(1, NP)]
    # begin_claiming_payment records the sum of the parts it hands over as ClaimingPayment::amount_msat
    CPF = D.struct_fields('ClaimingPayment')
    pre.append(E.read_path(X.Adt('ClaimingPayment', {}, base='claiming'), (('f', CPF.index('amount_msat'), 'u64'),), mem, True, 'spec').t == total)
    for p_ in pre:
        E.assume(p_)            # state invariants: part of the encoding (also used by translator validation)
    pre = []
    complete = z3.And(begin_ok, rec_some[0], total == rec_v[0])
    panic = z3.Or(*[X.zbool(p[0]) for p in E.panics]) if E.panics else False
    cleanup = z3.Or(*removed) if removed else z3.BoolVal(False)
    # live scenario: two 2.5M / 7.5M msat parts recorded with total 10M; either both still held or only the second
    shape_full = z3.And(n == 2, rec_some[0], total == rec_v[0])
    shape_lost = z3.And(n == 1, rec_some[0], total < rec_v[0])

    def line_fn(v):
        return '1' if v[1] else '0'
    b = Binding('mpp_partial_claim_probe', [z3.If(shape_full, 1, 0), z3.If(shape_lost, 1, 0), z3.If(begin_ok, 1, 0)], [None, z3.If(proceeds, n, 0)],
                line_fn=line_fn, which='oracle_tu', panic=panic, via_solver=True, domain=[(0, 1), (0, 1), (1, 1)])
    S.prove(ids[0], E, pre, proceeds == complete,
            'the preimage is released (claim path entered) iff the parts still held add up to exactly the total recorded when the payment became claimable: if a part was failed back in the meantime (its expiry came too close), nothing is claimed',
            [b], bounds='<= %d parts, part values 1 .. 2^50 msat, recorded totals any u64; begin_claiming_payment and the maps stubbed; execution cut where the claim path starts' % NP)
    S.prove(ids[1], E, pre + [begin_ok], z3.Implies(z3.Not(complete), z3.And(returns, cleanup)),
            'a refused claim returns after removing the payment from the pending-claims map (no half-claimed state is left behind)', [b])
    S.no_panic(ids[2], E, pre, 'no overflow in the sum of the parts; the internal consistency debug_assert holds under the stated invariant', [b])
    S.witness(ids[3], E, pre + [shape_lost], returns)
    S.validate(ids[4], E, b, n=2, extra_vectors=[(1, 0, 1), (0, 1, 1)])
