"""C15 — the encrypted transport: the nonce / key-rotation kernel of PeerChannelEncryptor (narrow).

One message crosses the transport from an ARBITRARY coupled state (any number of earlier messages and key rotations):
`encrypt_message_with_header_0s` on the sender, then `decrypt_length_header` and `decrypt_message` on the receiver,
all three from their MIR.  The cryptography is abstracted the way an AEAD is specified: keys are abstract identities,
`hkdf_extract_expand_twice` is a pair of uninterpreted functions of (chaining key, key), an encryption records the (nonce,
key) it used, a decryption succeeds iff it is asked for the same (nonce, key) and the bytes were not altered in flight.
"""
import re
import z3
from engine_m import exec as X
from engine_m.session import Binding
from .common import *

EVIDENCE = dict(assumptions=[
    'kernel only (narrow): PeerChannelEncryptor::{encrypt_message_with_header_0s, decrypt_length_header, decrypt_message}; one message from an arbitrary coupled post-handshake state (sender key/nonce/chaining key equal to the receiver\'s, nonce even and <= 1000) - an inductive step over any number of messages and key rotations',
    'ChaCha20-Poly1305 and HKDF are stubs: keys are abstract identities, hkdf_extract_expand_twice = two uninterpreted functions, decryption succeeds iff the same (nonce, key) is used as for the encryption and the ciphertext was not altered; message bytes are not modelled (only lengths)',
    'the handshake (acts one to three), PeerManager framing / fragmentation / back-pressure, the Init exchange and panics on arbitrary bytes are outside the claim'])


def _fn(S, name):
    return S.fn(name, first_param='PeerChannelEncryptor') if name != 'hkdf' else S.fn('hkdf_extract_expand_twice')


def run(S):
    D = S.decls()
    lockstep(S, D)
    read_loop_step(S, D)
    write_step(S, D)
    init_first(S, D)


def lockstep(S, D):
    ids = ['C15.a.lockstep', 'C15.a.length_delivered', 'C15.a.fresh_nonces', 'C15.a.rotation_at_1000', 'C15.a.tampered_header_rejected', 'C15.a.tampered_body_rejected',
           'C15.a.nopanic', 'C15.a.witness', 'C15.a.witness_rotation', 'C15.a.validate', 'C15.a.validate_tamper']
    if all(S._skip(o) for o in ids):
        return
    E = S.engine(unwind=2)
    mem = {}
    f_enc = S.fn('encrypt_message_with_header_0s')
    f_hdr = S.fn('decrypt_length_header')
    f_msg = S.fn('decrypt_message', first_param='PeerChannelEncryptor')
    FIN = D.variant_index('NoiseState', 'Finished')
    key = lambda n: X.I(z3.Int(n), 'u64')          # a key is an abstract identity; it is only moved and handed to the stubs
    H1 = z3.Function('hkdf.chaining_key', z3.IntSort(), z3.IntSort(), z3.IntSort())
    H2 = z3.Function('hkdf.key', z3.IntSort(), z3.IntSort(), z3.IntSort())
    sk, sck, rk, rck = key('snd.sk'), key('snd.sck'), key('rcv.rk'), key('rcv.rck')
    sn, rn = E.sym('snd.sn', 'u64'), E.sym('rcv.rn', 'u64')
    # fields of NoiseState::Finished in declaration order: sk, sn, sck, rk, rn, rck
    other = lambda n: key(n)

    def peer(tag, ks, n_s, cks, kr, n_r, ckr):
        st = X.En('NoiseState', FIN, {FIN: [ks, n_s, cks, kr, n_r, ckr]})
        PE = D.struct_fields('PeerChannelEncryptor')
        c = E.new_cell()
        mem[c] = X.Adt('PeerChannelEncryptor', {PE.index('noise_state'): st, PE.index('their_node_id'): X.Opaque('node id')})
        return c
    # the sender's receive half and the receiver's send half belong to the other direction: arbitrary
    snd = peer('snd', sk, sn, sck, other('snd.rk'), E.sym('snd.rn', 'u64'), other('snd.rck'))
    rcv = peer('rcv', other('rcv.sk'), E.sym('rcv.sn', 'u64'), other('rcv.sck'), rk, rn, rck)
    PE = D.struct_fields('PeerChannelEncryptor')
    msg_len = E.sym('msg_len', 'usize')
    tamper_hdr, tamper_body = z3.Bool('wire.header_altered'), z3.Bool('wire.body_altered')
    encs, decs = [], []

    def ident(v, mem_):
        while isinstance(v, X.Ref):
            v = E.read_path(mem_[v.cell], v.path, mem_, True, 'key')
        if not isinstance(v, X.I):
            raise X.Unsupported('key argument is %r' % (v,))
        return v.t

    def h_hkdf(E_, m, func, argv, guard, mem_, dty, caller):
        ck, k = ident(argv[0], mem_), ident(argv[1], mem_)
        return X.Tup([X.I(H1(ck, k), 'u64'), X.I(H2(ck, k), 'u64')])

    def h_enc(E_, m, func, argv, guard, mem_, dty, caller):
        # encrypt_with_ad(res, n, key, h, plaintext) / encrypt_in_place_with_ad(buf, prefix, n, key, h)
        in_place = 'in_place' in func
        n_, k_ = (argv[2], argv[3]) if in_place else (argv[1], argv[2])
        encs.append((X.zbool(guard), 'body' if in_place else 'header', n_.t, ident(k_, mem_)))
        return X.UNIT

    def h_dec(E_, m, func, argv, guard, mem_, dty, caller):
        in_place = 'in_place' in func
        n_, k_ = argv[1].t, ident(argv[2], mem_)
        what = 'body' if in_place else 'header'
        sent = [e for e in encs if e[1] == what]
        auth = z3.And(z3.Or(*[z3.And(g, n_ == n0, k_ == k0) for g, w, n0, k0 in sent]) if sent else z3.BoolVal(False),
                      z3.Not(tamper_body if in_place else tamper_hdr))
        decs.append((X.zbool(guard), what, n_, k_, auth))
        if not in_place:
            # the two plaintext bytes: the big-endian length the sender put there
            r = argv[0]
            b0, b1 = E.sym('wire.len_hi!%d' % next(E.nfresh), 'u8'), E.sym('wire.len_lo!%d' % next(E.nfresh), 'u8')
            E.assume(z3.Implies(auth, b0.t * 256 + b1.t == msg_len.t))
            mem_[r.cell] = E.write_path(mem_[r.cell], r.path, X.Tup([b0, b1]), mem_, guard, 'decrypt')
        return X.En('Result', z3.If(auth, 0, 1), {0: [X.UNIT], 1: [X.Opaque('LightningError')]})
    for rx, h in [
        (r'hkdf_extract_expand_twice$', h_hkdf),
        (r'::encrypt_with_ad$|::encrypt_in_place_with_ad$', h_enc),
        (r'::decrypt_with_ad$|::decrypt_in_place_with_ad$', h_dec),
        (r'Vec<u8> as (?:std::ops::)?IndexMut<(?:std::ops::)?Range<usize>>>::index_mut$', lambda *a: X.Opaque('header bytes')),
        (r'\[u8\] as (?:std::ops::)?IndexMut<(?:std::ops::)?RangeFull>>::index_mut$', lambda E_, m, func, argv, *a: argv[0]),
        (r'\[u8; 32\] as (?:std::ops::)?Index<(?:std::ops::)?RangeFull>>::index$', lambda E_, m, func, argv, *a: argv[0]),
    ]:
        E.models.insert(0, (re.compile(rx), h))
    # -- sender ------------------------------------------------------------------------------------
    buf = E.new_cell()
    mem[buf] = X.Seq([], msg_len.t + 18, 'u8')
    r_enc = S.call(E, f_enc, [X.Ref(snd), X.Ref(buf)], mem)
    enc_ok = X.zint(r_enc.d) == 0
    # -- receiver ----------------------------------------------------------------------------------
    hdr = E.new_cell()
    mem[hdr] = X.Seq([], 18, 'u8')
    r_hdr = S.call(E, f_hdr, [X.Ref(rcv), X.Ref(hdr)], mem)
    hdr_ok = X.zint(r_hdr.d) == 0
    got_len = E.en_payload(r_hdr, 'Ok', 0, 0, 'u16', mem, 'spec').t
    body = E.new_cell()
    mem[body] = X.Seq([], msg_len.t + 16, 'u8')
    r_msg = S.call(E, f_msg, [X.Ref(rcv), X.Ref(body)], mem)
    msg_ok = X.zint(r_msg.d) == 0

    def state(c, half):
        st = E.read_path(mem[c], (('f', PE.index('noise_state'), 'NoiseState'),), mem, True, 'spec')
        o = 0 if half == 's' else 3
        f = lambda i, ty: E.read_path(st, (('v', 'Finished'), ('f', o + i, ty)), mem, True, 'spec').t
        return f(0, '[u8; 32]'), f(1, 'u64'), f(2, '[u8; 32]'), X.zint(st.d) == FIN
    sk2, sn2, sck2, s_fin = state(snd, 's')
    rk2, rn2, rck2, r_fin = state(rcv, 'r')
    h = z3.Int('messages_before')
    coupled = [sk.t == rk.t, sck.t == rck.t, sn.t == rn.t, sn.t == 2 * h, h >= 0, h <= 500, msg_len.t >= 2, msg_len.t <= 65535]
    # the claim is about coupled states only: stated as an engine assumption so that the validation vectors (which pin
    # the binding arguments alone) evaluate the encoding in such a state too
    for c_ in coupled:
        E.assume(c_)
    coupled_after = z3.And(sk2 == rk2, sck2 == rck2, sn2 == rn2, sn2 % 2 == 0, sn2 >= 2, sn2 <= 1000, s_fin, r_fin)
    clean = [z3.Not(tamper_hdr), z3.Not(tamper_body)]
    if len(encs) != 2 or len(decs) != 2:
        raise X.Unsupported('expected one header and one body encryption / decryption (found %d / %d); %s' % (len(encs), len(decs), [w for g_, w in E.unsupported][:3]))
    (g1, w1, n1, k1), (g2, w2, n2, k2) = encs
    rotated = sn.t >= 1000
    panic = z3.Or(*[X.zbool(p[0]) for p in E.panics]) if E.panics else False
    delivered = z3.And(enc_ok, hdr_ok, msg_ok, got_len == msg_len.t, coupled_after)

    def parse_ok(toks):
        return [1 if toks[1] == '0' else 0]

    def line_ok(v):
        return '%d %d 0 0' % (v[0] + 502, v[1])
    b_ok = Binding('noise_probe', [h, msg_len.t, z3.If(z3.Or(tamper_hdr, tamper_body), 1, 0)], [z3.If(delivered, 1, 0)], parse=parse_ok, line_fn=line_ok, panic=panic,
                   via_solver=True, domain=[(0, 500), (2, 300), (0, 0)], interesting=[499, 500, 2, 65535])

    def parse_rej(toks):
        # rejected at the altered message, in the altered part: kind 1 (header) / 3 (body)
        return [1 if toks[1] in ('1', '3') else 0]

    def line_rej(v):
        return '%d %d %d %d' % (v[0] + 1, v[1], v[0] + 1, 0 if v[2] == 1 else 2)
    rejected = z3.If(tamper_hdr, z3.Not(hdr_ok), z3.Not(msg_ok))
    b_rej = Binding('noise_probe', [h, msg_len.t, z3.If(tamper_hdr, 1, z3.If(tamper_body, 2, 0))], [z3.If(rejected, 1, 0)], parse=parse_rej, line_fn=line_rej, panic=panic,
                    via_solver=True, domain=[(0, 500), (2, 300), (1, 2)], interesting=[499, 500, 2, 65535])
    S.prove(ids[0], E, coupled + clean, delivered,
            'a message encrypted by one side is accepted by the other - length header and body - with the length that was sent, and leaves both sides in step again (same key, same chaining key, same even nonce <= 1000): by induction every later message is delivered too, across any number of key rotations',
            [b_ok], bounds='one message from an arbitrary coupled state; message lengths 2..65535; the native replay runs the messages before it plus 501 after it (through the next rotation)')
    S.prove(ids[2], E, coupled, z3.And(g1, g2, z3.BoolVal(w1 == 'header'), z3.BoolVal(w2 == 'body'), n2 == n1 + 1,
                                       z3.If(rotated, z3.And(n1 == 0, k1 == H2(sck.t, sk.t), k2 == k1), z3.And(n1 == sn.t, k1 == sk.t, k2 == sk.t)), sn2 == n1 + 2),
            'the two encryptions of a message use consecutive nonces under the current key, starting at the stored nonce - or at 0 under the rotated key - and the stored nonce moves past both: no (key, nonce) pair is ever used twice', [])
    S.prove(ids[3], E, coupled, z3.And(z3.If(rotated, z3.And(sk2 == H2(sck.t, sk.t), sck2 == H1(sck.t, sk.t)), z3.And(sk2 == sk.t, sck2 == sck.t)),
                                       z3.Implies(z3.And(*clean), z3.If(rotated, z3.And(rk2 == H2(rck.t, rk.t), rck2 == H1(rck.t, rk.t)), z3.And(rk2 == rk.t, rck2 == rck.t)))),
            'keys are rotated exactly when the nonce has reached 1000 (BOLT 8), on both sides alike, to HKDF(chaining key, key)', [])
    S.prove(ids[4], E, coupled + [tamper_hdr], z3.Not(hdr_ok),
            'an altered length header is rejected (the error that disconnects the peer), whatever the state', [b_rej])
    S.prove(ids[5], E, coupled + [z3.Not(tamper_hdr), tamper_body], z3.And(hdr_ok, z3.Not(msg_ok)),
            'an altered message body is rejected', [b_rej])
    S.no_panic(ids[6], E, coupled, 'no overflow, no panic for a post-handshake state and an 18-byte header', [b_ok])
    S.witness(ids[7], E, coupled + clean + [h == 3], delivered)
    S.witness(ids[8], E, coupled + clean + [h == 500], z3.And(delivered, sn2 == 2))
    S.validate(ids[9], E, b_ok, n=6 if S.tier == 'quick' else 40, extra_vectors=[(0, 2, 0), (499, 10, 0), (500, 10, 0), (250, 65535, 0)])
    S.validate(ids[10], E, b_rej, n=6 if S.tier == 'quick' else 40, extra_vectors=[(0, 2, 1), (500, 10, 1), (500, 10, 2), (499, 70, 2)])


FRAGS = (0, 1, 2, 17, 18, 19, 33, 50, 66, 1000)
FRAMING_LINE = '%d %s 5 2 300 0 20000 65533' % (len(FRAGS), ' '.join(str(x) for x in FRAGS))


def read_loop_step(S, D):
    """C15.c: one iteration of the `while read_pos < data.len()` loop of PeerManager::do_read_event - the code that
    reassembles handshake acts, length headers and message bodies from reads of any size - from an arbitrary loop-head
    state.  The peer's read buffer is a length (its bytes are not modelled), the encryptor, the message decoder and
    the message handlers are stubs with free outcomes."""
    ids = ['C15.c.partial_read', 'C15.c.length_header', 'C15.c.message_body', 'C15.c.handshake_acts', 'C15.c.invariant', 'C15.c.nopanic', 'C15.c.witness', 'C15.c.validate']
    if all(S._skip(o) for o in ids):
        return
    f = S.fn('do_read_event')
    E = S.engine(unwind=1)
    mem = {}
    Dn = E.sym('data.len', 'usize')
    dc = E.new_cell()
    mem[dc] = X.Seq([], Dn.t, 'u8')
    args = [E.sym('a1', f.params[0][1], mem), E.sym('a2', f.params[1][1], mem), X.Ref(dc)]
    run = X.FnRun(E, f, args, True, mem)
    succ, rpo, back, encl = run.analyse_cfg()
    head = None
    for h in sorted({h for (u, h) in back}):
        body = [b for b in rpo if h in encl[b]]
        if any(f.blocks[b][1][0] == 'call' and 'copy_from_slice' in str(f.blocks[b][1][2]) for b in body):
            head = h
    if head is None:
        raise X.Unsupported('read loop not found in do_read_event')
    PF = D.struct_fields('Peer')
    L, pos, is_hdr = E.sym('buf.len', 'usize'), E.sym('buf.pos', 'usize'), z3.Bool('peer.read_is_header')
    peer_c = E.new_cell()
    mem[peer_c] = X.Adt('Peer', {PF.index('pending_read_buffer'): X.Seq([], L.t, 'u8'), PF.index('pending_read_buffer_pos'): pos,
                                 PF.index('pending_read_is_header'): X.B(is_hdr)}, base='peer')
    r = E.sym('read_pos', 'usize')
    rloc = next((int(pl[1:]) for nm, pl in f.debug_all if nm == 'read_pos' and re.match(r'_\d+$', pl)), None)
    if rloc is None:
        raise X.Unsupported('do_read_event: no local read_pos')
    step = E.sym('noise_step', 'ln::peer_channel_encryptor::NextNoiseStep', mem)
    NSV = lambda n: D.variant_index('NextNoiseStep', n)
    calls, handled, wire_reads = [], [], []
    msg_len = E.sym('wire.msg_len', 'u16')
    LE = D.struct_fields('LightningError')
    DISC = D.variant_index('ErrorAction', 'DisconnectPeer')

    def buflen(v, mem_):
        while isinstance(v, X.Ref):
            v = E.read_path(mem_[v.cell], v.path, mem_, True, 'buf')
        return v.n if isinstance(v, X.Seq) else None

    def mk(tag, okval, bufarg=1):
        def h(E_, m, func, argv, guard, mem_, dty, caller):
            ok = z3.Bool('env.%s_ok' % tag)
            # what the encryptor really returns on failure: an error whose action is DisconnectPeer (C15.a.error_disconnects)
            err = X.Adt('LightningError', {LE.index('action'): X.En('ErrorAction', DISC, {DISC: [X.Opaque('msg')]})}, base='err_' + tag)
            calls.append((tag, X.zbool(guard), buflen(argv[bufarg], mem_), ok))
            return X.En('Result', z3.If(ok, 0, 1), {0: [okval], 1: [err]})
        return h

    def h_range(E_, m, func, argv, guard, mem_, dty, caller):
        n = buflen(argv[0], mem_)
        lo = E.read_path(argv[1], (('f', 0, 'usize'),), mem_, guard, 'range').t
        hi = E.read_path(argv[1], (('f', 1, 'usize'),), mem_, guard, 'range').t
        E.panic(z3.And(X.zbool(guard), z3.Or(lo > hi, hi > n)), 'range out of bounds', caller.fn.name)
        return X.Opaque('subslice')

    def h_range_to(E_, m, func, argv, guard, mem_, dty, caller):
        n = buflen(argv[0], mem_)
        hi = E.read_path(argv[1], (('f', 0, 'usize'),), mem_, guard, 'range').t
        E.panic(z3.And(X.zbool(guard), hi > n), 'range end out of bounds', caller.fn.name)
        c = E.new_cell()
        mem_[c] = X.Seq([], hi, 'u8')
        return X.Ref(c)

    def h_resize(E_, m, func, argv, guard, mem_, dty, caller):
        r_ = argv[0]
        mem_[r_.cell] = E.write_path(mem_[r_.cell], r_.path, X.Seq([], argv[1].t, 'u8'), mem_, guard, 'resize')
        return X.UNIT

    def h_to_vec(E_, m, func, argv, guard, mem_, dty, caller):
        v = argv[0]
        while isinstance(v, X.Ref):
            v = E.read_path(mem_[v.cell], v.path, mem_, guard, 'to_vec')
        if isinstance(v, X.Tup):
            return X.Seq([], len(v.fs), 'u8')
        if isinstance(v, X.Seq):
            return X.Seq([], v.n, 'u8')
        import os
        if os.environ.get('C15_DEBUG'): print('TO_VEC', repr(argv[0])[:200], repr(v)[:200])
        return X.Opaque('bytes')

    def h_set_id(E_, m, func, argv, guard, mem_, dty, caller):
        r_ = argv[0]
        path = r_.path + (('f', PF.index('their_node_id'), 'Option'),)
        mem_[r_.cell] = E.write_path(mem_[r_.cell], path, X.En('Option', 1, {1: [X.Tup([X.Opaque('their key'), X.Opaque('their id')])]}), mem_, guard, 'set id')
        return X.UNIT

    def h_handle(E_, m, func, argv, guard, mem_, dty, caller):
        handled.append(X.zbool(guard))
        return E.sym('env.handle_result!%d' % next(E.nfresh), dty, mem_)

    def h_wire_read(E_, m, func, argv, guard, mem_, dty, caller):
        wire_reads.append((X.zbool(guard), buflen(argv[0], mem_)))
        return E.sym('env.wire_read!%d' % next(E.nfresh), dty, mem_)
    fresh_bool = lambda nm: z3.Bool('env.%s!%d' % (nm, next(E.nfresh)))
    for rx, h in [
        (r'Mutex::<Peer>::lock$', lambda *a: X.En('Result', 0, {0: [X.Ref(peer_c)]})),
        (r'MutexGuard<.*Peer> as (?:std::ops::)?DerefMut>::deref_mut$', lambda *a: X.Ref(peer_c)),
        (r'MutexGuard<.*Peer> as (?:std::ops::)?Deref>::deref$', lambda *a: X.Ref(peer_c)),
        (r'PeerChannelEncryptor::get_noise_step$', lambda *a: step),
        (r'PeerChannelEncryptor::process_act_one_with_keys', mk('act1', X.Opaque('act two'))),
        (r'PeerChannelEncryptor::process_act_two', mk('act2', X.Tup([X.Opaque('act three'), X.Opaque('their id')]))),
        (r'PeerChannelEncryptor::process_act_three$', mk('act3', X.Opaque('their id'))),
        (r'PeerChannelEncryptor::decrypt_length_header$', mk('hdr', msg_len)),
        (r'PeerChannelEncryptor::decrypt_message$', mk('body', X.UNIT)),
        (r'slice::<impl \[u8\]>::to_vec$', h_to_vec),
        (r'Vec::<u8>::new$', lambda *a: X.Seq([], 0, 'u8')),
        (r'copy_from_slice$', lambda *a: X.UNIT),
        (r'as Clone>::clone_from$', lambda *a: X.UNIT),
        (r'Vec<u8> as (?:std::ops::)?IndexMut<(?:std::ops::)?Range<usize>>>::index_mut$|\[u8\] as (?:std::ops::)?Index<(?:std::ops::)?Range<usize>>>::index$', h_range),
        (r'Vec::<.*BroadcastGossipMessage>::drain::<', lambda *a: X.Opaque('drain')),
        (r'PeerManager::<.*>::get_ephemeral_key$', lambda *a: X.Opaque('ephemeral key')),
        (r'PeerManager::<.*>::enqueue_message$', lambda *a: X.En('Result', z3.If(fresh_bool('enqueue_ok'), 0, 1), {0: [X.UNIT], 1: [X.UNIT]})),
        (r'PeerManager::<.*>::handle_message$', h_handle),
        (r'PeerManager::<.*>::forward_broadcast_msg$', lambda *a: X.UNIT),
        (r'PeerManager::<.*>::init_features$|::get_chain_hashes$|filter_addresses$', lambda *a: X.Opaque('init data')),
        (r'Peer::set_their_node_id$', h_set_id),
        (r'wire::read::<', h_wire_read),
        (r'Vec<u8> as (?:std::ops::)?Index(?:Mut)?<(?:std::ops::)?RangeFull>>::index(?:_mut)?$', lambda E_, m, func, argv, *a: argv[0]),
        (r'Vec<u8> as (?:std::ops::)?Index<(?:std::ops::)?RangeTo<usize>>>::index$', h_range_to),
        (r'RwLockReadGuard<.*> as (?:std::ops::)?Deref>::deref$', lambda *a: X.Opaque('peers map')),
        (r'HashMap::<Descriptor, .*Mutex<Peer>.*>::get::<', lambda *a: X.En('Option', 1, {1: [X.Opaque('peer mutex')]})),   # the two peer maps are consistent (the debug assertion on it is not examined)
        (r'Mutex::<.*HashMap<.*PublicKey, Descriptor.*>>::lock$', lambda *a: X.En('Result', 0, {0: [X.Opaque('node id map')]})),
        (r'HashMap::<.*PublicKey, Descriptor.*>::entry$', lambda *a: X.En('Entry', z3.If(z3.Bool('env.second_connection'), 0, 1), {0: [X.Opaque('occupied')], 1: [X.Opaque('vacant')]})),
        (r'VacantEntry::<.*>::insert$|OccupiedEntry::<.*>::get$', lambda *a: X.Opaque('entry op')),
        (r'VecDeque::<.*Vec<u8>>::push_back$', lambda *a: X.UNIT),
        (r'Vec::<u8>::resize$', h_resize),
        (r'MutexGuard<.*HashMap<.*PublicKey, Descriptor.*>> as (?:std::ops::)?DerefMut>::deref_mut$', lambda *a: X.Opaque('node id map')),
        (r'Drain<.*BroadcastGossipMessage> as IntoIterator>::into_iter$', lambda *a: X.Opaque('drain iter')),
        (r'Drain<.*BroadcastGossipMessage> as Iterator>::next$', lambda *a: X.En('Option', 0, {})),
        (r'Vec::<.*BroadcastGossipMessage>::push$', lambda *a: X.UNIT),
        (r'^format$|^must_use::<', lambda *a: X.Opaque('string')),
        (r'Level as PartialEq>::eq$', lambda *a: X.B(fresh_bool('level_eq'))),
        (r'Vec::<u8>::capacity$', lambda *a: E.sym('buf.capacity!%d' % next(E.nfresh), 'usize')),
    ]:
        E.models.insert(0, (re.compile(rx), h))
    E.depth += 1
    rv, ret, m2 = run.run(start_bb=head, init={rloc: r})
    E.depth -= 1
    if not run.cut_states or rv is None:
        raise X.Unsupported('read loop: expected paths back to the loop head and returning paths (%d / %s); %s' % (len(run.cut_states), rv is not None, [w for g_, w in E.unsupported][:3]))
    import os
    if os.environ.get('C15_DEBUG'):
        for g_, m_ in run.cut_states:
            print('CUT', E.read_path(m_[peer_c], (('f', PF.index('pending_read_buffer'), 'std::vec::Vec<u8>'),), m_, True, 'dbg'))
    g_cut, m_cut = E.merge_mem(run.cut_states)
    cont = X.zbool(g_cut)
    returns = X.zbool(ret)
    ret_err = z3.And(returns, X.zint(rv.d) == 1)
    pv = m_cut[peer_c]
    rd = lambda nm, ty: E.read_path(pv, (('f', PF.index(nm), ty),), m_cut, True, 'spec')
    L2 = rd('pending_read_buffer', 'std::vec::Vec<u8>').n
    pos2 = rd('pending_read_buffer_pos', 'usize').t
    hdr2 = X.zbool(rd('pending_read_is_header', 'bool').t)
    r2 = m_cut[run.cells[rloc]].t
    n_copy = z3.If(L.t - pos.t <= Dn.t - r.t, L.t - pos.t, Dn.t - r.t)
    full = pos.t + n_copy == L.t
    sd = X.zint(step.d)
    complete = sd == NSV('NoiseComplete')
    called = {}
    for tag, g, bl, ok in calls:
        called.setdefault(tag, []).append((g, bl, ok))

    def once(tag, length):
        cs = called.get(tag, [])
        return z3.And(z3.PbEq([(g, 1) for g, bl, ok in cs], 1), *[z3.Implies(g, bl == length) for g, bl, ok in cs]) if cs else z3.BoolVal(False)

    def never(*tags):
        return z3.And(*[z3.Not(g) for t in tags for g, bl, ok in called.get(t, [])])
    okv = lambda tag: called[tag][0][2]
    n_wire = z3.Or(*[g for g, bl in wire_reads]) if wire_reads else z3.BoolVal(False)
    n_handled = z3.Or(*handled) if handled else z3.BoolVal(False)
    for t_ in ('act1', 'act2', 'act3', 'hdr', 'body'):
        if t_ not in called:
            raise X.Unsupported('read loop: no call of the %s step found' % t_)
    # loop-head invariant of the read state machine (established by new_*_connection, preserved: C15.c.invariant)
    inv = [L.t > 0, pos.t < L.t, z3.Or(is_hdr, L.t >= 18), r.t < Dn.t, Dn.t <= 1 << 32, L.t <= 1 << 17,
           z3.Or(*[sd == NSV(n_) for n_ in ('ActOne', 'ActTwo', 'ActThree', 'NoiseComplete')])]
    for c_ in inv:
        E.assume(c_)
    moved = z3.And(r2 == r.t + n_copy)
    ok_flag = z3.Bool('claims_hold')
    panic = z3.Or(*[X.zbool(p[0]) for p in E.panics]) if E.panics else False
    claims = {}
    claims['partial'] = z3.Implies(z3.Not(full), z3.And(cont, z3.Not(returns), moved, r2 == Dn.t, pos2 == pos.t + n_copy, L2 == L.t, hdr2 == is_hdr,
                                                        never('act1', 'act2', 'act3', 'hdr', 'body'), z3.Not(n_wire), z3.Not(n_handled)))
    claims['header'] = z3.Implies(z3.And(full, complete, is_hdr), z3.And(
        once('hdr', L.t), never('act1', 'act2', 'act3', 'body'), z3.Not(n_wire), z3.Not(n_handled),
        z3.If(z3.And(okv('hdr'), msg_len.t >= 2), z3.And(cont, z3.Not(returns), moved, L2 == msg_len.t + 16, pos2 == 0, z3.Not(hdr2)), z3.And(ret_err, z3.Not(cont)))))
    body_len = z3.And(*[z3.Implies(g, bl == L.t - 16) for g, bl in wire_reads]) if wire_reads else z3.BoolVal(True)
    claims['body'] = z3.Implies(z3.And(full, complete, z3.Not(is_hdr)), z3.And(
        once('body', L.t), never('act1', 'act2', 'act3', 'hdr'),
        z3.If(okv('body'), z3.And(n_wire, body_len, z3.Implies(cont, z3.And(moved, L2 == 18, pos2 == 0, hdr2))), z3.And(ret_err, z3.Not(cont), z3.Not(n_wire), z3.Not(n_handled)))))
    acts = []
    for nm, tag, nxt, sets_hdr in (('ActOne', 'act1', 66, False), ('ActTwo', 'act2', 18, True), ('ActThree', 'act3', 18, True)):
        others = [t for t in ('act1', 'act2', 'act3', 'hdr', 'body') if t != tag]
        acts.append(z3.Implies(z3.And(full, sd == NSV(nm)), z3.And(
            once(tag, L.t), never(*others), z3.Not(n_wire), z3.Not(n_handled),
            z3.Implies(z3.Not(okv(tag)), z3.And(ret_err, z3.Not(cont))),
            z3.Implies(cont, z3.And(okv(tag), moved, L2 == nxt, pos2 == 0, hdr2 if sets_hdr else hdr2 == is_hdr)))))
    claims['acts'] = z3.And(*acts)
    claims['inv'] = z3.Implies(cont, z3.And(L2 > 0, pos2 < L2, z3.Or(hdr2, L2 >= 18), r2 <= Dn.t, r2 > r.t))
    all_hold = z3.And(*claims.values())
    b = Binding('peer_framing_probe', [z3.IntVal(1)], [z3.If(all_hold, 1, 0)], parse=lambda t: [1 if t[0] == t[1] else 0], line_fn=lambda v: FRAMING_LINE,
                via_solver=True, domain=[(1, 1)], panic=False)
    bounds = 'one iteration of the read loop from an arbitrary loop-head state satisfying the invariant (any handshake / message phase, any buffer fill, any read size <= 2^32, buffers <= 2^17 bytes)'
    S.prove(ids[0], E, [], claims['partial'], 'a read that does not complete the unit being assembled (act, length header or body) is copied in full, advances both positions by the bytes copied, consumes the whole read and triggers nothing else', [b], bounds=bounds)
    S.prove(ids[1], E, [], claims['header'], 'a completed 18-byte length header is decrypted exactly once; if it does not authenticate, or announces fewer than 2 bytes, the connection is dropped; otherwise the buffer is sized for exactly that message plus its MAC and the body is awaited from position 0', [b])
    S.prove(ids[2], E, [], claims['body'], 'a completed body is decrypted exactly once; if it does not authenticate the connection is dropped and nothing is decoded or handled; otherwise exactly the message bytes (without the MAC) are decoded and the next length header is awaited', [b])
    S.prove(ids[3], E, [], claims['acts'], 'a completed handshake act is processed by the step the encryptor is in, exactly once; failure drops the connection; success awaits the next unit of the right size (act three: 66 bytes, then length headers: 18)', [b])
    S.prove(ids[4], E, [], claims['inv'], 'the read state machine\'s invariant (non-empty buffer, position inside it, bodies at least 18 bytes) is preserved and every iteration consumes input', [b])
    S.no_panic(ids[5], E, [], 'no slice index out of range, no overflow, none of the assertions on the buffer can fail', [])
    S.witness(ids[6], E, [full, complete, is_hdr, okv('hdr'), msg_len.t == 100], cont)
    S.validate(ids[7], E, b, n=1, extra_vectors=[(1,)])


def init_first(S, D):
    """C15.d: PeerManager::do_handle_message_holding_peer_lock (whole function; the part a non-Init message reaches
    before Init is two branches long) and handle_message: nothing but Init is accepted from a peer whose Init has not
    been received, a second Init is refused, and a refused message is not passed on."""
    ids = ['C15.d.init_first', 'C15.d.second_init', 'C15.d.refused_not_handled', 'C15.d.witness', 'C15.d.validate']
    if all(S._skip(o) for o in ids):
        return
    f = S.fn('do_handle_message_holding_peer_lock')
    E = S.engine(unwind=2)
    mem = {}
    PF = D.struct_fields('Peer')
    peer_c = E.new_cell()
    had_init = z3.Bool('peer.init_received')
    mem[peer_c] = X.Adt('Peer', {PF.index('their_features'): X.En('Option', z3.If(had_init, 1, 0), {1: [X.Opaque('their features')]})}, base='peer')
    msg = E.sym('msg', f.params[2][1], mem)
    args = [E.sym('self', f.params[0][1], mem), X.Ref(peer_c), msg, X.Opaque('their id'), E.sym('logger', f.params[4][1], mem)]
    MH = lambda n: D.variant_index('MessageHandlingError', n)

    def h_into(E_, m, func, argv, guard, mem_, dty, caller):
        k = MH(m.group(1))
        return X.En('MessageHandlingError', k, {k: [argv[0]]})
    for rx, h in [
        (r'MutexGuard<.*Peer> as (?:std::ops::)?DerefMut>::deref_mut$', lambda *a: X.Ref(peer_c)),
        (r'MutexGuard<.*Peer> as (?:std::ops::)?Deref>::deref$', lambda *a: X.Ref(peer_c)),
        (r'<(PeerHandleError|LightningError) as Into<MessageHandlingError>>::into$', h_into),
        # the Init branch up to the duplicate check: feature-bit tests are free booleans; the channel handler names no
        # chains (the chain-compatibility loop is not examined)
        (r'PeerManager::<.*>::init_features$', lambda *a: X.Opaque('our features')),
        (r'::requires_unknown_bits_from$', lambda *a: X.B(z3.Bool('env.unknown_bits!%d' % next(E.nfresh)))),
        (r'::required_unknown_bits_from$', lambda *a: X.Opaque('feature bits (log argument)')),
        (r'as ChannelMessageHandler>::get_chain_hashes$', lambda *a: X.En('Option', 0, {})),
    ]:
        E.models.insert(0, (re.compile(rx), h))
    rv = S.call(E, f, args, mem)
    INIT = D.variant_index('Message', 'Init')
    is_init = X.zint(msg.d) == INIT
    is_err = X.zint(rv.d) == 1
    err = E.en_payload(rv, 'Err', 1, 0, 'MessageHandlingError', mem, 'spec')
    drops = z3.And(is_err, X.zint(err.d) == MH('PeerHandleError'))
    b = Binding('init_first_probe', [z3.If(is_init, 1, 0), z3.If(had_init, 1, 0)], [None, z3.If(drops, 1, 0)], parse=lambda t: [int(t[0]), int(t[1])],
                line_fn=lambda v: '%d' % (0 if (v[0] == 0 and v[1] == 0) else 2 if (v[0] == 1 and v[1] == 1) else 1), via_solver=True, domain=[(0, 1), (0, 1)])
    S.prove(ids[0], E, [z3.Not(is_init), z3.Not(had_init)], drops,
            'any message other than Init from a peer whose Init has not been received is refused with the error that disconnects the peer', [b],
            bounds='do_handle_message_holding_peer_lock, whole function, any message variant, any peer state')
    S.prove(ids[1], E, [is_init, had_init], drops, 'a second Init is refused the same way', [b])
    S.witness(ids[3], E, [z3.Not(is_init), z3.Not(had_init)], drops)
    # handle_message: a refusal is returned as it is; the lock-free part of the handling is not entered
    f2 = S.fn('handle_message', first_param='PeerManager')
    E2 = S.engine(unwind=2)
    mem2 = {}
    peer2 = E2.new_cell()
    mem2[peer2] = X.Adt('Peer', {PF.index('their_node_id'): X.En('Option', 1, {1: [X.Tup([X.Opaque('key'), X.Opaque('id')])]})}, base='peer')
    inner = E2.sym('holding_lock_result', 'std::result::Result<std::option::Option<LogicalMessage>, MessageHandlingError>', mem2)
    later = []
    for rx, h in [
        (r'MutexGuard<.*Peer> as (?:std::ops::)?DerefMut>::deref_mut$', lambda *a: X.Ref(peer2)),
        (r'MutexGuard<.*Peer> as (?:std::ops::)?Deref>::deref$', lambda *a: X.Ref(peer2)),
        (r'::do_handle_message_holding_peer_lock$', lambda *a: inner),
        (r'::do_handle_message_without_peer_lock$', lambda E_, m, func, argv, guard, mem_, dty, caller: (later.append(X.zbool(guard)), E2.sym('later!%d' % next(E2.nfresh), dty, mem_))[1]),
        (r'as ChannelMessageHandler>::message_received$', lambda E_, m, func, argv, guard, mem_, dty, caller: (later.append(X.zbool(guard)), X.UNIT)[1]),
        (r'as ChannelMessageHandler>::handle_commitment_signed_batch', lambda E_, m, func, argv, guard, mem_, dty, caller: (later.append(X.zbool(guard)), X.UNIT)[1]),
        (r'Option::<\(.*PublicKey, .*NodeId\)>::expect$', lambda *a: X.Tup([X.Opaque('key'), X.Opaque('id')])),
    ]:
        E2.models.insert(0, (re.compile(rx), h))
    a2 = [E2.sym('self', f2.params[0][1], mem2), E2.sym('mutex', f2.params[1][1], mem2), X.Ref(peer2), X.Opaque('message')]
    rv2 = S.call(E2, f2, a2, mem2)
    refused = X.zint(inner.d) == 1
    S.prove(ids[2], E2, [refused], z3.And(X.zint(rv2.d) == 1, z3.Not(z3.Or(*later)) if later else z3.BoolVal(True)),
            'when the first stage refuses a message, handle_message returns the refusal and neither the channel handler nor the rest of the handling sees the message', [])
    S.validate(ids[4], E, b, n=3, extra_vectors=[(0, 0), (1, 1), (0, 1)])


def write_step(S, D):
    """C15.e: the part of PeerManager::do_attempt_write_data that hands the front of the outbound queue to the socket:
    a region from the look at the queue's front to the end of the loop body, from an arbitrary state."""
    ids = ['C15.e.partial_write', 'C15.e.nopanic', 'C15.e.witness', 'C15.e.validate']
    if all(S._skip(o) for o in ids):
        return
    f = S.fn('do_attempt_write_data')
    E = S.engine(unwind=1)
    mem = {}
    args = [E.sym('a%d' % n, t, mem) if t.startswith('&') else X.Opaque('arg%d' % n) for n, t in f.params]
    run = X.FnRun(E, f, args, True, mem)
    succ, rpo, back, encl = run.analyse_cfg()
    start = [b for b, (body, t) in f.blocks.items() if t[0] == 'call' and re.search(r'VecDeque::<.*Vec<u8>>::front$', t[2])]
    if len(start) != 1:
        raise X.Unsupported('do_attempt_write_data: %d looks at the front of the outbound queue' % len(start))
    start = start[0]
    heads = set(encl[start])
    if not heads:
        raise X.Unsupported('do_attempt_write_data: the write is not inside a loop')
    PF = D.struct_fields('Peer')
    B = E.sym('front_buffer.len', 'usize')
    off = E.sym('peer.first_msg_offset', 'usize')
    awaiting = z3.Bool('peer.awaiting_write_event')
    queue_empty = z3.Bool('queue.empty')
    sent = E.sym('socket.accepted', 'usize')
    peer_c = E.new_cell()
    mem[peer_c] = X.Adt('Peer', {PF.index('pending_outbound_buffer_first_msg_offset'): off, PF.index('awaiting_write_event'): X.B(awaiting)}, base='peer')
    buf_c = E.new_cell()
    mem[buf_c] = X.Seq([], B.t, 'u8')
    sends, pops = [], []

    def h_index_from(E_, m, func, argv, guard, mem_, dty, caller):
        lo = E.read_path(argv[1], (('f', 0, 'usize'),), mem_, guard, 'range').t
        v = argv[0]
        while isinstance(v, X.Ref):
            v = E.read_path(mem_[v.cell], v.path, mem_, guard, 'buf')
        E.panic(z3.And(X.zbool(guard), lo > v.n), 'range start out of bounds', caller.fn.name)
        c = E.new_cell()
        mem_[c] = X.Adt('Slice', {0: X.I(lo, 'usize'), 1: X.I(v.n - lo, 'usize')})
        return X.Ref(c)

    def h_send(E_, m, func, argv, guard, mem_, dty, caller):
        sl = argv[1]
        while isinstance(sl, X.Ref):
            sl = E.read_path(mem_[sl.cell], sl.path, mem_, guard, 'send')
        if isinstance(sl, X.Adt) and sl.name == 'Slice':
            sends.append((X.zbool(guard), sl.fs[0].t, sl.fs[1].t))
            # SocketDescriptor::send_data: returns how much of the slice it took
            E.assume(z3.Implies(X.zbool(guard), z3.And(sent.t >= 0, sent.t <= sl.fs[1].t)))
            return sent
        return X.I(0, 'usize')          # the forced empty write
    peer_local = [n for n, t in f.params if t.startswith('&mut') and 'Peer' in t]
    for rx, h in [
        (r'VecDeque::<.*Vec<u8>>::front$', lambda *a: X.En('Option', z3.If(queue_empty, 0, 1), {1: [X.Ref(buf_c)]})),
        (r'Vec<u8> as (?:std::ops::)?Index<(?:std::ops::)?RangeFrom<usize>>>::index$', h_index_from),
        (r' as SocketDescriptor>::send_data$', h_send),
        (r'VecDeque::<.*Vec<u8>>::pop_front$', lambda E_, m, func, argv, guard, *a: (pops.append(X.zbool(guard)), X.En('Option', 1, {1: [X.Opaque('sent buffer')]}))[1]),
        (r'VecDeque::<.*Vec<u8>>::(?:capacity|len)$', lambda *a: E.sym('queue.size!%d' % next(E.nfresh), 'usize')),
        (r'VecDeque::<.*Vec<u8>>::shrink_to_fit$', lambda *a: X.UNIT),
        (r'PeerManager::<.*>::should_read_from$', lambda *a: X.B(z3.Bool('env.should_read!%d' % next(E.nfresh)))),
    ]:
        E.models.insert(0, (re.compile(rx), h))
    init = {peer_local[0]: X.Ref(peer_c)} if peer_local else {}
    E.depth += 1
    rv, ret, m2 = run.run(start_bb=start, init=init, stop_bbs=heads)
    E.depth -= 1
    states = [st for b_ in sorted(run.stop_states, key=str) for st in run.stop_states[b_]]
    if not states:
        raise X.Unsupported('do_attempt_write_data: the loop head is not reached again (%s)' % [w for g_, w in E.unsupported][:3])
    g_loop, m_loop = E.merge_mem(states)
    again = X.zbool(g_loop)
    pv = m_loop[peer_c]
    off2 = E.read_path(pv, (('f', PF.index('pending_outbound_buffer_first_msg_offset'), 'usize'),), m_loop, True, 'spec').t
    aw2 = X.zbool(E.read_path(pv, (('f', PF.index('awaiting_write_event'), 'bool'),), m_loop, True, 'spec').t)
    real = [s_ for s_ in sends]
    if len(real) != 1:
        raise X.Unsupported('do_attempt_write_data: %d writes of queued data in the region' % len(real))
    g_s, s_lo, s_len = real[0]
    popped = z3.Or(*pops) if pops else z3.BoolVal(False)
    pre = [off.t >= 0, off.t < B.t, B.t < 1 << 20, z3.Not(queue_empty)]         # invariant: the offset points inside the front buffer
    for c_ in pre:
        E.assume(c_)          # (so that the validation vector evaluates the encoding in such a state)
    done = off.t + sent.t == B.t
    claim = z3.And(g_s, s_lo == off.t, s_len == B.t - off.t, again,
                   z3.If(done, z3.And(off2 == 0, popped, aw2 == awaiting), z3.And(off2 == off.t + sent.t, z3.Not(popped), aw2)))
    b = Binding('peer_framing_probe', [z3.IntVal(1)], [z3.If(claim, 1, 0)], parse=lambda t: [1 if t[0] == t[1] else 0], line_fn=lambda v: WRITE_LINE,
                via_solver=True, domain=[(1, 1)], panic=False)
    S.prove(ids[0], E, pre, claim,
            'the socket is offered exactly the unsent rest of the front buffer; if it takes all of it the buffer is dropped and the offset reset, otherwise the offset advances by what was taken (so the next write resumes at the first unsent byte - no byte is sent twice or skipped), the buffer stays, and writing pauses until the socket reports space',
            [b], bounds='one pass through the write part of the loop body from an arbitrary state with a non-empty queue; buffers < 2^20 bytes; the socket takes any prefix')
    S.no_panic(ids[1], E, pre, 'no slice index out of range, no overflow', [])
    S.witness(ids[2], E, pre + [sent.t > 0, z3.Not(done)], again)
    S.validate(ids[3], E, b, n=1, extra_vectors=[(1,)])


# native scenario of C15.e: as FRAMING_LINE, but every socket takes at most 7 bytes per write
WRITE_LINE = '3 0 1 19 w7 3 2 300 5000'
